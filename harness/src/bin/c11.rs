//! C11 — sorts, merges and set operations produce the mathematically defined result.
//!
//! Runs the real zipora sorting / merging / set-operation entry points on generated inputs and
//! logs ONE batch event per call: the input(s) and whatever the code returned.  TLC judges the
//! events against spec/SortMerge.tla and spec/SetOps.tla (Trace_SortMerge.tla).
//!
//! This file contains no sorting, merging or set algorithm of its own and never compares an
//! output with an expected one.  It only
//!   * generates inputs (sorted inputs are sorted BY CONSTRUCTION: monotone maps of increasing
//!     rank sequences; no sort call anywhere in this file),
//!   * projects: key encodings (ints / 16-bit limbs / byte arrays), and for the large regime the
//!     generic projections `bag_digest` (order-independent multiset digest) and `inversions`
//!     (count of adjacent inversions),
//!   * contains crashes: every batch of jobs runs in a child process under RLIMIT_AS; a child
//!     killed by a signal is reported as a `crash` event for the job it was executing.
//!
//! modes:
//!   drive     parent: runs children over the job list, reports crashes, writes summary.json
//!   child     executes jobs [--from ..) of the families selected by --subject / --fam
//!   subjects  list subject names
use serde_json::{json, Map, Value};
use std::collections::{BTreeMap, HashSet};
use std::path::PathBuf;
use zipora::algorithms::cache_oblivious::{CacheObliviousConfig, CacheObliviousSort};
use zipora::algorithms::external_sort::{ExternalSort, ReplaceSelectSort, ReplaceSelectSortConfig};
use zipora::algorithms::multiway_merge::{MergeOperations, MultiWayMerge, MultiWayMergeConfig, VectorSource};
use zipora::algorithms::radix_sort::{
    AdvancedRadixSort, AdvancedRadixSortConfig, KeyValueRadixSort, RadixSort, RadixSortConfig, RadixSortable,
    RadixString, SortingStrategy,
};
use zipora::algorithms::set_operations::{SetOperations, SetOperationsConfig};
use zipora::algorithms::set_ops as so;
use zipora::algorithms::simd_merge::{SimdComparator, SimdConfig, SimdOperations};
use zipora::algorithms::tournament_tree::{EnhancedLoserTree, LoserTreeConfig};
use zipora::algorithms::Algorithm;
use zipora::memory::cache_layout::CacheHierarchy;
use zv::*;

const TMP_DIR: &str = "/verif/work/C11-tmp";
const MASK60: u64 = (1u64 << 60) - 1;

// ------------------------------------------------------------------ keys and projections

fn mix64(mut z: u64) -> u64 {
    z = z.wrapping_add(0x9E3779B97F4A7C15);
    z = (z ^ (z >> 30)).wrapping_mul(0xBF58476D1CE4E5B9);
    z = (z ^ (z >> 27)).wrapping_mul(0x94D049BB133111EB);
    (z ^ (z >> 31)) & MASK60
}

/// An element type of a subject: how it is logged and how it enters the multiset digest.
trait Key: Clone + Ord + Send + Sync + 'static {
    /// needs the limb encoding (u32 >= 2^31); always true for u64
    fn wide(&self) -> bool;
    fn enc(&self, wide: bool) -> Value;
    fn kt(wide: bool) -> &'static str;
    /// 60-bit per-element mix for the order-independent digest
    fn mix(&self) -> u64;
    /// monotone map from the 64-bit rank space into the type; `dom` selects the value domain
    fn from_rank(dom: &str, x: u64) -> Self;
    fn domains() -> &'static [&'static str];
    /// the natural 64-bit embedding of the key (byte strings: first 8 bytes, zero padded, big endian)
    fn emb64(&self) -> u64;
}

/// projections of an input used by the trigger conditions of recorded findings (large regime, where the
/// input itself is not logged): some key >= 2^32; two DIFFERENT elements with the same 64-bit embedding;
/// two equal keys
fn any_hi28<T: Key>(v: &[T]) -> bool {
    v.iter().any(|x| x.emb64() >= 1u64 << 28)
}
fn any_hi32<T: Key>(v: &[T]) -> bool {
    v.iter().any(|x| x.emb64() >= 1u64 << 32)
}
fn emb_collision<T: Key>(v: &[T]) -> bool {
    let mut seen: std::collections::HashMap<u64, &T> = std::collections::HashMap::new();
    v.iter().any(|x| match seen.get(&x.emb64()) {
        Some(y) => *y != x,
        None => {
            seen.insert(x.emb64(), x);
            false
        }
    })
}
fn has_dups<T: Key>(v: &[T]) -> bool {
    let mut seen: HashSet<u64> = HashSet::new();
    v.iter().any(|x| !seen.insert(x.mix()))
}
fn panic_kind(msg: &str) -> &'static str {
    if msg.starts_with("index out of bounds") || msg.contains("out of range for slice") {
        "oob"
    } else {
        "other"
    }
}

/// ascending table of the values around every power of two below 2^bits:
/// 0 1 2 3 4 5, then 2^k-1 2^k 2^k+1 for k = 3 .. bits-1, then 2^bits-2, 2^bits-1 (ascending by construction)
fn pow2_table(bits: u32) -> Vec<u128> {
    let mut v: Vec<u128> = vec![0, 1, 2, 3, 4, 5];
    for k in 3..bits {
        let p = 1u128 << k;
        v.extend([p - 1, p, p + 1]);
    }
    let max = if bits == 128 { u128::MAX } else { (1u128 << bits) - 1 };
    v.extend([max - 1, max]);
    v
}
/// signed counterpart for `bits`-bit two's complement: MIN, -(2^k+1) .. -1, 0, 1 .. MAX (ascending by construction)
fn pow2_table_signed(bits: u32) -> Vec<i128> {
    let pos = pow2_table(bits - 1);
    let mut v: Vec<i128> = vec![-(1i128 << (bits - 1))];
    v.extend(pos.iter().rev().filter(|&&x| x != 0).map(|&x| -(x as i128)));
    v.extend(pos.iter().map(|&x| x as i128));
    v
}
/// monotone pick from an ascending table
fn pick<T: Copy>(t: &[T], x: u64) -> T {
    t[((x as u128 * t.len() as u128) >> 64) as usize]
}
/// "cap<B>": values below 2^B with the maximum 2^B - 1 present; "capp<B>": the maximum is 2^B (one bit more):
/// the two sides of every "how many bits does the largest key need" computation
fn cap_value(dom: &str, x: u64) -> u64 {
    let plus = dom.starts_with("capp");
    let b: u32 = dom.trim_start_matches("capp").trim_start_matches("cap").parse().unwrap_or(8);
    let top = 1u64 << b;
    if plus {
        pick(&[0, 1, top - 1, top], x)
    } else {
        pick(&[0, 1, top >> 1, top - 2, top - 1], x)
    }
}
fn leak(s: String) -> &'static str {
    Box::leak(s.into_boxed_str())
}
/// cases on both sides of the pass-count switches of an LSD sort with `rb`-bit digits on `width`-bit keys
fn cap_cases(rb: usize, width: usize) -> Vec<Case> {
    let mut bs: Vec<usize> = vec![rb, 2 * rb, (width - 1) / rb * rb];
    bs.retain(|&b| b >= 1 && b < width);
    bs.dedup();
    let mut v = vec![];
    for b in bs {
        v.push(Case { shape: "rand", dom: leak(format!("cap{b}")), n: 24 });
        v.push(Case { shape: "rand", dom: leak(format!("capp{b}")), n: 24 });
    }
    v
}
fn be16(x: u128) -> Value {
    Value::Array(x.to_be_bytes().iter().map(|&b| json!(b)).collect())
}

impl Key for u32 {
    fn wide(&self) -> bool {
        *self >= 0x8000_0000
    }
    fn enc(&self, wide: bool) -> Value {
        if wide {
            limbs(*self as u64)
        } else {
            json!(*self)
        }
    }
    fn kt(wide: bool) -> &'static str {
        if wide {
            "limbs"
        } else {
            "int"
        }
    }
    fn mix(&self) -> u64 {
        mix64(*self as u64)
    }
    fn from_rank(dom: &str, x: u64) -> u32 {
        match dom {
            "low" => (x >> 61) as u32,
            "mid" => (x >> 47) as u32,
            // values differing only in the highest byte, all >= 2^31
            "high" => 0x8000_0000 | (((x >> 57) as u32) << 24) | 0x0034_5678,
            // around every power of two: every digit boundary of every radix width
            "pow2" => pick(&pow2_table(32), x) as u32,
            // the largest value the counting sort of RadixSort accepts (2^16 - 1) and the first it does not
            "edge16" => pick(&[0u32, 1, 65534, 65535], x),
            "edge16p" => pick(&[0u32, 65535, 65536, 65537], x),
            d if d.starts_with("cap") => cap_value(d, x) as u32,
            _ => (x >> 32) as u32,
        }
    }
    fn emb64(&self) -> u64 {
        *self as u64
    }
    fn domains() -> &'static [&'static str] {
        &["low", "mid", "high", "full", "pow2", "edge16", "edge16p"]
    }
}

impl Key for u64 {
    fn wide(&self) -> bool {
        true
    }
    fn enc(&self, _wide: bool) -> Value {
        limbs(*self)
    }
    fn kt(_wide: bool) -> &'static str {
        "limbs"
    }
    fn mix(&self) -> u64 {
        mix64(*self)
    }
    fn from_rank(dom: &str, x: u64) -> u64 {
        match dom {
            "low" => x >> 61,
            "mid" => x >> 44,
            // differ only in the highest byte, all >= 2^63
            "high" => (1u64 << 63) | ((x >> 57) << 56) | 0x00AB_CDEF_0123_4567,
            // differ only in bits 32..48 (the high word), low word constant
            "hi32" => ((x >> 48) << 32) | 0x89AB_CDEF,
            "pow2" => pick(&pow2_table(64), x) as u64,
            d if d.starts_with("cap") => cap_value(d, x),
            _ => x,
        }
    }
    fn emb64(&self) -> u64 {
        *self
    }
    fn domains() -> &'static [&'static str] {
        &["low", "mid", "high", "hi32", "full", "pow2"]
    }
}

impl Key for i32 {
    fn wide(&self) -> bool {
        false
    }
    fn enc(&self, _wide: bool) -> Value {
        json!(*self)
    }
    fn kt(_wide: bool) -> &'static str {
        "int"
    }
    fn mix(&self) -> u64 {
        mix64(*self as u32 as u64)
    }
    fn from_rank(dom: &str, x: u64) -> i32 {
        match dom {
            "low" => (x >> 61) as i32 - 4,
            "mid" => (x >> 47) as i32 - 65536,
            "high" => ((((x >> 57) as u32) << 25) ^ 0x8000_0000) as i32 | 0x0012_3456,
            // i32::MIN, -(2^k +- 1), -1, 0, 1, 2^k +- 1, i32::MAX
            "pow2" => pick(&pow2_table_signed(32), x) as i32,
            _ => (((x >> 32) as u32) ^ 0x8000_0000) as i32,
        }
    }
    fn emb64(&self) -> u64 {
        *self as u32 as u64
    }
    fn domains() -> &'static [&'static str] {
        &["low", "mid", "high", "full", "pow2"]
    }
}

const ALPHA: [u8; 5] = [0, 1, 97, 98, 255];
/// number of strings over ALPHA of length <= l
fn lex_count(l: u32) -> u64 {
    (0..l).fold(1u64, |c, _| 1 + ALPHA.len() as u64 * c)
}
/// the r-th string (0-based) of length <= l over ALPHA in lexicographic order, a proper prefix
/// before its extensions: an order isomorphism, used to GENERATE byte strings from ranks
fn lex_unrank(mut r: u64, l: u32, out: &mut Vec<u8>) {
    let mut l = l;
    while r > 0 && l > 0 {
        r -= 1;
        let sub = lex_count(l - 1);
        out.push(ALPHA[(r / sub) as usize]);
        r %= sub;
        l -= 1;
    }
}

impl Key for Vec<u8> {
    fn wide(&self) -> bool {
        false
    }
    fn enc(&self, _wide: bool) -> Value {
        bytes_json(self)
    }
    fn kt(_wide: bool) -> &'static str {
        "bytes"
    }
    fn mix(&self) -> u64 {
        let mut h: u64 = 0xcbf29ce484222325;
        for &x in self.iter() {
            h = (h ^ x as u64).wrapping_mul(0x100000001b3);
        }
        mix64(h ^ ((self.len() as u64) << 48))
    }
    fn from_rank(dom: &str, x: u64) -> Vec<u8> {
        let mut v = Vec::new();
        match dom {
            // few distinct short strings
            "low" => lex_unrank(((x as u128 * lex_count(1) as u128) >> 64) as u64, 1, &mut v),
            // a 10-byte common prefix (longer than any 8-byte key extraction), then a short tail
            "prefix" => {
                v.extend_from_slice(b"commonpref");
                lex_unrank(((x as u128 * lex_count(3) as u128) >> 64) as u64, 3, &mut v);
            }
            // differ only in the first byte (>= 128), constant tail
            "high" => {
                v.push(128 + (x >> 57) as u8);
                v.extend_from_slice(b"zz");
            }
            // one byte repeated 0..15 times: every string a prefix of the next
            "lens" => v.resize((x >> 60) as usize, 97),
            // a 70-byte common prefix: deeper than the depth limit (64) of the MSD recursion
            "deep" => {
                v.resize(70, 100);
                lex_unrank(((x as u128 * lex_count(3) as u128) >> 64) as u64, 3, &mut v);
            }
            _ => lex_unrank(((x as u128 * lex_count(5) as u128) >> 64) as u64, 5, &mut v),
        }
        v
    }
    fn emb64(&self) -> u64 {
        self.iter().take(8).enumerate().fold(0u64, |k, (i, &b)| k | (b as u64) << (8 * (7 - i)))
    }
    fn domains() -> &'static [&'static str] {
        &["low", "prefix", "high", "lens", "full", "deep"]
    }
}

/// a wide element: ordered by `key` (the padding is constant); used to reach the cache-size
/// dependent branches of CacheObliviousSort
#[derive(Clone, Debug, PartialEq, Eq, PartialOrd, Ord)]
struct Fat<const N: usize> {
    key: u64,
    pad: [u64; N],
}
impl<const N: usize> Key for Fat<N> {
    fn wide(&self) -> bool {
        true
    }
    fn enc(&self, _wide: bool) -> Value {
        limbs(self.key)
    }
    fn kt(_wide: bool) -> &'static str {
        "limbs"
    }
    fn mix(&self) -> u64 {
        mix64(self.key)
    }
    fn from_rank(dom: &str, x: u64) -> Self {
        Fat { key: u64::from_rank(dom, x), pad: [7; N] }
    }
    fn emb64(&self) -> u64 {
        self.key
    }
    fn domains() -> &'static [&'static str] {
        &["low", "mid", "high", "full"]
    }
}

macro_rules! small_uint_key {
    ($t:ty, $bits:expr) => {
        impl Key for $t {
            fn wide(&self) -> bool {
                false
            }
            fn enc(&self, _wide: bool) -> Value {
                json!(*self)
            }
            fn kt(_wide: bool) -> &'static str {
                "int"
            }
            fn mix(&self) -> u64 {
                mix64(*self as u64 ^ ($bits as u64) << 56)
            }
            fn from_rank(dom: &str, x: u64) -> $t {
                match dom {
                    "low" => (x >> 61) as $t,
                    "pow2" => pick(&pow2_table($bits), x) as $t,
                    _ => (x >> (64 - $bits)) as $t,
                }
            }
            fn emb64(&self) -> u64 {
                *self as u64
            }
            fn domains() -> &'static [&'static str] {
                &["low", "full", "pow2"]
            }
        }
    };
}
small_uint_key!(u8, 8);
small_uint_key!(u16, 16);

/// i64 is logged in offset binary (x XOR 2^63 as four limbs): an order-preserving bijection onto u64
impl Key for i64 {
    fn wide(&self) -> bool {
        true
    }
    fn enc(&self, _wide: bool) -> Value {
        limbs((*self as u64) ^ (1u64 << 63))
    }
    fn kt(_wide: bool) -> &'static str {
        "limbs"
    }
    fn mix(&self) -> u64 {
        mix64(*self as u64 ^ 0x1640)
    }
    fn from_rank(dom: &str, x: u64) -> i64 {
        match dom {
            "low" => (x >> 61) as i64 - 4,
            "mid" => (x >> 44) as i64 - (1 << 19),
            "pow2" => pick(&pow2_table_signed(64), x) as i64,
            _ => (x ^ (1u64 << 63)) as i64,
        }
    }
    fn emb64(&self) -> u64 {
        *self as u64
    }
    fn domains() -> &'static [&'static str] {
        &["low", "mid", "full", "pow2"]
    }
}

/// u128 and (u64, u64) are logged as 16 big-endian bytes (kt "bytes": for equal lengths the
/// lexicographic byte order is the numeric / tuple order)
impl Key for u128 {
    fn wide(&self) -> bool {
        false
    }
    fn enc(&self, _wide: bool) -> Value {
        be16(*self)
    }
    fn kt(_wide: bool) -> &'static str {
        "bytes"
    }
    fn mix(&self) -> u64 {
        mix64((*self as u64) ^ mix64((*self >> 64) as u64))
    }
    fn from_rank(dom: &str, x: u64) -> u128 {
        match dom {
            "low" => (x >> 61) as u128,
            // differ only in the high 64 bits
            "hi64" => ((x >> 52) as u128) << 64 | 0x0123_4567_89AB_CDEF,
            "pow2" => pick(&pow2_table(128), x),
            _ => (x as u128) << 64 | mix64(x) as u128,
        }
    }
    fn emb64(&self) -> u64 {
        (*self >> 64) as u64
    }
    fn domains() -> &'static [&'static str] {
        &["low", "hi64", "full", "pow2"]
    }
}
impl Key for (u64, u64) {
    fn wide(&self) -> bool {
        false
    }
    fn enc(&self, _wide: bool) -> Value {
        be16((self.0 as u128) << 64 | self.1 as u128)
    }
    fn kt(_wide: bool) -> &'static str {
        "bytes"
    }
    fn mix(&self) -> u64 {
        mix64(self.1 ^ mix64(self.0) ^ 0x7075)
    }
    fn from_rank(dom: &str, x: u64) -> (u64, u64) {
        match dom {
            "low" => (x >> 62, (x >> 60) & 3),
            // differ only in the first / only in the second component
            "first" => (x >> 50, 7),
            "second" => (5, x >> 50),
            _ => (x >> 32, (x & 0xffff_ffff) << 20),
        }
    }
    fn emb64(&self) -> u64 {
        self.0
    }
    fn domains() -> &'static [&'static str] {
        &["low", "first", "second", "full"]
    }
}
/// (i32, i32, i32): 12 big-endian bytes, each component in offset binary (tuple order = byte order)
impl Key for (i32, i32, i32) {
    fn wide(&self) -> bool {
        false
    }
    fn enc(&self, _wide: bool) -> Value {
        let b = |x: i32| ((x as u32) ^ 0x8000_0000).to_be_bytes();
        Value::Array([b(self.0), b(self.1), b(self.2)].concat().iter().map(|&x| json!(x)).collect())
    }
    fn kt(_wide: bool) -> &'static str {
        "bytes"
    }
    fn mix(&self) -> u64 {
        mix64((self.0 as u32 as u64) << 32 ^ (self.1 as u32 as u64) ^ mix64(self.2 as u32 as u64 ^ 0x333))
    }
    fn from_rank(dom: &str, x: u64) -> (i32, i32, i32) {
        let s = |v: u64| ((v as u32) ^ 0x8000_0000) as i32;
        match dom {
            "low" => ((x >> 62) as i32 - 2, ((x >> 60) & 3) as i32 - 2, ((x >> 58) & 3) as i32),
            "third" => (-1, 7, s(x >> 32)),
            _ => (s(x >> 32), s(x & 0xffff_ffff), 5),
        }
    }
    fn emb64(&self) -> u64 {
        (self.0 as u32 as u64) << 32 | self.1 as u32 as u64
    }
    fn domains() -> &'static [&'static str] {
        &["low", "third", "full"]
    }
}

/// String: the byte-string domains with the alphabet mapped monotonically into printable ASCII
impl Key for String {
    fn wide(&self) -> bool {
        false
    }
    fn enc(&self, _wide: bool) -> Value {
        bytes_json(self.as_bytes())
    }
    fn kt(_wide: bool) -> &'static str {
        "bytes"
    }
    fn mix(&self) -> u64 {
        self.as_bytes().to_vec().mix()
    }
    fn from_rank(dom: &str, x: u64) -> String {
        let b: Vec<u8> = <Vec<u8> as Key>::from_rank(dom, x);
        b.into_iter()
            .map(|c| match c {
                0 => '!',
                1 => '0',
                255 => '~',
                c => c as char,
            })
            .collect()
    }
    fn emb64(&self) -> u64 {
        self.as_bytes().to_vec().emb64()
    }
    fn domains() -> &'static [&'static str] {
        &["low", "prefix", "lens", "full", "deep"]
    }
}

fn any_wide<T: Key>(vs: &[&[T]]) -> bool {
    vs.iter().any(|v| v.iter().any(|x| x.wide()))
}
fn seq_json<T: Key>(v: &[T], wide: bool) -> Value {
    Value::Array(v.iter().map(|x| x.enc(wide)).collect())
}
fn runs_json<T: Key>(runs: &[Vec<T>], wide: bool) -> Value {
    Value::Array(runs.iter().map(|r| seq_json(r, wide)).collect())
}
fn pairs_json<T: Key>(v: &[(T, u32)], wide: bool) -> Value {
    Value::Array(v.iter().map(|(k, x)| json!([k.enc(wide), x])).collect())
}
fn halves(x: u64) -> [u64; 2] {
    [(x >> 30) & 0x3fff_ffff, x & 0x3fff_ffff]
}

/// GENERIC PROJECTION 1: order-independent multiset digest = (sum, xor) of a 60-bit per-element
/// mix, delivered as 30-bit halves [sum_hi, sum_lo, xor_hi, xor_lo]
fn bag_digest(mixes: impl Iterator<Item = u64>) -> Value {
    let (mut s, mut x) = (0u64, 0u64);
    for m in mixes {
        s = s.wrapping_add(m) & MASK60;
        x ^= m;
    }
    let (a, b) = (halves(s), halves(x));
    json!([a[0], a[1], b[0], b[1]])
}
/// GENERIC PROJECTION 2: number of adjacent inversions, count i: out[i] > out[i+1]
fn inversions<T>(v: &[T], gt: impl Fn(&T, &T) -> bool) -> usize {
    (1..v.len()).filter(|&i| gt(&v[i - 1], &v[i])).count()
}
fn pair_mix<T: Key>(p: &(T, u32)) -> u64 {
    mix64(p.0.mix() ^ ((p.1 as u64) << 7).wrapping_mul(0x2545F4914F6CDD1D))
}

// ------------------------------------------------------------------ input generation

const SHAPES: &[&str] = &["equal", "sorted", "reversed", "rand", "nearly", "runs"];

/// n ranks in the 64-bit rank space with the given shape
fn ranks(shape: &str, n: usize, rng: &mut Rng) -> Vec<u64> {
    let step = if n == 0 { 0 } else { u64::MAX / n as u64 };
    let asc = |rng: &mut Rng| -> Vec<u64> {
        (0..n)
            .map(|i| {
                // every fourth element repeats its predecessor's slot: duplicates in every domain
                let slot = if i % 4 == 3 { i - 1 } else { i } as u64;
                slot * step + if i % 4 == 3 { 0 } else { rng.below(step.max(1)) / 2 }
            })
            .collect()
    };
    match shape {
        "equal" => {
            let x = *rng.pick(&[0u64, u64::MAX, 1u64 << 63, 0x0123_4567_89AB_CDEF]);
            vec![x; n]
        }
        "sorted" => {
            let mut v = asc(rng);
            // duplicates: ranks are weakly increasing after the fix-up below
            for i in 1..n {
                if v[i] < v[i - 1] {
                    v[i] = v[i - 1];
                }
            }
            v
        }
        "reversed" => {
            let mut v = asc(rng);
            for i in 1..n {
                if v[i] < v[i - 1] {
                    v[i] = v[i - 1];
                }
            }
            v.reverse();
            v
        }
        "nearly" => {
            let mut v = asc(rng);
            for i in 1..n {
                if v[i] < v[i - 1] {
                    v[i] = v[i - 1];
                }
            }
            if n >= 2 {
                for _ in 0..(1 + n / 40) {
                    let i = rng.below(n as u64) as usize;
                    let j = rng.below(n as u64) as usize;
                    v.swap(i, j);
                }
            }
            v
        }
        "runs" => {
            // a few ascending runs one after the other
            let k = 1 + rng.below(5) as usize;
            let mut v = Vec::with_capacity(n);
            for r in 0..k {
                let m = if r == k - 1 { n - v.len() } else { (n / k).min(n - v.len()) };
                let st = if m == 0 { 0 } else { u64::MAX / m as u64 };
                let mut last = 0u64;
                for i in 0..m {
                    let x = (i as u64 * st + rng.below(st.max(1)) / 2).max(last);
                    last = x;
                    v.push(x);
                }
            }
            v
        }
        // the first 1000 elements ascending (what a sortedness sample sees), the rest random
        "headsorted" => {
            let h = n.min(1000);
            let st = u64::MAX / h.max(1) as u64;
            (0..n).map(|i| if i < h { i as u64 * st } else { rng.next() }).collect()
        }
        _ => (0..n).map(|_| rng.next()).collect(),
    }
}

fn gen<T: Key>(shape: &str, dom: &str, n: usize, rng: &mut Rng) -> Vec<T> {
    ranks(shape, n, rng).into_iter().map(|x| T::from_rank(dom, x)).collect()
}
/// a weakly increasing sequence (sorted by construction: monotone map of increasing ranks)
fn gen_sorted<T: Key>(dom: &str, n: usize, rng: &mut Rng) -> Vec<T> {
    let sh = if rng.chance(1, 6) { "equal" } else { "sorted" };
    gen(sh, dom, n, rng)
}
/// a strictly increasing sequence: consecutive duplicates of `gen_sorted` dropped (dedup is a
/// projection of the generated input, not an oracle)
fn gen_strict<T: Key>(dom: &str, n: usize, rng: &mut Rng) -> Vec<T> {
    let mut v = gen_sorted::<T>(dom, n, rng);
    v.dedup();
    v
}
/// k sorted runs with assorted lengths (empty ones included)
fn gen_runs<T: Key>(dom: &str, k: usize, maxlen: usize, rng: &mut Rng, strict: bool) -> Vec<Vec<T>> {
    (0..k)
        .map(|_| {
            let n = match rng.below(6) {
                0 => 0,
                1 => 1,
                _ => rng.below(maxlen as u64 + 1) as usize,
            };
            if strict {
                gen_strict(dom, n, rng)
            } else {
                gen_sorted(dom, n, rng)
            }
        })
        .collect()
}

// ------------------------------------------------------------------ context: jobs, subjects, events

struct Cx {
    a: Args,
    t: Tracer,
    seed: u64,
    thorough: bool,
    job: usize,
    from: usize,
    marker: PathBuf,
    cur_subject: String,
    cur_cfg: Value,
    reset_done: bool,
    list_only: bool,
    listed: Vec<String>,
}

impl Cx {
    fn rng(&self, tag: &str) -> Rng {
        Rng::new(self.seed).derive(tag)
    }
    /// start a subject; returns false when filtered out
    fn subject(&mut self, name: &str, cfg: Value) -> bool {
        if self.list_only {
            self.listed.push(name.to_string());
            return false;
        }
        // "fam:group@variant": runs are grouped (and cut out of a trace on rejection) by fam:group; the full
        // name identifies the configuration
        let (subj, _) = name.split_once('@').unwrap_or((name, ""));
        if !self.a.wants(name) && !self.a.wants(subj) {
            return false;
        }
        let (fam, variant) = name.split_once(':').unwrap_or((name, ""));
        let mut c = json!({"fam": fam, "variant": variant, "full": name});
        if let (Some(o), Some(x)) = (c.as_object_mut(), cfg.as_object()) {
            for (k, v) in x {
                o.insert(k.clone(), v.clone());
            }
        }
        self.cur_subject = subj.to_string();
        self.cur_cfg = c;
        self.reset_done = false;
        true
    }
    /// start a job; returns false when the job was executed by an earlier child.  `what` is what
    /// the parent logs as a crash event should this process die inside the job.
    fn begin(&mut self, what: Value) -> bool {
        self.job += 1;
        if self.job <= self.from {
            return false;
        }
        self.t.flush();
        let m = json!({"job": self.job, "subject": self.cur_subject, "cfg": self.cur_cfg, "crash": what});
        let _ = std::fs::write(&self.marker, serde_json::to_vec(&m).unwrap());
        true
    }
    fn ev(&mut self, e: Value) {
        if !self.reset_done {
            self.reset_done = true;
            let (n, c) = (self.cur_subject.clone(), self.cur_cfg.clone());
            self.t.reset("SortMerge", &n, c);
        }
        self.t.ev(e);
    }
}

// ------------------------------------------------------------------ cases

const SMALL_LENS: &[usize] = &[0, 1, 2, 3, 4, 5, 7, 8, 9, 15, 16, 17, 24, 25, 31, 32, 33, 63, 64];
const SMALL_MAX: usize = 64;

#[derive(Clone)]
struct Case {
    shape: &'static str,
    dom: &'static str,
    n: usize,
}
impl Case {
    fn tag(&self) -> String {
        format!("{}/{}/{}", self.shape, self.dom, self.n)
    }
}

/// the small-regime cases of the subject number `si`: every length of `lens`, with `per`
/// (shape, domain) combinations per length chosen by rotation over subjects and lengths
fn small_cases<T: Key>(cx: &Cx, si: usize, lens: &[usize]) -> Vec<Case> {
    let per = if cx.thorough { 8 } else { 3 };
    let doms = T::domains();
    let combos: Vec<(&'static str, &'static str)> =
        SHAPES.iter().flat_map(|s| doms.iter().map(move |d| (*s, *d))).collect();
    let mut v = vec![];
    for (li, &n) in lens.iter().enumerate() {
        let per = if n <= 1 { 1 } else { per };
        for j in 0..per {
            let (shape, dom) = combos[(si * 7 + li * 5 + j * 11) % combos.len()];
            v.push(Case { shape, dom, n });
        }
    }
    v
}
fn big_cases<T: Key>(si: usize, lens: &[usize], shapes: &[&'static str], doms: &[&'static str]) -> Vec<Case> {
    lens.iter()
        .enumerate()
        .map(|(li, &n)| Case { shape: shapes[(si + li) % shapes.len()], dom: doms[(si / 2 + li) % doms.len()], n })
        .collect()
}

fn err_str<E: std::fmt::Display>(e: E) -> String {
    e.to_string()
}

/// one sorting call.  `f` sorts the vector it is given (in place, or by replacing it with the
/// vector the API returned; on Err it leaves it as the API left it).
fn sort_case<T: Key>(cx: &mut Cx, c: &Case, desc: bool, f: &mut dyn FnMut(&mut Vec<T>) -> Result<(), String>) {
    let mut rng = cx.rng(&format!("sort/{}/{}", std::any::type_name::<T>(), c.tag()));
    let input: Vec<T> = gen(c.shape, c.dom, c.n, &mut rng);
    sort_given(cx, c.shape, c.dom, input, desc, f)
}

/// one sorting call on a given input (see sort_case)
fn sort_given<T: Key>(cx: &mut Cx, shape: &str, dom: &str, input: Vec<T>, desc: bool, f: &mut dyn FnMut(&mut Vec<T>) -> Result<(), String>) {
    struct C<'a> {
        shape: &'a str,
        dom: &'a str,
        n: usize,
    }
    let c = C { shape, dom, n: input.len() };
    let ord = if desc { "desc" } else { "asc" };
    let small = c.n <= SMALL_MAX;
    let w_in = any_wide(&[&input]);
    let (hi32, embdup) = (any_hi32(&input), emb_collision(&input));
    let what = json!({"op": "crash", "in": "sort", "kt": T::kt(w_in), "ord": ord, "len": c.n, "shape": c.shape,
        "dom": c.dom, "hi28": any_hi28(&input), "hi32": hi32, "embdup": embdup, "input": if small { seq_json(&input, w_in) } else { json!([]) }});
    if !cx.begin(what) {
        return;
    }
    let mut data = input.clone();
    match guard(|| f(&mut data)) {
        Err(msg) => {
            cx.ev(json!({"op": "panic", "in": "sort", "kind": panic_kind(&msg), "msg": msg, "kt": T::kt(w_in), "ord": ord, "len": c.n,
                "shape": c.shape, "dom": c.dom, "hi32": hi32, "embdup": embdup, "input": if small { seq_json(&input, w_in) } else { json!([]) }}));
            std::mem::forget(data);
        }
        Ok(r) => {
            let ok = r.is_ok();
            if small {
                let w = any_wide(&[&input, &data]);
                cx.ev(json!({"op": "sort", "kt": T::kt(w), "ord": ord, "ok": ok, "shape": c.shape, "dom": c.dom,
                    "hi32": hi32, "in": seq_json(&input, w), "out": seq_json(&data, w)}));
            } else {
                let inv = if desc { inversions(&data, |a, b| a < b) } else { inversions(&data, |a, b| a > b) };
                cx.ev(json!({"op": "sort_big", "ok": ok, "ord": ord, "what": "keys", "shape": c.shape, "dom": c.dom,
                    "hi32": hi32, "embdup": embdup, "dups": has_dups(&input),
                    "len_in": input.len(), "len_out": data.len(),
                    "bag_in": bag_digest(input.iter().map(|x| x.mix())),
                    "bag_out": bag_digest(data.iter().map(|x| x.mix())), "inv": inv}));
            }
        }
    }
}

/// one key-value sorting call; values are the original positions (all pairs distinct)
fn sort_kv_case<T: Key>(
    cx: &mut Cx,
    c: &Case,
    stable: bool,
    f: &mut dyn FnMut(&mut Vec<(T, u32)>) -> Result<(), String>,
) {
    let mut rng = cx.rng(&format!("sort/{}/{}", std::any::type_name::<T>(), c.tag()));
    let keys: Vec<T> = gen(c.shape, c.dom, c.n, &mut rng);
    let input: Vec<(T, u32)> = keys.iter().cloned().enumerate().map(|(i, k)| (k, i as u32)).collect();
    let small = c.n <= SMALL_MAX;
    let w_in = any_wide(&[&keys]);
    let dups = has_dups(&keys);
    let what = json!({"op": "crash", "in": "sort_kv", "kt": T::kt(w_in), "ord": "asc", "len": c.n, "shape": c.shape,
        "dom": c.dom, "dups": dups, "input": if small { pairs_json(&input, w_in) } else { json!([]) }});
    if !cx.begin(what) {
        return;
    }
    let mut data = input.clone();
    match guard(|| f(&mut data)) {
        Err(msg) => {
            cx.ev(json!({"op": "panic", "in": "sort_kv", "kind": panic_kind(&msg), "msg": msg, "dups": dups, "kt": T::kt(w_in), "ord": "asc", "len": c.n,
                "shape": c.shape, "dom": c.dom, "input": if small { pairs_json(&input, w_in) } else { json!([]) }}));
            std::mem::forget(data);
        }
        Ok(r) => {
            let ok = r.is_ok();
            if small {
                let outk: Vec<T> = data.iter().map(|p| p.0.clone()).collect();
                let w = any_wide(&[&keys, &outk]);
                cx.ev(json!({"op": "sort_kv", "kt": T::kt(w), "ord": "asc", "ok": ok, "stable": stable,
                    "shape": c.shape, "dom": c.dom, "in": pairs_json(&input, w), "out": pairs_json(&data, w)}));
            } else {
                cx.ev(json!({"op": "sort_big", "ok": ok, "ord": "asc", "what": "pairs", "shape": c.shape, "dom": c.dom,
                    "hi32": any_hi32(&keys), "embdup": false, "dups": dups,
                    "len_in": input.len(), "len_out": data.len(),
                    "bag_in": bag_digest(input.iter().map(pair_mix)),
                    "bag_out": bag_digest(data.iter().map(pair_mix)),
                    "inv": inversions(&data, |a, b| a.0 > b.0)}));
            }
        }
    }
}

/// one merge call on `runs` (each sorted by construction; reversed for a descending comparator)
fn merge_runs_case<T: Key>(
    cx: &mut Cx,
    label: &str,
    mut runs: Vec<Vec<T>>,
    desc: bool,
    f: &mut dyn FnMut(Vec<Vec<T>>) -> Result<Vec<T>, String>,
) {
    if desc {
        for r in runs.iter_mut() {
            r.reverse();
        }
    }
    let ord = if desc { "desc" } else { "asc" };
    let total: usize = runs.iter().map(|r| r.len()).sum();
    let small = total <= 160;
    let refs: Vec<&[T]> = runs.iter().map(|r| r.as_slice()).collect();
    let w_in = any_wide(&refs);
    let what = json!({"op": "crash", "in": "merge", "kt": T::kt(w_in), "ord": ord, "len": total, "ways": runs.len(),
        "case": label, "runs": if small { runs_json(&runs, w_in) } else { json!([]) }});
    if !cx.begin(what) {
        return;
    }
    let arg = runs.clone();
    match guard(|| f(arg)) {
        Err(msg) => cx.ev(json!({"op": "panic", "in": "merge", "kind": panic_kind(&msg), "msg": msg, "kt": T::kt(w_in), "ord": ord, "len": total,
            "ways": runs.len(), "case": label, "runs": if small { runs_json(&runs, w_in) } else { json!([]) }})),
        Ok(r) => {
            let ok = r.is_ok();
            let out = r.unwrap_or_default();
            if small {
                let mut all: Vec<&[T]> = refs.clone();
                all.push(&out);
                let w = any_wide(&all);
                cx.ev(json!({"op": "merge", "kt": T::kt(w), "ord": ord, "ok": ok, "ways": runs.len(), "case": label,
                    "runs": runs_json(&runs, w), "out": seq_json(&out, w)}));
            } else {
                let gt = |a: &T, b: &T| if desc { a < b } else { a > b };
                let runs_inv: usize = runs.iter().map(|r| inversions(r, gt)).sum();
                cx.ev(json!({"op": "merge_big", "ok": ok, "ord": ord, "ways": runs.len(), "case": label,
                    "runs_inv": runs_inv, "len_in": total, "len_out": out.len(),
                    "bag_in": bag_digest(runs.iter().flat_map(|r| r.iter().map(|x| x.mix()))),
                    "bag_out": bag_digest(out.iter().map(|x| x.mix())), "inv": inversions(&out, gt)}));
            }
        }
    }
}

/// generated merge inputs for a subject: ways 0..=9, empty ways, a single way, assorted domains
fn merge_inputs<T: Key>(cx: &Cx, si: usize, strict: bool) -> Vec<(String, Vec<Vec<T>>)> {
    let doms = T::domains();
    let reps = if cx.thorough { 4 } else { 1 };
    let mut v = vec![];
    for k in 0..=9usize {
        for rep in 0..reps {
            let dom = doms[(si + k + rep) % doms.len()];
            let label = format!("k{k}/{dom}/{rep}");
            let mut rng = cx.rng(&format!("merge/{}/{}/{}", std::any::type_name::<T>(), strict, label));
            v.push((label, gen_runs::<T>(dom, k, 12, &mut rng, strict)));
        }
    }
    // special shapes: all ways empty, one long way among empty ones, all equal elements
    let mut rng = cx.rng(&format!("merge/{}/special", std::any::type_name::<T>()));
    v.push(("empties".into(), vec![vec![], vec![], vec![]]));
    let one = |dom: &str, n: usize, rng: &mut Rng| if strict { gen_strict::<T>(dom, n, rng) } else { gen_sorted::<T>(dom, n, rng) };
    v.push(("one_of_three".into(), vec![vec![], one(doms[si % doms.len()], 20, &mut rng), vec![]]));
    if !strict {
        v.push(("all_equal".into(), (0..4).map(|i| gen::<T>("equal", doms[0], 3 + i, &mut cx.rng("merge/eq"))).collect()));
    }
    v.push(("single".into(), vec![one(doms[(si + 1) % doms.len()], 17, &mut rng)]));
    // one ascending sequence dealt out to k runs: block-wise (disjoint, ascending or descending run order)
    // and round-robin (perfectly interleaved); k = 2, 3, 5 and beyond the initial capacity (64) of the loser tree
    for (k, n) in [(2usize, 24usize), (3, 30), (5, 35), (17, 34), (65, 130), (70, 75)] {
        let dom = doms[(si + k) % doms.len()];
        let all = one(dom, n, &mut rng);
        let per = (all.len() + k - 1) / k.max(1);
        let blocks: Vec<Vec<T>> = (0..k).map(|i| all.iter().skip(i * per).take(per).cloned().collect()).collect();
        let mut rev = blocks.clone();
        rev.reverse();
        let rr: Vec<Vec<T>> = (0..k).map(|i| all.iter().skip(i).step_by(k).cloned().collect()).collect();
        v.push((format!("disjoint{k}/{dom}"), blocks));
        v.push((format!("disjoint_rev{k}/{dom}"), rev));
        v.push((format!("interleaved{k}/{dom}"), rr));
    }
    v
}

/// one two-sequence set operation; `name` is the OPERATION (the subject says which function)
fn setop_case<T: Key>(cx: &mut Cx, name: &str, label: &str, a: &[T], b: &[T], f: &mut dyn FnMut(&[T], &[T]) -> Vec<T>) {
    let w_in = any_wide(&[a, b]);
    let what = json!({"op": "crash", "in": "setop", "name": name, "kt": T::kt(w_in), "case": label,
        "a": seq_json(a, w_in), "b": seq_json(b, w_in)});
    if !cx.begin(what) {
        return;
    }
    match guard(|| f(a, b)) {
        Err(msg) => cx.ev(json!({"op": "panic", "in": "setop", "name": name, "kind": panic_kind(&msg), "msg": msg, "kt": T::kt(w_in), "case": label,
            "a": seq_json(a, w_in), "b": seq_json(b, w_in)})),
        Ok(out) => {
            let w = any_wide(&[a, b, &out]);
            cx.ev(json!({"op": "setop", "name": name, "kt": T::kt(w), "case": label,
                "a": seq_json(a, w), "b": seq_json(b, w), "out": seq_json(&out, w)}));
        }
    }
}

/// pairs (a, b) of sorted sequences: equal, disjoint, nested, with and without duplicates, one
/// much shorter than the other (the adaptive variants switch algorithm on the size ratio)
fn setop_inputs<T: Key>(cx: &Cx) -> Vec<(String, Vec<T>, Vec<T>)> {
    let doms = T::domains();
    let mut v = vec![];
    let sizes: &[(usize, usize)] =
        &[(0, 0), (0, 5), (5, 0), (1, 0), (1, 1), (1, 2), (2, 1), (3, 3), (8, 8), (1, 32), (1, 33), (1, 40), (2, 64), (2, 65), (40, 1),
          (33, 1), (64, 2), (65, 2), (20, 33), (64, 64)];
    let reps = if cx.thorough { 3 } else { 1 };
    for (i, &(na, nb)) in sizes.iter().enumerate() {
        for rep in 0..reps {
            for (j, dom) in doms.iter().enumerate() {
                if !cx.thorough && (i + j) % 2 == 1 && na + nb > 2 {
                    continue;
                }
                let label = format!("{na}x{nb}/{dom}/{rep}");
                let mut rng = cx.rng(&format!("setop/{}/{}", std::any::type_name::<T>(), label));
                let a = gen_sorted::<T>(dom, na, &mut rng);
                let b = if rep == 0 && i % 3 == 2 { a.clone() } else { gen_sorted::<T>(dom, nb, &mut rng) };
                v.push((label, a, b));
            }
        }
    }
    // every combination of multiplicities 0 / 1 / 3 of an element in a and in b
    for dom in doms.iter() {
        let mut rng = cx.rng(&format!("setop/mult/{}/{dom}", std::any::type_name::<T>()));
        let distinct = gen_strict::<T>(dom, 18, &mut rng);
        let (mut a, mut b) = (vec![], vec![]);
        for (i, x) in distinct.iter().enumerate() {
            for _ in 0..[0usize, 1, 3][i % 3] {
                a.push(x.clone());
            }
            for _ in 0..[0usize, 1, 3][(i / 3) % 3] {
                b.push(x.clone());
            }
        }
        v.push((format!("mult/{dom}"), a, b));
    }
    v
}

// ------------------------------------------------------------------ family: RadixSort / KeyValueRadixSort

fn radix_cfg(rb: usize, cthr: usize, pt: Option<usize>) -> RadixSortConfig {
    RadixSortConfig {
        use_parallel: pt.is_some(),
        parallel_threshold: pt.unwrap_or(10_000),
        radix_bits: rb,
        use_counting_sort_threshold: cthr,
        ..RadixSortConfig::default()
    }
}
fn pt_name(pt: Option<usize>) -> String {
    match pt {
        None => "seq".into(),
        Some(p) => format!("pt{p}"),
    }
}

fn fam_radix(cx: &mut Cx) {
    let mut si = 0usize;
    // ---- sort_u32
    let mut variants: Vec<(usize, usize, Option<usize>)> = vec![];
    for rb in [4usize, 8, 11, 16] {
        for pt in [None, Some(8), Some(10_000)] {
            variants.push((rb, 0, pt));
            if rb == 8 {
                variants.push((rb, 256, pt));
            }
        }
    }
    // radix widths that do not divide the key width (last digit partial), and the extremes
    for rb in [1usize, 3, 5, 7, 13] {
        variants.push((rb, 0, None));
    }
    for (rb, cthr, pt) in variants {
        si += 1;
        let name = format!("radix:u32/c{cthr}@rb{rb}/{}", pt_name(pt));
        let cfg = json!({"elem": "u32", "radix_bits": rb, "cthr": cthr, "parallel": pt.is_some(), "pthr": pt.unwrap_or(0)});
        if !cx.subject(&name, cfg) {
            continue;
        }
        let mut cases = small_cases::<u32>(cx, si, SMALL_LENS);
        if pt != Some(8) {
            let lens: &[usize] = if cx.thorough {
                &[255, 256, 257, 1000, 9_999, 10_000, 10_001, 19_999, 20_000, 20_001, 65_537, 200_000, 500_000]
            } else {
                &[255, 256, 257, 9_999, 10_000, 19_999, 20_000, 20_001, 120_000]
            };
            cases.extend(big_cases::<u32>(si, lens, &["rand", "reversed", "nearly", "runs", "equal"], u32::domains()));
        } else {
            cases.extend(big_cases::<u32>(si, &[100, 1000], &["rand", "reversed"], u32::domains()));
        }
        cases.extend(cap_cases(rb, 32));
        if cthr > 0 {
            // both sides of the counting sort's value bound (max < 2^16) on both sides of its length bound
            for (dom, n) in [("edge16", 256usize), ("edge16p", 256), ("edge16", 257), ("edge16p", 255), ("edge16", 40), ("edge16p", 40)] {
                cases.push(Case { shape: "rand", dom, n });
            }
        }
        for c in cases {
            sort_case::<u32>(cx, &c, false, &mut |v| {
                let mut s = RadixSort::with_config(radix_cfg(rb, cthr, pt));
                s.sort_u32(v).map_err(err_str)
            });
        }
    }
    // ---- the Algorithm trait entry point (u32, default configuration)
    si += 1;
    if cx.subject("radix:u32/execute", json!({"elem": "u32", "radix_bits": 8, "cthr": 256, "parallel": true, "pthr": 10_000})) {
        for c in small_cases::<u32>(cx, si, SMALL_LENS) {
            sort_case::<u32>(cx, &c, false, &mut |v| {
                let s = RadixSort::new();
                let out = s.execute(&RadixSortConfig::default(), v.clone()).map_err(err_str)?;
                *v = out;
                Ok(())
            });
        }
    }
    // ---- sort_u64
    for rb in [4usize, 8, 11, 16, 1, 3, 5, 7, 13] {
        for pt in [None, Some(8), Some(10_000)] {
            if ![4, 8, 11, 16].contains(&rb) && pt.is_some() {
                continue;
            }
            si += 1;
            let name = format!("radix:u64@rb{rb}/{}", pt_name(pt));
            let cfg = json!({"elem": "u64", "radix_bits": rb, "cthr": 0, "parallel": pt.is_some(), "pthr": pt.unwrap_or(0)});
            if !cx.subject(&name, cfg) {
                continue;
            }
            let mut cases = small_cases::<u64>(cx, si, SMALL_LENS);
            if pt != Some(8) {
                let lens: &[usize] = if cx.thorough {
                    &[257, 9_999, 10_000, 19_999, 20_000, 20_001, 100_000, 300_000]
                } else {
                    &[257, 9_999, 10_000, 19_999, 20_000, 20_001, 60_000]
                };
                cases.extend(big_cases::<u64>(si, lens, &["rand", "reversed", "nearly", "runs"], u64::domains()));
            } else {
                cases.extend(big_cases::<u64>(si, &[100, 1000], &["rand", "reversed"], u64::domains()));
            }
            cases.extend(cap_cases(rb, 64));
            for c in cases {
                sort_case::<u64>(cx, &c, false, &mut |v| {
                    let mut s = RadixSort::with_config(radix_cfg(rb, 256, pt));
                    s.sort_u64(v).map_err(err_str)
                });
            }
        }
    }
    // ---- sort_bytes
    si += 1;
    if cx.subject("radix:bytes", json!({"elem": "bytes"})) {
        let mut cases = small_cases::<Vec<u8>>(cx, si, SMALL_LENS);
        cases.extend(small_cases::<Vec<u8>>(cx, si + 1, SMALL_LENS));
        cases.extend(big_cases::<Vec<u8>>(si, &[300, 5000, 40_000], &["rand", "reversed", "runs"], &["full", "prefix", "lens"]));
        for c in cases {
            sort_case::<Vec<u8>>(cx, &c, false, &mut |v| RadixSort::new().sort_bytes(v).map_err(err_str));
        }
    }
}

fn kv_run<K: Key + Copy + Into<u64>>(cx: &mut Cx, elem: &str, si: usize) {
    if !cx.subject(&format!("kv:{elem}"), json!({"elem": elem, "stable_promised": false})) {
        return;
    }
    // the keys are sorted by RadixSort::sort_u64 with the default configuration: both sides of its
    // parallel switch (10 000) and of its chunking switch (20 000)
    let big: &[usize] = if cx.thorough { &[257, 3000, 9_999, 10_000, 19_999, 20_000, 20_001, 100_000] } else { &[257, 9_999, 10_000, 19_999, 20_000, 20_001] };
    let mut cases = small_cases::<K>(cx, si, SMALL_LENS);
    cases.extend(big_cases::<K>(si, big, &["rand", "nearly", "reversed", "runs"], K::domains()));
    for c in cases {
        sort_kv_case::<K>(cx, &c, false, &mut |v| KeyValueRadixSort::<K, u32>::new().sort_by_key(v).map_err(err_str));
    }
}

fn fam_kv(cx: &mut Cx) {
    kv_run::<u32>(cx, "u32", 1);
    kv_run::<u64>(cx, "u64", 2);
    kv_run::<u8>(cx, "u8", 3);
    kv_run::<u16>(cx, "u16", 4);
}

// ------------------------------------------------------------------ family: AdvancedRadixSort

fn strat_name(s: Option<SortingStrategy>) -> &'static str {
    match s {
        None => "auto",
        Some(SortingStrategy::Insertion) => "ins",
        Some(SortingStrategy::TimSort) => "tim",
        Some(SortingStrategy::LsdRadix) => "lsd",
        Some(SortingStrategy::MsdRadix) => "msd",
        Some(SortingStrategy::Adaptive) => "forced_adaptive",
    }
}

#[derive(Clone)]
struct AdvV {
    name: String,
    cfg: AdvancedRadixSortConfig,
    big: bool,
}

fn adv_variants(thorough: bool) -> Vec<AdvV> {
    let base = AdvancedRadixSortConfig { use_secure_memory: false, ..AdvancedRadixSortConfig::default() };
    let mut v = vec![];
    // forced LSD: radix width x (sequential | parallel with 1,2,3,8 threads) x SIMD on/off
    for rb in [4usize, 8, 11, 16] {
        for simd in [true, false] {
            for par in [0usize, 1, 2, 3, 8] {
                // quick tier: every thread count for the default radix width, sequential + 3 threads otherwise
                if !thorough && (rb != 8 || !simd) && par != 0 && par != 3 {
                    continue;
                }
                let small_pt = AdvancedRadixSortConfig {
                    force_strategy: Some(SortingStrategy::LsdRadix),
                    radix_bits: rb,
                    use_simd: simd,
                    use_parallel: par > 0,
                    num_threads: par,
                    parallel_threshold: 8,
                    ..base.clone()
                };
                let s = if simd { "simd" } else { "nosimd" };
                let p = if par == 0 { "seq".to_string() } else { format!("par{par}") };
                v.push(AdvV { name: format!("lsd/rb{rb}/{s}/{p}"), cfg: small_pt.clone(), big: false });
                // the same with the default parallel threshold, for the large regime
                if rb == 8 || (thorough && simd) {
                    let mut c = small_pt;
                    c.parallel_threshold = 10_000;
                    v.push(AdvV { name: format!("lsd/rb{rb}/{s}/{p}/pt10000"), cfg: c, big: true });
                }
            }
        }
    }
    for st in [SortingStrategy::Insertion, SortingStrategy::TimSort, SortingStrategy::Adaptive] {
        v.push(AdvV {
            name: strat_name(Some(st)).to_string(),
            cfg: AdvancedRadixSortConfig { force_strategy: Some(st), ..base.clone() },
            big: st == SortingStrategy::TimSort,
        });
    }
    for ithr in [0usize, 4, 100] {
        v.push(AdvV {
            name: format!("msd/ithr{ithr}"),
            cfg: AdvancedRadixSortConfig { force_strategy: Some(SortingStrategy::MsdRadix), insertion_sort_threshold: ithr, ..base.clone() },
            big: ithr == 100,
        });
    }
    // adaptive selection (nothing forced): default thresholds, tiny insertion threshold, adaptive off, pooled memory
    v.push(AdvV { name: "auto/default".into(), cfg: AdvancedRadixSortConfig::default(), big: true });
    v.push(AdvV { name: "auto/ithr4".into(), cfg: AdvancedRadixSortConfig { insertion_sort_threshold: 4, parallel_threshold: 8, ..base.clone() }, big: false });
    v.push(AdvV { name: "auto/off".into(), cfg: AdvancedRadixSortConfig { adaptive_strategy: false, ..base.clone() }, big: true });
    v
}

fn adv_cfg_json(elem: &str, c: &AdvancedRadixSortConfig) -> Value {
    json!({"elem": elem, "strategy": strat_name(c.force_strategy), "adaptive": c.adaptive_strategy, "radix_bits": c.radix_bits,
        "simd": c.use_simd, "parallel": c.use_parallel, "threads": c.num_threads, "pthr": c.parallel_threshold,
        "ithr": c.insertion_sort_threshold, "secure": c.use_secure_memory})
}

fn adv_int<T: Key + RadixSortable>(cx: &mut Cx, elem: &str, si0: usize) {
    for (i, av) in adv_variants(cx.thorough).into_iter().enumerate() {
        let si = si0 + i;
        // subject = element type x strategy group; the radix width / thread count / threshold grid is the variant
        let group = if av.name.starts_with("lsd/") {
            let simd = if av.cfg.use_simd { "simd" } else { "nosimd" };
            format!("adv:{elem}/lsd/{simd}@{}", av.name.replacen(&format!("/{simd}"), "", 1).replacen("lsd/", "", 1))
        } else if av.name.starts_with("auto/") {
            format!("adv:{elem}/auto@{}", &av.name[5..])
        } else if av.name.starts_with("msd/") {
            format!("adv:{elem}/msd@{}", &av.name[4..])
        } else {
            format!("adv:{elem}/{}", av.name)
        };
        if !cx.subject(&group, adv_cfg_json(elem, &av.cfg)) {
            continue;
        }
        let mut cases = small_cases::<T>(cx, si, SMALL_LENS);
        if av.big {
            let lens: &[usize] = if cx.thorough {
                &[99, 100, 101, 999, 1000, 1001, 9_999, 10_000, 19_999, 20_000, 20_001, 100_000, 300_000]
            } else {
                &[100, 101, 999, 1001, 9_999, 10_000, 19_999, 20_000, 20_001, 60_000]
            };
            cases.extend(big_cases::<T>(si, lens, &["rand", "nearly", "reversed", "runs", "sorted"], T::domains()));
            // a sorted head (all the sortedness sample of 1000 elements sees) in front of random data
            cases.push(Case { shape: "headsorted", dom: "full", n: 5000 });
            cases.push(Case { shape: "rand", dom: "pow2", n: 3000 });
        } else {
            cases.extend(big_cases::<T>(si, &[100, 1000], &["rand", "reversed"], T::domains()));
        }
        if av.name.starts_with("lsd/") || av.name.starts_with("auto/") {
            cases.extend(cap_cases(av.cfg.radix_bits, std::mem::size_of::<T>() * 8));
        }
        for c in cases {
            let cfg = av.cfg.clone();
            sort_case::<T>(cx, &c, false, &mut |v| {
                let mut s = AdvancedRadixSort::<T>::with_config(cfg.clone()).map_err(err_str)?;
                s.sort(v).map_err(err_str)
            });
        }
    }
    // the constructor sharing a caller-supplied memory pool
    if cx.subject(&format!("adv:{elem}/with_memory_pool"), adv_cfg_json(elem, &AdvancedRadixSortConfig::default())) {
        let mut cases = small_cases::<T>(cx, si0 + 201, SMALL_LENS);
        cases.extend(big_cases::<T>(si0, &[101, 1001, 20_001], &["rand", "reversed", "nearly"], T::domains()));
        for c in cases {
            sort_case::<T>(cx, &c, false, &mut |v| {
                let pool = zipora::memory::SecureMemoryPool::new(zipora::memory::SecurePoolConfig::small_secure()).map_err(err_str)?;
                let mut s = AdvancedRadixSort::<T>::with_memory_pool(AdvancedRadixSortConfig::default(), pool);
                s.sort(v).map_err(err_str)
            });
        }
    }
    // the Algorithm trait entry point
    if cx.subject(&format!("adv:{elem}/execute"), adv_cfg_json(elem, &AdvancedRadixSortConfig::default())) {
        for c in small_cases::<T>(cx, si0 + 200, SMALL_LENS) {
            sort_case::<T>(cx, &c, false, &mut |v| {
                let s = AdvancedRadixSort::<T>::new().map_err(err_str)?;
                let out = s.execute(&AdvancedRadixSortConfig::default(), v.clone()).map_err(err_str)?;
                *v = out;
                Ok(())
            });
        }
    }
}

/// AdvancedStringRadixSort = AdvancedRadixSort<RadixString>: the strings are borrowed views; the
/// event shows the byte strings in the order the views ended up
fn adv_str(cx: &mut Cx) {
    let base = AdvancedRadixSortConfig { use_secure_memory: false, ..AdvancedRadixSortConfig::default() };
    let mut vars: Vec<(String, AdvancedRadixSortConfig)> = vec![];
    for st in [SortingStrategy::Insertion, SortingStrategy::TimSort, SortingStrategy::LsdRadix] {
        vars.push((strat_name(Some(st)).into(), AdvancedRadixSortConfig { force_strategy: Some(st), ..base.clone() }));
    }
    for ithr in [0usize, 4, 100] {
        vars.push((
            format!("msd/ithr{ithr}"),
            AdvancedRadixSortConfig { force_strategy: Some(SortingStrategy::MsdRadix), insertion_sort_threshold: ithr, ..base.clone() },
        ));
    }
    vars.push(("auto/default".into(), AdvancedRadixSortConfig::default()));
    vars.push((
        "lsd/par2".into(),
        AdvancedRadixSortConfig { force_strategy: Some(SortingStrategy::LsdRadix), use_parallel: true, num_threads: 2, parallel_threshold: 8, ..base.clone() },
    ));
    for (i, (name, cfg)) in vars.into_iter().enumerate() {
        if !cx.subject(&format!("adv:str@{name}"), adv_cfg_json("bytes", &cfg)) {
            continue;
        }
        let mut cases = small_cases::<Vec<u8>>(cx, 300 + i, SMALL_LENS);
        cases.extend(big_cases::<Vec<u8>>(i, &[150, 2000], &["rand", "reversed"], &["full", "prefix"]));
        for c in cases {
            let cfg = cfg.clone();
            sort_case::<Vec<u8>>(cx, &c, false, &mut |v| {
                let owned: Vec<Vec<u8>> = v.clone();
                let mut views: Vec<RadixString> = owned.iter().map(|s| RadixString::new(s)).collect();
                let mut s = AdvancedRadixSort::<RadixString>::with_config(cfg.clone()).map_err(err_str)?;
                let r = s.sort(&mut views).map_err(err_str);
                *v = views.iter().map(|x| x.as_slice().to_vec()).collect();
                r
            });
        }
    }
}

fn fam_adv(cx: &mut Cx) {
    adv_int::<u32>(cx, "u32", 0);
    adv_int::<u64>(cx, "u64", 1000);
    adv_str(cx);
}

// ------------------------------------------------------------------ family: CacheObliviousSort

fn hier(l1: usize, l2: usize, l3: usize, line: usize) -> CacheHierarchy {
    CacheHierarchy { l1_line_size: line, l1_size: l1, l2_line_size: line, l2_size: l2, l3_line_size: line, l3_size: l3, ..CacheHierarchy::default() }
}
fn co_json(elem: &str, esize: usize, entry: &str, c: &CacheObliviousConfig) -> Value {
    let h = &c.cache_hierarchy;
    json!({"elem": elem, "esize": esize, "entry": entry, "l1": h.l1_size, "l2": h.l2_size, "l3": h.l3_size.min(1 << 30),
        "l2_line": h.l2_line_size, "small_threshold": c.small_threshold, "simd": c.use_simd})
}
fn co_run<T: Key>(cx: &mut Cx, name: &str, elem: &str, entry: &'static str, cfg: CacheObliviousConfig, cases: Vec<Case>) {
    if !cx.subject(&name.replacen('/', "@", 1), co_json(elem, std::mem::size_of::<T>(), entry, &cfg)) {
        return;
    }
    for c in cases {
        let cfg = cfg.clone();
        sort_case::<T>(cx, &c, false, &mut |v| {
            let mut s = CacheObliviousSort::with_config(cfg.clone());
            if entry == "cache_oblivious_sort" {
                s.cache_oblivious_sort(v).map_err(err_str)
            } else {
                s.sort(v).map_err(err_str)
            }
        });
    }
}

fn co_default_type<T: Key>(cx: &mut Cx, elem: &str, si: usize, d: &CacheObliviousConfig) {
    let h = &d.cache_hierarchy;
    let es = std::mem::size_of::<T>().max(1);
    let n1 = h.l1_size / 8;
    let mut pts: Vec<usize> = vec![65, (h.l1_size / es).min(n1), (h.l2_size / es).min(n1), n1];
    pts.dedup();
    let mut lens: Vec<usize> = vec![];
    for p in pts {
        for n in [p.saturating_sub(1), p, p + 1] {
            if n > SMALL_MAX && !lens.contains(&n) && (cx.thorough || n >= p) {
                lens.push(n);
            }
        }
    }
    lens.push(n1 + 700);
    let doms = T::domains();
    let mut cases = small_cases::<T>(cx, si, SMALL_LENS);
    cases.extend(big_cases::<T>(si, &lens, &["rand", "reversed", "sorted", "nearly", "equal", "runs"], doms));
    co_run::<T>(cx, &format!("co:default/{elem}"), elem, "sort", d.clone(), cases);
}

fn fam_co(cx: &mut Cx) {
    let d = CacheObliviousConfig::default();
    let l1n = d.cache_hierarchy.l1_size / 8;
    // default configuration, detected cache hierarchy
    let mut cases = small_cases::<u64>(cx, 1, SMALL_LENS);
    let mut lens = vec![1023, 1024, 1025, l1n - 1, l1n, l1n + 1, 10_000, 10_001, 40_000];
    if cx.thorough {
        lens.extend([2048, 65_537, 200_000, 1_048_576]);
    }
    cases.extend(big_cases::<u64>(1, &lens, &["rand", "reversed", "nearly", "runs"], u64::domains()));
    // beyond 1024 * small_threshold elements (default hierarchy)
    cases.push(Case { shape: "rand", dom: "full", n: 1_049_700 });
    co_run::<u64>(cx, "co:default/u64", "u64", "sort", d.clone(), cases);
    let mut cases = small_cases::<u64>(cx, 2, SMALL_LENS);
    cases.extend(big_cases::<u64>(2, &[1024, 1025, 5000, 30_000], &["rand", "reversed", "runs"], u64::domains()));
    co_run::<u64>(cx, "co:default/direct", "u64", "cache_oblivious_sort", d.clone(), cases);
    let mut cases = small_cases::<i32>(cx, 3, SMALL_LENS);
    cases.extend(big_cases::<i32>(3, &[1025, 9000], &["rand", "reversed"], i32::domains()));
    co_run::<i32>(cx, "co:default/i32", "i32", "sort", d.clone(), cases);
    let mut cases = small_cases::<Vec<u8>>(cx, 4, SMALL_LENS);
    cases.extend(big_cases::<Vec<u8>>(4, &[1025, 3000], &["rand", "reversed"], &["full", "prefix"]));
    co_run::<Vec<u8>>(cx, "co:default/bytes", "bytes", "sort", d.clone(), cases);
    // every element size class at the detected hierarchy: on both sides of the L1 window (n * size_of::<T>() <= l1:
    // insertion sort), of the L2 window (quicksort above 16 elements), of the cache-aware window (n * 8 <= l1;
    // beyond it the funnel), and of the element-count switches 16/17, 32/33, 64/65
    co_default_type::<u8>(cx, "u8", 40, &d);
    co_default_type::<u16>(cx, "u16", 41, &d);
    co_default_type::<u32>(cx, "u32", 42, &d);
    co_default_type::<i64>(cx, "i64", 43, &d);
    co_default_type::<u128>(cx, "u128", 44, &d);
    co_default_type::<(u64, u64)>(cx, "pair_u64", 45, &d);
    co_default_type::<String>(cx, "string", 46, &d);
    co_default_type::<Vec<u8>>(cx, "bytes24", 47, &d);
    co_default_type::<Fat<15>>(cx, "fat128", 48, &d);
    co_default_type::<Fat<127>>(cx, "fat1024", 49, &d);
    // the Algorithm trait entry point (Vec<i32>)
    if cx.subject("co:default@execute", co_json("i32", 4, "execute", &d)) {
        for c in small_cases::<i32>(cx, 5, SMALL_LENS) {
            let cfg = d.clone();
            sort_case::<i32>(cx, &c, false, &mut |v| {
                let s = CacheObliviousSort::new();
                let out = s.execute(&cfg, v.clone()).map_err(err_str)?;
                *v = out;
                Ok(())
            });
        }
    }
    // small cache hierarchies: every strategy (cache-aware L1/L2/L3, cache-oblivious funnel, hybrid)
    // is reached by sequences of at most a few hundred elements
    let mut si = 10;
    for (hname, h) in [("k4", hier(64, 256, 2048, 16)), ("k64", hier(64, 4096, 1 << 20, 1)), ("k8", hier(512, 2048, 16384, 32))] {
        for thr in [2usize, 4, 16, 64] {
            si += 1;
            // quick tier: a rotating subset of the (hierarchy, threshold) grid
            if !cx.thorough && (si % 2 == 0) != (hname == "k4") && thr != 4 {
                continue;
            }
            let cfg = CacheObliviousConfig { cache_hierarchy: h.clone(), small_threshold: thr, ..d.clone() };
            let mut cases = small_cases::<u64>(cx, si, SMALL_LENS);
            cases.extend(big_cases::<u64>(si, &[100, 257, 300, 1000], &["rand", "reversed", "runs"], u64::domains()));
            co_run::<u64>(cx, &format!("co:{hname}/thr{thr}/u64"), "u64", "sort", cfg.clone(), cases);
            if thr == 4 {
                let cases = small_cases::<u64>(cx, si + 50, SMALL_LENS);
                co_run::<u64>(cx, &format!("co:{hname}/thr{thr}/direct"), "u64", "cache_oblivious_sort", cfg.clone(), cases);
            }
        }
    }
    // wide elements reach the L2 (quicksort) and L3 (merge sort) branches of the cache-aware strategy
    let cfg = CacheObliviousConfig { cache_hierarchy: hier(512, 2048, 16384, 32), small_threshold: 8, use_simd: false, ..d.clone() };
    co_run::<Fat<3>>(cx, "co:k8/fat32", "fat32", "sort", cfg.clone(), small_cases::<Fat<3>>(cx, 31, SMALL_LENS));
    co_run::<Fat<15>>(cx, "co:k8/fat128", "fat128", "sort", cfg.clone(), small_cases::<Fat<15>>(cx, 32, SMALL_LENS));
    let cfg = CacheObliviousConfig { cache_hierarchy: hier(512, 2048, 16384, 32), small_threshold: 8, use_simd: true, ..d.clone() };
    co_run::<Fat<3>>(cx, "co:k8/fat32/simd", "fat32", "sort", cfg, small_cases::<Fat<3>>(cx, 33, SMALL_LENS));
}

// ------------------------------------------------------------------ family: ReplaceSelectSort

/// ReplaceSelectSort::sort consumes its input: on Err the caller is left with NOTHING, and that is what the
/// event shows (the refusal of a sort is accepted only if what is handed back is a permutation of the input)
fn rss_result<T>(v: &mut Vec<T>, r: Result<Vec<T>, String>) -> Result<(), String> {
    match r {
        Ok(out) => {
            *v = out;
            Ok(())
        }
        Err(e) => {
            v.clear();
            Err(e)
        }
    }
}

fn rss_cfg(buf_bytes: usize, ways: usize, secure: bool) -> ReplaceSelectSortConfig {
    ReplaceSelectSortConfig {
        memory_buffer_size: buf_bytes,
        temp_dir: PathBuf::from(TMP_DIR),
        use_secure_memory: secure,
        compress_temp_files: false,
        merge_ways: ways,
        cleanup_temp_files: true,
    }
}

/// ReplaceSelectSort over another element type with a buffer of `buf` elements (a macro, not a generic
/// function: the serde bounds of ReplaceSelectSort cannot be named without a direct dependency on serde)
macro_rules! rss_type {
    ($t:ty, $cx:expr, $elem:expr, $buf:expr, $si:expr) => {{
        let cx: &mut Cx = $cx;
        let lens: &[usize] = &[0, 1, 2, 3, 4, 5, 8, 9, 17, 33, 64];
        let name = format!("rss:{}@buf{}", $elem, $buf);
        if cx.subject(&name, json!({"elem": $elem, "buf_items": $buf, "merge_ways": 16, "cmp": "ord"})) {
            let bytes = $buf * std::mem::size_of::<$t>();
            for c in small_cases::<$t>(cx, $si, lens) {
                sort_case::<$t>(cx, &c, false, &mut |v| {
                    let mut s = ReplaceSelectSort::<$t>::new(rss_cfg(bytes, 16, false));
                    rss_result(v, s.sort(v.clone()).map_err(err_str))
                });
            }
        }
    }};
}

/// ascending stretches one after the other: replacement selection closes a run at every descent, so the
/// stretch lengths are (about) the run lengths of the spilled files
fn stretches<T: Key>(cx: &Cx, tag: &str, lens: &[usize]) -> Vec<T> {
    let mut rng = cx.rng(&format!("spill/{}/{tag}", std::any::type_name::<T>()));
    let dom = if T::domains().contains(&"full") { "full" } else { T::domains()[0] };
    lens.iter().flat_map(|&n| gen::<T>("sorted", dom, n, &mut rng)).collect()
}
/// ascending byte strings (7-digit counter + padding, 7..40 bytes) whose spilled records (8-byte size header,
/// 8-byte length, bytes) add up to exactly `total` bytes: run files of exactly that size
fn sized_strings(total: usize, seed: usize) -> Vec<Vec<u8>> {
    let rec = |pad: usize| 23 + pad;
    let (mut v, mut left, mut i) = (vec![], total, 0usize);
    let mk = |i: usize, pad: usize| {
        let mut s = format!("{:07}", i).into_bytes();
        s.resize(7 + pad, b'a' + ((i + seed) % 20) as u8);
        s
    };
    while left >= rec((i + seed) % 13) + 46 {
        let pad = (i + seed) % 13;
        v.push(mk(i, pad));
        left -= rec(pad);
        i += 1;
    }
    for r in [left / 2, left - left / 2] {
        if r >= 23 {
            v.push(mk(i, r - 23));
            i += 1;
        }
    }
    v
}

/// spill-to-disk paths of ReplaceSelectSort for one element type: 1, 2, 3 and many runs whose files cross the
/// 8 KiB / 16 KiB / 64 KiB / 1 MiB marks; $rec = bytes of one spilled record (0 = variable)
macro_rules! rss_spill {
    ($t:ty, $cx:expr, $elem:expr, $rec:expr, $conv:expr) => {{
        let cx: &mut Cx = $cx;
        let rec: usize = $rec;
        let conv: fn(Vec<u8>) -> $t = $conv;
        // (label, input)
        let mut inputs: Vec<(String, Vec<$t>)> = vec![];
        if rec > 0 {
            let c = |bytes: usize| bytes / rec;
            let lists: Vec<(&str, Vec<usize>)> = vec![
                ("one_run_8k", vec![c(8192) + 1]),
                ("one_run_8k_minus", vec![c(8192)]),
                ("two_runs_8k", vec![c(8192) + 1, c(8192) + 2]),
                ("three_runs_16k", vec![c(16384) + 1, c(8192), c(16384) - 1]),
                ("two_runs_64k", vec![c(65536) + 1, c(65536)]),
                ("many_runs", vec![c(8192) + 3, 50, c(8192) + 1, 7, 400, c(16384) + 2, 1, c(8192), 90, c(8192) + 5, 3, 600]),
            ];
            for (l, lens) in lists {
                inputs.push((l.to_string(), stretches::<$t>(cx, l, &lens)));
            }
            if rec == 24 || cx.thorough {
                inputs.push(("two_runs_1m".into(), stretches::<$t>(cx, "1m", &[c(1 << 20) + 1, c(1 << 20) - 1])));
            }
        } else {
            for (l, sizes) in [
                ("one_run_8191", vec![8191usize]),
                ("one_run_8192", vec![8192]),
                ("one_run_8193", vec![8193]),
                ("two_runs_8192_8193", vec![8192, 8193]),
                ("three_runs_16k", vec![16384 - 30, 16384, 16384 + 30]),
                ("two_runs_64k", vec![65536, 65536 + 1]),
                ("many_runs", vec![8193, 900, 8191, 16385, 300, 8192, 24577, 8200, 100, 8190]),
            ] {
                let input: Vec<$t> = sizes.iter().enumerate().flat_map(|(i, &b)| sized_strings(b, i)).map(|x| conv(x)).collect();
                inputs.push((l.to_string(), input));
            }
            if cx.thorough {
                inputs.push(("two_runs_1m".into(), [1usize << 20, (1 << 20) + 1].iter().enumerate().flat_map(|(i, &b)| sized_strings(b, i)).map(|x| conv(x)).collect()));
            }
        }
        // nearly sorted (three swaps in 3000 ascending elements: a few long runs), reversed and random (one short
        // run per descent; every run costs an fsync, so these stay small), random through a budget that holds
        // everything (one long run, read straight back)
        {
            let mut rng = cx.rng(&format!("spill/{}/nearly", $elem));
            let mut v = stretches::<$t>(cx, "nearly", &[3000]);
            for _ in 0..3 {
                let (i, j) = (rng.below(3000) as usize, rng.below(3000) as usize);
                v.swap(i, j);
            }
            inputs.push(("nearly".to_string(), v));
        }
        for (shape, n) in [("reversed", 120usize), ("rand", 250), ("rand_all_in_memory", 1500)] {
            let mut rng = cx.rng(&format!("spill/{}/{shape}", $elem));
            let dom = if <$t as Key>::domains().contains(&"full") { "full" } else { <$t as Key>::domains()[0] };
            inputs.push((shape.to_string(), gen::<$t>(if shape == "reversed" { "reversed" } else { "rand" }, dom, n, &mut rng)));
        }
        let es = std::mem::size_of::<$t>();
        for (entry, buf_items) in [("new", 1usize), ("new", 3), ("vec_trait", 2), ("cmp_natural", 4), ("new", 100_000)] {
            let name = format!("rss:spill/{}@{entry}/buf{buf_items}", $elem);
            if !cx.subject(&name, json!({"elem": $elem, "buf_items": buf_items.min(1 << 20), "merge_ways": 16, "cmp": "ord", "entry": entry})) {
                continue;
            }
            for (ci, (label, input)) in inputs.iter().enumerate() {
                // quick tier: every input meets two of the five entry/budget combinations
                if !cx.thorough && buf_items != 1 && (ci + buf_items) % 3 != 0 {
                    continue;
                }
                if (label == "rand_all_in_memory") != (buf_items == 100_000) && !label.starts_with("one_run") {
                    continue;
                }
                let cfg = rss_cfg(buf_items * es, 16, false);
                sort_given::<$t>(cx, label, "spill", input.clone(), false, &mut |v| match entry {
                    "vec_trait" => v.external_sort_with_config(cfg.clone()).map_err(err_str),
                    "cmp_natural" => {
                        let mut s = ReplaceSelectSort::with_comparator(cfg.clone(), |a: &$t, b: &$t| a.cmp(b));
                        rss_result(v, s.sort(v.clone()).map_err(err_str))
                    }
                    _ => {
                        let mut s = ReplaceSelectSort::<$t>::new(cfg.clone());
                        rss_result(v, s.sort(v.clone()).map_err(err_str))
                    }
                });
            }
        }
    }};
}

fn fam_rss(cx: &mut Cx) {
    let _ = std::fs::create_dir_all(TMP_DIR);
    let ways = [2usize, 3, 4, 8, 16];
    let lens: &[usize] = &[0, 1, 2, 3, 4, 5, 6, 7, 8, 9, 16, 17, 33, 64];
    // buffers of 0..8 elements (0: a buffer smaller than one element)
    for buf in 0..=8usize {
        let w = ways[buf % ways.len()];
        let bytes = if buf == 0 { 4 } else { 8 * buf };
        let name = format!("rss:u64@buf{buf}/ways{w}");
        if !cx.subject(&name, json!({"elem": "u64", "buf_items": buf, "merge_ways": w, "cmp": "ord"})) {
            continue;
        }
        let mut cases = small_cases::<u64>(cx, 40 + buf, lens);
        if buf == 8 {
            cases.push(Case { shape: "rand", dom: "full", n: 3000 });
        }
        for c in cases {
            sort_case::<u64>(cx, &c, false, &mut |v| {
                let mut s = ReplaceSelectSort::<u64>::new(rss_cfg(bytes, w, false));
                rss_result(v, s.sort(v.clone()).map_err(err_str))
            });
        }
    }
    // a caller-supplied (reversed) comparator
    for buf in [1usize, 3, 64] {
        let name = format!("rss:u64/desc@buf{buf}");
        if !cx.subject(&name, json!({"elem": "u64", "buf_items": buf, "merge_ways": 16, "cmp": "reversed"})) {
            continue;
        }
        for c in small_cases::<u64>(cx, 60 + buf, lens) {
            sort_case::<u64>(cx, &c, true, &mut |v| {
                let mut s = ReplaceSelectSort::with_comparator(rss_cfg(8 * buf, 16, false), |a: &u64, b: &u64| b.cmp(a));
                rss_result(v, s.sort(v.clone()).map_err(err_str))
            });
        }
    }
    // byte strings, pooled loser tree, default buffer; Vec::external_sort_with_config
    if cx.subject("rss:bytes/buf96B/secure", json!({"elem": "bytes", "buf_items": 4, "merge_ways": 16, "cmp": "ord"})) {
        for c in small_cases::<Vec<u8>>(cx, 70, lens) {
            sort_case::<Vec<u8>>(cx, &c, false, &mut |v| {
                let mut s = ReplaceSelectSort::<Vec<u8>>::new(rss_cfg(96, 16, true));
                rss_result(v, s.sort(v.clone()).map_err(err_str))
            });
        }
    }
    if cx.subject("rss:u64/vec_trait/buf4", json!({"elem": "u64", "buf_items": 4, "merge_ways": 16, "cmp": "ord"})) {
        for c in small_cases::<u64>(cx, 71, lens) {
            sort_case::<u64>(cx, &c, false, &mut |v| v.external_sort_with_config(rss_cfg(32, 16, false)).map_err(err_str));
        }
    }
    rss_spill!(u128, cx, "u128", 24, |_| 0);
    rss_spill!((u64, u64), cx, "pair_u64", 24, |_| (0, 0));
    rss_spill!((i32, i32, i32), cx, "triple_i32", 20, |_| (0, 0, 0));
    rss_spill!(String, cx, "string", 0, |b| String::from_utf8(b).unwrap());
    rss_spill!(Vec<u8>, cx, "bytes", 0, |b| b);
    rss_type!(String, cx, "string", 3usize, 80);
    rss_type!((u64, u64), cx, "pair_u64", 2usize, 81);
    rss_type!(u8, cx, "u8", 5usize, 82);
    rss_type!(i64, cx, "i64", 1usize, 83);
    rss_type!(u128, cx, "u128", 4usize, 84);
    rss_type!(u16, cx, "u16", 7usize, 85);
    if cx.subject("rss:u64/buf1024", json!({"elem": "u64", "buf_items": 1024, "merge_ways": 16, "cmp": "ord"})) {
        let lens: &[usize] = if cx.thorough { &[1023, 1024, 1025, 5000, 40_000] } else { &[1025, 12_000] };
        for c in big_cases::<u64>(0, lens, &["rand", "runs", "reversed"], u64::domains()) {
            sort_case::<u64>(cx, &c, false, &mut |v| {
                let mut s = ReplaceSelectSort::<u64>::new(rss_cfg(8192, 16, false));
                rss_result(v, s.sort(v.clone()).map_err(err_str))
            });
        }
    }
}

// ------------------------------------------------------------------ family: MultiWayMerge, MergeOperations

fn mwm_cfg(tournament: bool, max_ways: usize) -> MultiWayMergeConfig {
    MultiWayMergeConfig { use_tournament_tree: tournament, max_merge_ways: max_ways, ..MultiWayMergeConfig::default() }
}
fn big_runs<T: Key>(cx: &Cx, label: &str, k: usize, n: usize, dom: &str) -> Vec<Vec<T>> {
    let mut rng = cx.rng(&format!("bigmerge/{}/{label}", std::any::type_name::<T>()));
    (0..k).map(|i| gen::<T>("sorted", dom, if i == 1 { 0 } else { n + i }, &mut rng)).collect()
}

fn mwm_run<T: Key>(cx: &mut Cx, name: &str, elem: &str, mode: &str, cfg: MultiWayMergeConfig, si: usize) {
    if !cx.subject(name, json!({"elem": elem, "mode": mode, "max_ways": cfg.max_merge_ways})) {
        return;
    }
    let mut inputs = merge_inputs::<T>(cx, si, false);
    // the tournament mode is taken above 8 sources only
    for k in [9usize, 10, 12] {
        let mut rng = cx.rng(&format!("mwm/{k}/{}", std::any::type_name::<T>()));
        inputs.push((format!("k{k}/wide"), gen_runs::<T>(T::domains()[k % T::domains().len()], k, 10, &mut rng, false)));
    }
    inputs.push(("big4".into(), big_runs::<T>(cx, "big4", 4, 20_000, T::domains()[si % T::domains().len()])));
    inputs.push(("big10".into(), big_runs::<T>(cx, "big10", 10, 3_000, "full")));
    for (label, runs) in inputs {
        let cfg = cfg.clone();
        merge_runs_case::<T>(cx, &label, runs, false, &mut |rs| {
            let sources: Vec<VectorSource<T>> = rs.into_iter().map(VectorSource::new).collect();
            MultiWayMerge::with_config(cfg.clone()).merge(sources).map_err(err_str)
        });
    }
}

fn fam_mwm(cx: &mut Cx) {
    mwm_run::<u64>(cx, "mwm:heap/u64", "u64", "heap", mwm_cfg(false, 1024), 1);
    mwm_run::<u32>(cx, "mwm:heap/u32", "u32", "heap", mwm_cfg(false, 1024), 2);
    mwm_run::<Vec<u8>>(cx, "mwm:heap/bytes", "bytes", "heap", mwm_cfg(false, 1024), 3);
    mwm_run::<u64>(cx, "mwm:tournament/u64", "u64", "tournament", mwm_cfg(true, 1024), 4);
    mwm_run::<Vec<u8>>(cx, "mwm:tournament/bytes", "bytes", "tournament", mwm_cfg(true, 1024), 5);
    mwm_run::<u64>(cx, "mwm:hierarchical/u64", "u64", "hierarchical", mwm_cfg(false, 2), 6);
    mwm_run::<u32>(cx, "mwm:hierarchical_tournament/u32", "u32", "hierarchical", mwm_cfg(true, 4), 7);
    mwm_run::<String>(cx, "mwm:heap/string", "string", "heap", mwm_cfg(false, 1024), 9);
    mwm_run::<(u64, u64)>(cx, "mwm:tournament/pair_u64", "pair_u64", "tournament", mwm_cfg(true, 1024), 10);
    mwm_run::<i64>(cx, "mwm:heap/i64", "i64", "heap", mwm_cfg(false, 1024), 11);
    mwm_run::<u128>(cx, "mwm:hierarchical/u128", "u128", "hierarchical", mwm_cfg(false, 3), 12);
    mwm_run::<u8>(cx, "mwm:tournament/u8", "u8", "tournament", mwm_cfg(true, 1024), 13);
    if cx.subject("mwm:execute/i32", json!({"elem": "i32", "mode": "heap", "max_ways": 1024})) {
        for (label, runs) in merge_inputs::<i32>(cx, 8, false) {
            merge_runs_case::<i32>(cx, &label, runs, false, &mut |rs| {
                MultiWayMerge::new().execute(&MultiWayMergeConfig::default(), rs).map_err(err_str)
            });
        }
    }
}

fn two_way_inputs<T: Key>(cx: &Cx, si: usize) -> Vec<(String, Vec<Vec<T>>)> {
    let mut v = vec![];
    let doms = T::domains();
    let sizes: &[(usize, usize)] = &[(0, 0), (0, 4), (4, 0), (1, 1), (3, 5), (7, 8), (8, 8), (9, 7), (15, 16), (16, 17), (1, 40), (40, 1), (64, 64)];
    for (i, &(na, nb)) in sizes.iter().enumerate() {
        let reps = if cx.thorough { doms.len() } else { 1 };
        for rep in 0..reps {
            let dom = doms[(si + i + rep) % doms.len()];
            let label = format!("{na}+{nb}/{dom}");
            let mut rng = cx.rng(&format!("two/{}/{label}", std::any::type_name::<T>()));
            v.push((label, vec![gen_sorted::<T>(dom, na, &mut rng), gen_sorted::<T>(dom, nb, &mut rng)]));
        }
    }
    v.push(("big".into(), big_runs::<T>(cx, "two", 3, 40_000, doms[si % doms.len()]).into_iter().step_by(2).collect()));
    v
}

fn mops_run<T: Key>(cx: &mut Cx, elem: &str, si: usize) {
    if cx.subject(&format!("mops:merge_two/{elem}"), json!({"elem": elem})) {
        for (label, runs) in two_way_inputs::<T>(cx, si) {
            merge_runs_case::<T>(cx, &label, runs, false, &mut |mut rs| {
                let r = rs.pop().unwrap();
                let l = rs.pop().unwrap();
                Ok(MergeOperations::merge_two(l, r))
            });
        }
    }
    if cx.subject(&format!("mops:merge_in_place/{elem}"), json!({"elem": elem})) {
        for (label, runs) in two_way_inputs::<T>(cx, si + 1) {
            merge_runs_case::<T>(cx, &label, runs, false, &mut |rs| {
                let mid = rs[0].len();
                let mut data: Vec<T> = rs.into_iter().flatten().collect();
                MergeOperations::merge_in_place(&mut data, mid);
                Ok(data)
            });
        }
    }
}

fn fam_mops(cx: &mut Cx) {
    mops_run::<u64>(cx, "u64", 1);
    mops_run::<i32>(cx, "i32", 2);
    mops_run::<Vec<u8>>(cx, "bytes", 3);
    mops_run::<String>(cx, "string", 4);
    mops_run::<(u64, u64)>(cx, "pair_u64", 5);
    mops_run::<u8>(cx, "u8", 6);
    mops_run::<i64>(cx, "i64", 7);
    mops_run::<u128>(cx, "u128", 8);
}

// ------------------------------------------------------------------ family: SIMD merge (i32)

fn fam_simd(cx: &mut Cx) {
    let d = SimdConfig::default();
    let vars: Vec<(&str, SimdConfig)> = vec![
        ("default", d.clone()),
        ("noavx2", SimdConfig { use_avx2: false, ..d.clone() }),
        ("minvec1", SimdConfig { min_vector_size: 1, ..d.clone() }),
        ("minvec64", SimdConfig { min_vector_size: 64, ..d.clone() }),
    ];
    for (i, (name, cfg)) in vars.into_iter().enumerate() {
        if !cx.subject(&format!("simd:merge_sorted_i32/{name}"), json!({"elem": "i32", "avx2": cfg.use_avx2, "min_vec": cfg.min_vector_size})) {
            continue;
        }
        for (label, runs) in two_way_inputs::<i32>(cx, 10 + i) {
            let cfg = cfg.clone();
            merge_runs_case::<i32>(cx, &label, runs, false, &mut |rs| Ok(SimdComparator::with_config(cfg.clone()).merge_sorted_i32(&rs[0], &rs[1])));
        }
    }
    // comparison kernels of the same module: element-wise compare, first minimum
    let lens: &[usize] = &[0, 1, 2, 7, 8, 9, 15, 16, 17, 23, 24, 25, 33, 64];
    let kcfgs: Vec<(&str, SimdConfig)> = vec![
        ("default", d.clone()),
        ("noavx2", SimdConfig { use_avx2: false, ..d.clone() }),
        ("minvec1", SimdConfig { min_vector_size: 1, ..d.clone() }),
        ("noprefetch", SimdConfig { prefetch_distance: 0, ..d.clone() }),
    ];
    let kernel_inputs = |cx: &Cx, tag: &str| -> Vec<(String, Vec<i32>, Vec<i32>)> {
        let mut v = vec![];
        for (li, &n) in lens.iter().enumerate() {
            for (di, dom) in i32::domains().iter().enumerate() {
                if !cx.thorough && (li + di) % 2 == 1 && n > 2 {
                    continue;
                }
                let mut rng = cx.rng(&format!("kernel/{tag}/{n}/{dom}"));
                let a = gen::<i32>("rand", dom, n, &mut rng);
                // b: partly equal to a, partly different, sometimes of another length
                let mut b = gen::<i32>("rand", dom, n, &mut rng);
                for i in 0..n {
                    if i % 3 == 0 {
                        b[i] = a[i];
                    }
                }
                v.push((format!("{n}/{dom}"), a, b));
            }
        }
        v.push(("unequal".into(), vec![1, 2, 3], vec![1, 2]));
        v.push(("unequal16".into(), (0..16).collect(), (0..17).collect()));
        v
    };
    let ord_json = |o: &[std::cmp::Ordering]| Value::Array(o.iter().map(|x| json!(*x as i8)).collect());
    for (name, cfg) in kcfgs.iter() {
        if cx.subject(&format!("simd:compare_i32_slices@{name}"), json!({"elem": "i32", "avx2": cfg.use_avx2, "min_vec": cfg.min_vector_size})) {
            for (label, a, b) in kernel_inputs(cx, "cmp") {
                if !cx.begin(json!({"op": "crash", "in": "compare", "case": label, "len": a.len()})) {
                    continue;
                }
                let c = cfg.clone();
                match guard(|| SimdComparator::with_config(c).compare_i32_slices(&a, &b)) {
                    Err(msg) => cx.ev(json!({"op": "panic", "in": "compare", "kind": panic_kind(&msg), "msg": msg, "case": label, "len": a.len()})),
                    Ok(r) => {
                        let ok = r.is_ok();
                        cx.ev(json!({"op": "compare", "case": label, "a": a, "b": b, "ok": ok, "out": ord_json(&r.unwrap_or_default())}));
                    }
                }
            }
        }
        if cx.subject(&format!("simd:find_min_i32@{name}"), json!({"elem": "i32", "avx2": cfg.use_avx2, "min_vec": cfg.min_vector_size})) {
            for (label, a, _b) in kernel_inputs(cx, "min") {
                if !cx.begin(json!({"op": "crash", "in": "argmin", "case": label, "len": a.len()})) {
                    continue;
                }
                let c = cfg.clone();
                match guard(|| SimdComparator::with_config(c).find_min_i32(&a)) {
                    Err(msg) => cx.ev(json!({"op": "panic", "in": "argmin", "kind": panic_kind(&msg), "msg": msg, "case": label, "len": a.len()})),
                    Ok(r) => cx.ev(json!({"op": "argmin", "case": label, "a": a, "r": match r { None => json!([]), Some((i, v)) => json!([[i, v]]) }})),
                }
            }
        }
    }
    if cx.subject("simd:parallel_compare_i32", json!({"elem": "i32"})) {
        for (label, a, b) in kernel_inputs(cx, "pcmp") {
            if a.len() != b.len() {
                continue;
            }
            if !cx.begin(json!({"op": "crash", "in": "compare", "case": label, "len": a.len()})) {
                continue;
            }
            let pairs: Vec<(i32, i32)> = a.iter().cloned().zip(b.iter().cloned()).collect();
            match guard(|| SimdOperations::parallel_compare_i32(&pairs)) {
                Err(msg) => cx.ev(json!({"op": "panic", "in": "compare", "kind": panic_kind(&msg), "msg": msg, "case": label, "len": a.len()})),
                Ok(r) => cx.ev(json!({"op": "compare", "case": label, "a": a, "b": b, "ok": true, "out": ord_json(&r)})),
            }
        }
    }
    if cx.subject("simd:find_multiple_mins", json!({"elem": "i32"})) {
        let inputs = kernel_inputs(cx, "mmin");
        if cx.begin(json!({"op": "crash", "in": "argmin", "case": "all", "len": inputs.len()})) {
            let arrays: Vec<&[i32]> = inputs.iter().map(|(_, a, _)| a.as_slice()).collect();
            match guard(|| SimdOperations::find_multiple_mins(&arrays)) {
                Err(msg) => cx.ev(json!({"op": "panic", "in": "argmin", "kind": panic_kind(&msg), "msg": msg, "case": "all", "len": inputs.len()})),
                Ok(rs) => {
                    for ((label, a, _), r) in inputs.iter().zip(rs.into_iter()) {
                        cx.ev(json!({"op": "argmin", "case": label, "a": a, "r": match r { None => json!([]), Some((i, v)) => json!([[i, v]]) }}));
                    }
                }
            }
        }
    }
    if cx.subject("simd:merge_multiple_sorted", json!({"elem": "i32"})) {
        let mut inputs = merge_inputs::<i32>(cx, 20, false);
        inputs.push(("big5".into(), big_runs::<i32>(cx, "big5", 5, 10_000, "full")));
        for (label, runs) in inputs {
            merge_runs_case::<i32>(cx, &label, runs, false, &mut |rs| Ok(SimdOperations::merge_multiple_sorted(rs)));
        }
    }
}

// ------------------------------------------------------------------ family: EnhancedLoserTree

fn lt_cfg(secure: bool, stable: bool, cache: bool, simd: bool, cap: usize) -> LoserTreeConfig {
    LoserTreeConfig { initial_capacity: cap, use_secure_memory: secure, stable_sort: stable, cache_optimized: cache, use_simd: simd, ..LoserTreeConfig::default() }
}

fn lt_merge<T: Key>(cfg: &LoserTreeConfig, entry: &str, rs: Vec<Vec<T>>) -> Result<Vec<T>, String> {
    let mut tree = EnhancedLoserTree::<T>::new(cfg.clone());
    for r in rs {
        tree.add_way(r.into_iter()).map_err(err_str)?;
    }
    match entry {
        "merge_to_vec" => tree.merge_to_vec().map_err(err_str),
        "merge_all" => {
            let mut out: Vec<T> = Vec::new();
            tree.merge_all(&mut out).map_err(err_str)?;
            Ok(out)
        }
        "pop" => {
            tree.initialize().map_err(err_str)?;
            let mut out = vec![];
            while !tree.is_empty() {
                if let Some(x) = tree.pop().map_err(err_str)? {
                    out.push(x);
                }
            }
            Ok(out)
        }
        _ => {
            // initialize, then consume the tree as an Iterator
            tree.initialize().map_err(err_str)?;
            Ok(tree.by_ref().collect())
        }
    }
}

fn lt_run<T: Key>(cx: &mut Cx, name: &str, elem: &str, entry: &'static str, cfg: LoserTreeConfig, si: usize) {
    let c = json!({"elem": elem, "entry": entry, "secure": cfg.use_secure_memory, "stable": cfg.stable_sort,
        "cache": cfg.cache_optimized, "simd": cfg.use_simd, "cap": cfg.initial_capacity});
    if !cx.subject(name, c) {
        return;
    }
    let mut inputs = merge_inputs::<T>(cx, si, false);
    inputs.push(("big3".into(), big_runs::<T>(cx, "lt3", 3, 8_000, T::domains()[si % T::domains().len()])));
    for (label, runs) in inputs {
        merge_runs_case::<T>(cx, &label, runs, false, &mut |rs| lt_merge::<T>(&cfg, entry, rs));
    }
}

/// loser tree driven by hand: initialize, then peek() before every pop(), and once more at the end
fn lt_peekpop<T: Key>(cx: &mut Cx, name: &str, elem: &str, cfg: LoserTreeConfig, si: usize) {
    let c = json!({"elem": elem, "entry": "peek+pop", "secure": cfg.use_secure_memory, "stable": cfg.stable_sort,
        "cache": cfg.cache_optimized, "simd": cfg.use_simd, "cap": cfg.initial_capacity});
    if !cx.subject(name, c) {
        return;
    }
    for (label, runs) in merge_inputs::<T>(cx, si, false) {
        let total: usize = runs.iter().map(|r| r.len()).sum();
        let refs: Vec<&[T]> = runs.iter().map(|r| r.as_slice()).collect();
        let w = any_wide(&refs);
        let what = json!({"op": "crash", "in": "peekpop", "kt": T::kt(w), "len": total, "ways": runs.len(), "case": label});
        if !cx.begin(what) {
            continue;
        }
        let arg = runs.clone();
        let cfgc = cfg.clone();
        let r = guard(move || -> Result<(Vec<Option<T>>, Option<T>, Vec<T>), String> {
            let mut tree = EnhancedLoserTree::<T>::new(cfgc);
            for r in arg {
                tree.add_way(r.into_iter()).map_err(err_str)?;
            }
            tree.initialize().map_err(err_str)?;
            let (mut peeks, mut out) = (vec![], vec![]);
            while !tree.is_empty() {
                let pk = tree.peek().cloned();
                if let Some(x) = tree.pop().map_err(err_str)? {
                    peeks.push(pk);
                    out.push(x);
                }
            }
            let last = tree.peek().cloned();
            Ok((peeks, last, out))
        });
        match r {
            Err(msg) => cx.ev(json!({"op": "panic", "in": "peekpop", "kind": panic_kind(&msg), "msg": msg, "kt": T::kt(w), "len": total,
                "ways": runs.len(), "case": label})),
            Ok(r) => {
                let ok = r.is_ok();
                let (peeks, last, out) = r.unwrap_or((vec![], None, vec![]));
                let o = |x: &Option<T>| match x {
                    None => json!([]),
                    Some(v) => json!([v.enc(w)]),
                };
                cx.ev(json!({"op": "peekpop", "kt": T::kt(w), "ord": "asc", "ok": ok, "ways": runs.len(), "case": label,
                    "runs": runs_json(&runs, w), "peeks": Value::Array(peeks.iter().map(o).collect()), "last_peek": o(&last),
                    "out": seq_json(&out, w)}));
            }
        }
    }
}

fn fam_lt(cx: &mut Cx) {
    lt_peekpop::<i32>(cx, "lt:plain/peekpop/i32", "i32", lt_cfg(false, true, true, true, 64), 20);
    lt_peekpop::<u64>(cx, "lt:default/peekpop/u64", "u64", LoserTreeConfig::default(), 21);
    lt_peekpop::<String>(cx, "lt:unstable/peekpop/string", "string", lt_cfg(false, false, false, false, 3), 22);
    lt_run::<u64>(cx, "lt:default/merge_to_vec/u64", "u64", "merge_to_vec", LoserTreeConfig::default(), 1);
    lt_run::<i32>(cx, "lt:plain/merge_all/i32", "i32", "merge_all", lt_cfg(false, true, true, true, 64), 2);
    lt_run::<u64>(cx, "lt:unstable/pop/u64", "u64", "pop", lt_cfg(false, false, true, true, 0), 3);
    lt_run::<Vec<u8>>(cx, "lt:nocache_nosimd/iter/bytes", "bytes", "iter", lt_cfg(false, true, false, false, 1), 4);
    lt_run::<u32>(cx, "lt:plain/merge_to_vec/u32", "u32", "merge_to_vec", lt_cfg(false, true, true, false, 4), 5);
    lt_run::<String>(cx, "lt:plain/pop/string", "string", "pop", lt_cfg(false, true, true, true, 64), 8);
    lt_run::<(u64, u64)>(cx, "lt:plain/iter/pair_u64", "pair_u64", "iter", lt_cfg(false, true, true, true, 64), 9);
    lt_run::<i64>(cx, "lt:plain/merge_all/i64", "i64", "merge_all", lt_cfg(false, true, true, true, 2), 10);
    lt_run::<u128>(cx, "lt:plain/pop/u128", "u128", "pop", lt_cfg(false, false, false, true, 64), 11);
    lt_run::<u8>(cx, "lt:plain/merge_to_vec/u8", "u8", "merge_to_vec", lt_cfg(false, true, true, true, 64), 12);
    // a caller-supplied (reversed) comparator
    if cx.subject("lt:desc/merge_to_vec/u64", json!({"elem": "u64", "entry": "merge_to_vec", "secure": false, "stable": true, "cache": true, "simd": true, "cap": 64, "cmp": "reversed"})) {
        for (label, runs) in merge_inputs::<u64>(cx, 6, false) {
            merge_runs_case::<u64>(cx, &label, runs, true, &mut |rs| {
                let mut tree = EnhancedLoserTree::with_comparator(lt_cfg(false, true, true, true, 64), |a: &u64, b: &u64| b.cmp(a));
                for r in rs {
                    tree.add_way(r.into_iter()).map_err(err_str)?;
                }
                tree.merge_to_vec().map_err(err_str)
            });
        }
    }
    // key-value elements merged by key only, stable_sort promised: equal keys by way, then position
    for stable in [true, false] {
        let name = format!("lt:kv/{}", if stable { "stable" } else { "unstable" });
        if !cx.subject(&name, json!({"elem": "kv_i32", "entry": "merge_to_vec", "secure": false, "stable": stable, "cache": true, "simd": true, "cap": 64})) {
            continue;
        }
        for (label, runs) in merge_inputs::<i32>(cx, 7, false) {
            let mut tag = 0u32;
            let pruns: Vec<Vec<(i32, u32)>> = runs
                .iter()
                .map(|r| {
                    r.iter()
                        .map(|k| {
                            tag += 1;
                            (*k, tag)
                        })
                        .collect()
                })
                .collect();
            let total: usize = runs.iter().map(|r| r.len()).sum();
            let what = json!({"op": "crash", "in": "merge_kv", "kt": "int", "len": total, "ways": runs.len(), "case": label});
            if !cx.begin(what) {
                continue;
            }
            let arg = pruns.clone();
            let r = guard(|| -> Result<Vec<(i32, u32)>, String> {
                let mut tree = EnhancedLoserTree::with_comparator(lt_cfg(false, stable, true, true, 64), |a: &(i32, u32), b: &(i32, u32)| a.0.cmp(&b.0));
                for r in arg {
                    tree.add_way(r.into_iter()).map_err(err_str)?;
                }
                tree.merge_to_vec().map_err(err_str)
            });
            let pj = |v: &[(i32, u32)]| Value::Array(v.iter().map(|(k, t)| json!([k, t])).collect());
            match r {
                Err(msg) => cx.ev(json!({"op": "panic", "in": "merge_kv", "kind": panic_kind(&msg), "msg": msg, "kt": "int", "len": total, "ways": runs.len(), "case": label})),
                Ok(r) => {
                    let ok = r.is_ok();
                    let out = r.unwrap_or_default();
                    cx.ev(json!({"op": "merge_kv", "kt": "int", "ord": "asc", "ok": ok, "stable": stable, "ways": runs.len(), "case": label,
                        "runs": Value::Array(pruns.iter().map(|r| pj(r)).collect()), "out": pj(&out)}));
                }
            }
        }
    }
}

// ------------------------------------------------------------------ family: set_ops.rs

fn setops_run<T: Key>(cx: &mut Cx, elem: &str) {
    let cmp = |x: &T, y: &T| x.cmp(y);
    type F<T> = Box<dyn Fn(&[T], &[T]) -> Vec<T>>;
    // (function = subject, operation it implements)
    let mut fns: Vec<(String, &'static str, F<T>)> = vec![
        ("multiset_intersection".into(), "ms_inter", Box::new(move |a, b| so::multiset_intersection(a, b, cmp))),
        ("multiset_1small_intersection".into(), "ms_inter", Box::new(move |a, b| so::multiset_1small_intersection(a, b, cmp))),
        ("multiset_intersection2".into(), "ms_inter2", Box::new(move |a, b| so::multiset_intersection2(a, b, cmp))),
        ("multiset_1small_intersection2".into(), "ms_inter2", Box::new(move |a, b| so::multiset_1small_intersection2(a, b, cmp))),
        ("multiset_union".into(), "ms_union", Box::new(move |a, b| so::multiset_union(a, b, cmp))),
        ("multiset_difference".into(), "ms_diff", Box::new(move |a, b| so::multiset_difference(a, b, cmp))),
        ("set_intersection".into(), "set_inter", Box::new(move |a, b| so::set_intersection(a, b, cmp))),
        ("set_union".into(), "set_union", Box::new(move |a, b| so::set_union(a, b, cmp))),
        ("set_difference".into(), "set_diff", Box::new(move |a, b| so::set_difference(a, b, cmp))),
    ];
    for th in [0usize, 1, 32] {
        fns.push((format!("multiset_fast_intersection/th{th}"), "ms_inter", Box::new(move |a, b| so::multiset_fast_intersection(a, b, cmp, th))));
        fns.push((format!("multiset_fast_intersection2/th{th}"), "ms_inter2", Box::new(move |a, b| so::multiset_fast_intersection2(a, b, cmp, th))));
    }
    let inputs = setop_inputs::<T>(cx);
    for (fname, op, f) in fns {
        if !cx.subject(&format!("setops:{fname}/{elem}"), json!({"elem": elem, "operation": op})) {
            continue;
        }
        for (label, a, b) in inputs.iter() {
            setop_case::<T>(cx, op, label, a, b, &mut |x, y| f(x, y));
        }
    }
    // set_unique / set_unique_default: in place, returns the new length
    for which in ["set_unique", "set_unique_default"] {
        if !cx.subject(&format!("setops:{which}/{elem}"), json!({"elem": elem, "operation": "unique"})) {
            continue;
        }
        for (label, a, _b) in inputs.iter() {
            let w = any_wide(&[a]);
            let what = json!({"op": "crash", "in": "unique", "kt": T::kt(w), "case": label, "a": seq_json(a, w)});
            if !cx.begin(what) {
                continue;
            }
            let mut data = a.clone();
            let r = guard(|| if which == "set_unique" { so::set_unique(&mut data, |x, y| x == y) } else { so::set_unique_default(&mut data) });
            match r {
                Err(msg) => cx.ev(json!({"op": "panic", "in": "unique", "kind": panic_kind(&msg), "msg": msg, "kt": T::kt(w), "case": label, "a": seq_json(a, w)})),
                Ok(n) => {
                    let keep = n.min(data.len());
                    cx.ev(json!({"op": "unique", "kt": T::kt(w), "case": label, "a": seq_json(a, w), "n": n,
                        "out": seq_json(&data[..keep], w)}));
                }
            }
        }
    }
}

fn fam_setops(cx: &mut Cx) {
    setops_run::<i32>(cx, "i32");
    setops_run::<u64>(cx, "u64");
    setops_run::<Vec<u8>>(cx, "bytes");
    setops_run::<String>(cx, "string");
    setops_run::<(u64, u64)>(cx, "pair_u64");
    setops_run::<u8>(cx, "u8");
}

// ------------------------------------------------------------------ family: SetOperations (k-way)

fn ksets_run(cx: &mut Cx, name: &str, cfg: SetOperationsConfig, many: bool) {
    let c = json!({"elem": "i32", "bit_mask": cfg.use_bit_mask_optimization, "bit_mask_threshold": cfg.bit_mask_threshold});
    if !cx.subject(name, c) {
        return;
    }
    let mut inputs: Vec<(String, bool, Vec<Vec<i32>>)> = vec![];
    for strict in [true, false] {
        for (label, runs) in merge_inputs::<i32>(cx, 11, strict) {
            inputs.push((format!("{}{label}", if strict { "set/" } else { "multi/" }), strict, runs));
        }
        // ways with much in common (non-empty intersections): the low domain
        for k in [2usize, 3, 5] {
            let mut rng = cx.rng(&format!("ksets/{k}/{strict}"));
            let runs: Vec<Vec<i32>> =
                (0..k).map(|_| if strict { gen_strict::<i32>("low", 12, &mut rng) } else { gen_sorted::<i32>("low", 12, &mut rng) }).collect();
            inputs.push((format!("{}common{k}", if strict { "set/" } else { "multi/" }), strict, runs));
        }
    }
    if many {
        // more ways than bits in the mask
        for k in [32usize, 33, 40] {
            let mut rng = cx.rng(&format!("ksets/many/{k}"));
            let mut runs: Vec<Vec<i32>> = (0..k).map(|_| vec![1, 5, 9]).collect();
            runs[0] = vec![5, 9];
            runs[k - 1] = gen_strict::<i32>("low", 6, &mut rng);
            inputs.push((format!("set/many{k}"), true, runs));
        }
    }
    for (label, strict, runs) in inputs {
        for op in ["k_inter", "k_union", "k_filter", "k_freq"] {
            let total: usize = runs.iter().map(|r| r.len()).sum();
            let what = json!({"op": "crash", "in": "ksetop", "name": op, "kt": "int", "len": total, "ways": runs.len(), "case": label});
            if !cx.begin(what) {
                continue;
            }
            let (m, r) = (3i32, 1i32);
            let arg = runs.clone();
            let cfgc = cfg.clone();
            let res = guard(move || -> Result<Value, String> {
                let its: Vec<std::vec::IntoIter<i32>> = arg.into_iter().map(|v| v.into_iter()).collect();
                let mut s = SetOperations::with_config(cfgc);
                match op {
                    "k_inter" => s.intersection(its).map(|v| json!(v)).map_err(err_str),
                    "k_union" => s.union(its).map(|v| json!(v)).map_err(err_str),
                    "k_filter" => s.filter_merge(its, |x| x.rem_euclid(m) == r).map(|v| json!(v)).map_err(err_str),
                    _ => s
                        .count_frequencies(its)
                        .map(|h| Value::Array(h.into_iter().map(|(k, c)| json!([k, c])).collect()))
                        .map_err(err_str),
                }
            });
            match res {
                Err(msg) => cx.ev(json!({"op": "panic", "in": "ksetop", "name": op, "kind": panic_kind(&msg), "msg": msg, "kt": "int", "ways": runs.len(),
                    "case": label, "strict": strict, "runs": json!(runs)})),
                Ok(r2) => {
                    let ok = r2.is_ok();
                    cx.ev(json!({"op": "ksetop", "name": op, "kt": "int", "ok": ok, "ways": runs.len(), "case": label, "strict": strict,
                        "runs": json!(runs), "out": r2.unwrap_or(json!([])), "m": m, "r": r}));
                }
            }
        }
    }
}

fn fam_ksets(cx: &mut Cx) {
    let d = SetOperationsConfig::default();
    ksets_run(cx, "ksets:bitmask", d.clone(), true);
    ksets_run(cx, "ksets:general", SetOperationsConfig { use_bit_mask_optimization: false, ..d.clone() }, true);
    ksets_run(cx, "ksets:thr2", SetOperationsConfig { bit_mask_threshold: 2, ..d.clone() }, false);
    ksets_run(cx, "ksets:thr64", SetOperationsConfig { bit_mask_threshold: 64, ..d.clone() }, true);
}

// ------------------------------------------------------------------ driving

const FAMILIES: &[(&str, fn(&mut Cx))] = &[
    ("radix", fam_radix),
    ("kv", fam_kv),
    ("adv", fam_adv),
    ("co", fam_co),
    ("rss", fam_rss),
    ("mwm", fam_mwm),
    ("mops", fam_mops),
    ("simd", fam_simd),
    ("lt", fam_lt),
    ("setops", fam_setops),
    ("ksets", fam_ksets),
];

fn run_families(cx: &mut Cx, fam: Option<&str>) {
    for (name, f) in FAMILIES {
        if fam.map_or(true, |x| x.split(',').any(|p| p == *name)) {
            f(cx);
        }
    }
}

fn new_cx(a: &Args, stem: &str, from: usize, list_only: bool) -> Cx {
    let mut t = Tracer::new(&a.out, stem);
    // files are validated by one JVM each; a rejected subject costs two more JVM runs over the rest of its
    // file, so families with many configurations get smaller files (shorter chains), the others larger ones
    let small_files = matches!(a.get("fam"), Some("adv") | Some("co") | Some("kv") | Some("rss") | Some("ksets") | Some("radix"));
    t.max_events = a.get_u64("max-events", if small_files { 350 } else { 900 }) as usize;
    Cx {
        a: a.clone(),
        t,
        seed: a.seed,
        thorough: a.thorough(),
        job: 0,
        from,
        marker: a.out.join(format!("marker-{}.json", a.get("fam").unwrap_or("all"))),
        cur_subject: String::new(),
        cur_cfg: Value::Null,
        reset_done: false,
        list_only,
        listed: vec![],
    }
}

fn child(a: &Args) {
    let from = a.get_u64("from", 0) as usize;
    let fam = a.get("fam").map(|s| s.to_string());
    let stem = format!("t-{}-{:06}", fam.clone().unwrap_or("all".into()), from);
    let mut cx = new_cx(a, &stem, from, false);
    run_families(&mut cx, fam.as_deref());
    cx.t.close();
    let _ = std::fs::remove_file(&cx.marker);
}

/// parent: one child per family (restarted after a crash at the job that follows the fatal one)
fn drive(a: &Args) {
    std::fs::create_dir_all(&a.out).unwrap();
    let fams: Vec<&str> = match a.get("fam") {
        Some(f) => f.split(',').collect(),
        None => FAMILIES.iter().map(|(n, _)| *n).collect(),
    };
    let mut crashes = 0usize;
    let mut handles = vec![];
    // families run concurrently (each in its own child); crash reports are collected afterwards
    for fam in fams.iter() {
        let fam = fam.to_string();
        let a = a.clone();
        handles.push(std::thread::spawn(move || -> Vec<Value> {
            let mut from = 0usize;
            let mut reports = vec![];
            let marker = a.out.join(format!("marker-{fam}.json"));
            loop {
                let _ = std::fs::remove_file(&marker);
                let mut args: Vec<String> = vec![
                    "--mode".into(), "child".into(), "--seed".into(), a.seed.to_string(), "--tier".into(), a.tier.clone(),
                    "--out".into(), a.out.display().to_string(), "--fam".into(), fam.clone(), "--from".into(), from.to_string(),
                ];
                if let Some(s) = &a.subject {
                    args.push("--subject".into());
                    args.push(s.clone());
                }
                let secs = if a.thorough() { 1500 } else { 400 };
                let outcome = run_child(&args, secs, 6144, true);
                let (sig, timeout) = match outcome {
                    ChildOutcome::Exit(0) => break,
                    ChildOutcome::Exit(c) => (-(c as i64), false),
                    ChildOutcome::Signal(s) => (s as i64, false),
                    ChildOutcome::Timeout => (0, true),
                };
                let m: Value = std::fs::read(&marker).ok().and_then(|b| serde_json::from_slice(&b).ok()).unwrap_or(Value::Null);
                let job = m.get("job").and_then(|j| j.as_u64()).unwrap_or(0) as usize;
                if job == 0 || job <= from {
                    reports.push(json!({"fatal": format!("child of family {fam} died (sig {sig}) outside a job, from={from}")}));
                    break;
                }
                let mut ev = m.get("crash").cloned().unwrap_or(json!({"op": "crash"}));
                if let Some(o) = ev.as_object_mut() {
                    o.insert("sig".into(), json!(sig));
                    o.insert("timeout".into(), json!(timeout));
                    o.insert("job".into(), json!(job));
                }
                reports.push(json!({"subject": m.get("subject"), "cfg": m.get("cfg"), "ev": ev}));
                from = job;
                if reports.len() > 400 {
                    reports.push(json!({"fatal": format!("family {fam}: more than 400 crashes")}));
                    break;
                }
            }
            reports
        }));
    }
    let mut fatal: Vec<String> = vec![];
    let mut crash_files: BTreeMap<String, Tracer> = BTreeMap::new();
    for h in handles {
        for r in h.join().unwrap_or_default() {
            if let Some(f) = r.get("fatal").and_then(|x| x.as_str()) {
                fatal.push(f.to_string());
                continue;
            }
            crashes += 1;
            let subj = r["subject"].as_str().unwrap_or("?").to_string();
            // one crash file per subject, so that the files are validated in parallel
            let n = crash_files.len();
            let t = crash_files.entry(subj.clone()).or_insert_with(|| {
                let mut t = Tracer::new(&a.out, &format!("crash-{n:03}"));
                t.max_events = 100_000;
                t
            });
            t.reset("SortMerge", &subj, r["cfg"].clone());
            t.ev(r["ev"].clone());
        }
    }
    // a child restarted after a crash starts a new trace file: concatenate the pieces of a family into
    // files of the intended size again (every piece starts with a reset event, so runs stay intact)
    for fam in fams.iter() {
        let small_files = matches!(*fam, "adv" | "co" | "kv" | "rss" | "ksets" | "radix");
        let cap = a.get_u64("max-events", if small_files { 350 } else { 900 }) as usize;
        let mut pieces: Vec<PathBuf> = std::fs::read_dir(&a.out)
            .unwrap()
            .filter_map(|e| e.ok().map(|e| e.path()))
            .filter(|p| p.file_name().and_then(|n| n.to_str()).map_or(false, |n| n.starts_with(&format!("t-{fam}-")) && n.ends_with(".ndjson")))
            .collect();
        pieces.sort();
        let (mut buf, mut lines, mut no) = (String::new(), 0usize, 0usize);
        let flush = |buf: &mut String, lines: &mut usize, no: &mut usize| {
            if *lines > 0 {
                std::fs::write(a.out.join(format!("m-{fam}-{:03}.ndjson", *no)), buf.as_bytes()).unwrap();
                *no += 1;
                buf.clear();
                *lines = 0;
            }
        };
        for p in pieces {
            let txt = std::fs::read_to_string(&p).unwrap_or_default();
            let n = txt.lines().count();
            if lines > 0 && lines + n > cap + cap / 4 {
                flush(&mut buf, &mut lines, &mut no);
            }
            buf.push_str(&txt);
            lines += n;
            let _ = std::fs::remove_file(&p);
        }
        flush(&mut buf, &mut lines, &mut no);
    }
    for (_, mut t) in crash_files {
        t.close();
    }
    summarize(a, crashes, &fatal);
    if !fatal.is_empty() {
        for f in &fatal {
            eprintln!("c11: {f}");
        }
        std::process::exit(3);
    }
}

/// summary.json from the trace files themselves (counting only; nothing is judged here)
fn summarize(a: &Args, crashes: usize, fatal: &[String]) {
    let mut files: Vec<PathBuf> = std::fs::read_dir(&a.out)
        .unwrap()
        .filter_map(|e| e.ok().map(|e| e.path()))
        .filter(|p| p.extension().map_or(false, |x| x == "ndjson"))
        .collect();
    files.sort();
    let mut subjects: BTreeMap<String, Map<String, Value>> = BTreeMap::new();
    let mut distinct: HashSet<u64> = HashSet::new();
    let (mut events, mut runs, mut elems, mut refusals, mut panics, mut max_len) = (0usize, 0usize, 0usize, 0usize, 0usize, 0usize);
    let mut ops: BTreeMap<String, usize> = BTreeMap::new();
    let count = |v: &Value| -> usize {
        match v {
            Value::Array(a) => a.iter().map(|x| if x.as_array().map_or(false, |y| y.first().map_or(false, |z| z.is_array())) { x.as_array().unwrap().len() } else { 1 }).sum(),
            _ => 0,
        }
    };
    for p in &files {
        let mut subj = String::new();
        for e in read_ndjson(p) {
            let op = e["op"].as_str().unwrap_or("").to_string();
            if op == "reset" {
                subj = e["full"].as_str().or(e["subject"].as_str()).unwrap_or("").to_string();
                runs += 1;
                subjects.entry(subj.clone()).or_default();
                continue;
            }
            events += 1;
            *ops.entry(op.clone()).or_default() += 1;
            let s = subjects.entry(subj.clone()).or_default();
            let bump = |s: &mut Map<String, Value>, k: &str| {
                let n = s.get(k).and_then(|x| x.as_u64()).unwrap_or(0);
                s.insert(k.to_string(), json!(n + 1));
            };
            bump(s, "events");
            let n_in = match op.as_str() {
                "sort" | "sort_kv" => e["in"].as_array().map_or(0, |x| x.len()),
                "merge" | "merge_kv" | "ksetop" | "peekpop" => e["runs"].as_array().map_or(0, |r| r.iter().map(|x| x.as_array().map_or(0, |y| y.len())).sum()),
                "setop" => e["a"].as_array().map_or(0, |x| x.len()) + e["b"].as_array().map_or(0, |x| x.len()),
                "unique" | "argmin" => e["a"].as_array().map_or(0, |x| x.len()),
                "compare" => e["a"].as_array().map_or(0, |x| x.len()) + e["b"].as_array().map_or(0, |x| x.len()),
                "sort_big" | "merge_big" => e["len_in"].as_u64().unwrap_or(0) as usize,
                _ => e["len"].as_u64().unwrap_or(0) as usize,
            };
            let _ = count;
            elems += n_in;
            max_len = max_len.max(n_in);
            if e.get("ok").and_then(|x| x.as_bool()) == Some(false) {
                refusals += 1;
                bump(s, "refusals");
            }
            if op == "panic" {
                panics += 1;
                bump(s, "panics");
            }
            if op == "crash" {
                bump(s, "crashes");
            }
            if n_in >= 2 && op != "panic" && op != "crash" && e.get("ok").and_then(|x| x.as_bool()) != Some(false) {
                bump(s, "nontrivial");
                // distinct (subject, input) pairs: fingerprint of the subject and of the logged input
                let mut h: u64 = 0xcbf29ce484222325;
                let mut feed = |b: &[u8]| {
                    for &x in b {
                        h = (h ^ x as u64).wrapping_mul(0x100000001b3);
                    }
                };
                feed(subj.as_bytes());
                feed(op.as_bytes());
                for k in ["in", "runs", "a", "b", "bag_in", "len_in", "name"] {
                    if let Some(v) = e.get(k) {
                        feed(v.to_string().as_bytes());
                    }
                }
                distinct.insert(h);
            }
        }
    }
    let vacuous: Vec<&String> = subjects.iter().filter(|(_, s)| s.get("nontrivial").and_then(|x| x.as_u64()).unwrap_or(0) == 0).map(|(k, _)| k).collect();
    write_summary(
        &a.out,
        &json!({"events": events, "runs": runs, "elements": elems, "refusals": refusals, "panics": panics, "crashes": crashes,
            "max_len": max_len, "ops": ops, "distinct_nontrivial": distinct.len(), "n_subjects": subjects.len(),
            "vacuous_subjects": vacuous, "subjects": subjects, "fatal": fatal, "files": files.len()}),
    );
}

fn main() {
    let a = Args::parse();
    quiet_panics();
    match a.mode.as_str() {
        "drive" => drive(&a),
        "child" => child(&a),
        "subjects" => {
            let mut cx = new_cx(&a, "list", 0, true);
            run_families(&mut cx, a.get("fam"));
            for s in cx.listed {
                println!("{s}");
            }
        }
        m => {
            eprintln!("c11: unknown mode {m}");
            std::process::exit(2)
        }
    }
}
