//! C20 — string views, orderings and iterators agree with byte-wise semantics.
//!
//! Runs the real zipora string functions on enumerated / seeded inputs and logs, per batch, the
//! inputs and EVERYTHING the implementation returned as one NDJSON event (a whole comparison
//! matrix, all words of a text, all lines under all configurations ...).  TLC judges every
//! entry against the TLA+ definitions of spec/Strings.tla, spec/NumericCmp.tla and the cursor
//! contract spec/LexIter.tla (trace specification spec/Trace_Strings.tla).
//!
//! This file contains no reference implementation of any of these functions: it only builds
//! inputs (enumeration, seeded choice, placing copies at different addresses) and projects
//! results (Ordering -> -1/0/1, Option<usize> -> index or -1, u64 -> decimal string, returned
//! sub-slices -> their offsets in the text).
//!
//! modes: drive (default).  --subject a,b selects subjects by name.
use serde_json::{json, Value};
use std::cmp::Ordering;
use std::hash::{Hash, Hasher};
use std::io::Cursor;
use zipora::containers::specialized::{SortableStrVec, ZoSortedStrVec};
use zipora::string::{
    decimal_strcmp, decimal_strcmp_with_sign, find_word_boundaries, is_word_boundary, join, join_bytes_iter,
    join_fast_str, join_iter, join_str, realnum_strcmp, realnum_strcmp_with_sign, sse42_strchr, sse42_strcmp,
    sse42_strstr, to_lowercase_ascii_bmi2, to_uppercase_ascii_bmi2, word_at_position, word_count, words, JoinBuilder,
    LexIteratorBuilder, LexicographicIterator, LineProcessor, LineProcessorConfig, LineSplitter, SortedVecLexIterator,
    StreamingLexIterator, UnicodeProcessor,
};
use zipora::FastStr;
use zv::*;

// ---------------------------------------------------------------- trace file layout

/// Runs of one subject group go to their own trace files (`group`), so that the runs of a subject
/// with a recorded deviation can be re-validated in KF mode without dragging other subjects along.
static NEXT_MAX: std::sync::atomic::AtomicUsize = std::sync::atomic::AtomicUsize::new(3000);
fn group(t: &mut Tracer, events_per_file: usize) {
    t.max_events = 0; // the next reset opens a new file
    NEXT_MAX.store(events_per_file, std::sync::atomic::Ordering::Relaxed);
}
fn rst(t: &mut Tracer, subject: &str, cfg: Value) {
    t.reset("strings", subject, cfg);
    t.max_events = NEXT_MAX.load(std::sync::atomic::Ordering::Relaxed);
}

// ---------------------------------------------------------------- projections

fn ord(o: Ordering) -> i32 {
    o as i32
}
fn oord(o: Option<Ordering>) -> i32 {
    match o {
        None => 2,
        Some(o) => o as i32,
    }
}
fn opos(o: Option<usize>) -> i64 {
    match o {
        None => -1,
        Some(p) => p as i64,
    }
}
fn bj(b: &[u8]) -> Value {
    bytes_json(b)
}
fn pool_json(p: &[Vec<u8>]) -> Value {
    Value::Array(p.iter().map(|s| bj(s)).collect())
}
fn spool_json(p: &[String]) -> Value {
    Value::Array(p.iter().map(|s| bj(s.as_bytes())).collect())
}

/// a copy of `b` placed at byte offset `off` of a fresh allocation (different addresses and
/// alignments for equal contents)
struct Placed {
    buf: Vec<u8>,
    off: usize,
    len: usize,
}
impl Placed {
    fn new(b: &[u8], off: usize) -> Placed {
        let mut buf = vec![0xA5u8; off + b.len() + 40];
        buf[off..off + b.len()].copy_from_slice(b);
        Placed { buf, off, len: b.len() }
    }
    fn bytes(&self) -> &[u8] {
        &self.buf[self.off..self.off + self.len]
    }
    fn fs(&self) -> FastStr<'_> {
        FastStr::new(self.bytes())
    }
}
fn place_all(pool: &[Vec<u8>], k: usize) -> Vec<Placed> {
    pool.iter().enumerate().map(|(i, s)| Placed::new(s, (i * 7 + k * 3 + k) % 34)).collect()
}

// ---------------------------------------------------------------- input families

/// every string over `alpha` of length 0..=maxlen, shortest first
fn exhaustive(alpha: &[&[u8]], maxlen: usize) -> Vec<Vec<u8>> {
    let mut all: Vec<Vec<u8>> = vec![vec![]];
    let mut layer: Vec<Vec<u8>> = vec![vec![]];
    for _ in 0..maxlen {
        let mut next = vec![];
        for s in &layer {
            for a in alpha {
                let mut t = s.clone();
                t.extend_from_slice(a);
                next.push(t);
            }
        }
        all.extend(next.iter().cloned());
        layer = next;
    }
    all
}

fn rep(b: u8, n: usize) -> Vec<u8> {
    vec![b; n]
}
fn cat(parts: &[&[u8]]) -> Vec<u8> {
    parts.concat()
}

/// byte-string families of the quantifier text: bytes >= 0x80, different lengths, common
/// prefixes longer than a SIMD width, duplicates
fn byte_families(rng: &Rng, thorough: bool) -> Vec<(String, Vec<Vec<u8>>)> {
    let mut fams = vec![];
    // signed-compare traps
    let hb: [u8; 7] = [0x00, 0x01, 0x7e, 0x7f, 0x80, 0x81, 0xff];
    let mut high = vec![vec![]];
    for &x in &hb {
        high.push(vec![x]);
        for &y in &[0x00u8, 0x7f, 0x80, 0xff] {
            high.push(vec![x, y]);
        }
    }
    high.push(vec![0x7f, 0x7f, 0x7f]);
    high.push(vec![0x80, 0x80, 0x80]);
    high.push(vec![0xff; 9]);
    high.push(vec![0x7f; 9]);
    high.push(vec![0x80]);
    fams.push(("high".to_string(), high));
    // common prefixes around the SIMD widths; the difference sits right after the prefix
    for &w in &[7usize, 8, 15, 16, 17, 31, 32, 33, 63, 64, 65, 130] {
        let p = rep(b'p', w);
        let mut v = vec![
            p.clone(),
            cat(&[&p, b"a"]),
            cat(&[&p, b"b"]),
            cat(&[&p, &[0x7f]]),
            cat(&[&p, &[0x80]]),
            cat(&[&p, &[0xff]]),
            cat(&[&p, &[0x00]]),
            cat(&[&p, b"a", &p]),
            cat(&[&p, &[0x80], &p]),
            cat(&[&p, &[0x7f], &p]),
            cat(&[&p, &p]),
            cat(&[&p, &p, &[0xff]]),
            cat(&[&p, &p, &[0x01]]),
            p[..w - 1].to_vec(),
            cat(&[&p[..w - 1], &[0xff]]),
            cat(&[&p[..w - 1], &[0x00]]),
            cat(&[&p, b"a"]), // duplicate
            p.clone(),        // duplicate
            vec![],
            b"p".to_vec(),
            b"q".to_vec(),
            cat(&[b"a", &p]),
            cat(&[&[0xff], &p]),
            cat(&[&p, b"ab"]),
            cat(&[&p, b"ba"]),
            cat(&[b"ab", &p, b"ab"]),
            cat(&[b"ba", &p, b"ab", &p]),
            b"ab".to_vec(),
            b"ba".to_vec(),
            b"a".to_vec(),
        ];
        if w >= 16 {
            // a needle that almost matches several times before it matches
            let mut hay = vec![];
            for _ in 0..3 {
                hay.extend_from_slice(&p[..w - 1]);
                hay.push(b'x');
            }
            hay.extend_from_slice(&p);
            hay.push(b'y');
            v.push(hay);
            v.push(cat(&[&p[1..], b"y"]));
        }
        fams.push((format!("prefix{w}"), v));
    }
    // seeded random strings over a small alphabet (many shared prefixes), lengths 0..80
    let nrand = if thorough { 6 } else { 2 };
    for k in 0..nrand {
        let mut r = rng.derive(&format!("rand{k}"));
        let alpha: [u8; 4] = [b'a', b'b', 0x80, 0xff];
        let mut v: Vec<Vec<u8>> = vec![];
        for _ in 0..44 {
            let n = if r.chance(1, 3) { r.below(4) } else { r.below(80) } as usize;
            let mut s: Vec<u8> = (0..n).map(|_| *r.pick(&alpha)).collect();
            if r.chance(1, 4) && !v.is_empty() {
                // extend / copy an earlier string: prefixes and duplicates
                let base: Vec<u8> = r.pick(&v).clone();
                s = if r.chance(1, 2) { base } else { cat(&[&base, &s[..s.len().min(3)]]) };
            }
            v.push(s);
        }
        fams.push((format!("rand{k}"), v));
    }
    fams
}

// ---------------------------------------------------------------- FastStr

fn matrix<F: Fn(usize, usize) -> Value>(n: usize, m: usize, f: F) -> Value {
    Value::Array((0..n).map(|i| Value::Array((0..m).map(|j| f(i, j)).collect())).collect())
}

/// Bookkeeping for the evidence file.  `evals` counts every answer of the implementation that was
/// logged; `seen` holds fingerprints of the distinct NON-TRIVIAL cases (subject + inputs): a pair of
/// different strings for a binary operation, a non-empty input for a unary one, a scan of a
/// non-empty list ...  Fingerprints are bookkeeping only - nothing is judged here.
struct Stats {
    evals: u64,
    events: u64,
    seen: std::collections::HashSet<u64>,
    subjects: serde_json::Map<String, Value>,
}
fn fp(subject: &str, parts: &[&[u8]]) -> u64 {
    let mut h: u64 = 0xcbf29ce484222325;
    let mut eat = |b: &[u8]| {
        for &x in b {
            h = (h ^ x as u64).wrapping_mul(0x100000001b3);
        }
        h = (h ^ 0x1ff).wrapping_mul(0x100000001b3);
    };
    eat(subject.as_bytes());
    for p in parts {
        eat(p);
    }
    h
}
impl Stats {
    fn entry(&mut self, subject: &str) -> &mut Value {
        self.subjects.entry(subject.to_string()).or_insert(json!({"evals":0u64,"cases":0u64,"events":0u64}))
    }
    /// one logged event carrying `evals` answers
    fn add(&mut self, subject: &str, evals: u64) {
        self.evals += evals;
        self.events += 1;
        let e = self.entry(subject);
        e["evals"] = json!(e["evals"].as_u64().unwrap() + evals);
        e["events"] = json!(e["events"].as_u64().unwrap() + 1);
    }
    /// one non-trivial case; counted once per subject however often it recurs
    fn case(&mut self, subject: &str, parts: &[&[u8]]) {
        if self.seen.insert(fp(subject, parts)) {
            let e = self.entry(subject);
            e["cases"] = json!(e["cases"].as_u64().unwrap() + 1);
        }
    }
    /// the pairs of different strings of a matrix
    fn pairs(&mut self, subject: &str, a: &[Vec<u8>], b: &[Vec<u8>]) {
        let mut n = 0u64;
        for x in a {
            for y in b {
                if x != y && self.seen.insert(fp(subject, &[x, y])) {
                    n += 1;
                }
            }
        }
        let e = self.entry(subject);
        e["cases"] = json!(e["cases"].as_u64().unwrap() + n);
    }
    fn singles(&mut self, subject: &str, a: &[Vec<u8>]) {
        for x in a {
            if !x.is_empty() {
                self.case(subject, &[x]);
            }
        }
    }
}

fn panic_ev(t: &mut Tracer, inop: &str, msg: String) {
    t.ev(json!({"op":"panic","in":inop,"msg":msg}));
}

fn drive_faststr(t: &mut Tracer, a: &Args, st: &mut Stats, fam: &str, pool: &[Vec<u8>]) {
    let pa = place_all(pool, 0);
    let pb = place_all(pool, 1);
    let n = pool.len();
    let pj = pool_json(pool);
    let cells = (n * n) as u64;
    // ---- ordering
    if a.wants("faststr:cmp") {
        rst(t, "faststr:cmp", json!({"fam":"faststr","variant":fam}));
        for via in ["cmp", "partial_cmp", "compare"] {
            let r = guard(|| {
                matrix(n, n, |i, j| {
                    let (x, y) = (pa[i].fs(), pb[j].fs());
                    json!(match via {
                        "cmp" => ord(x.cmp(&y)),
                        "partial_cmp" => oord(x.partial_cmp(&y)),
                        _ => ord(x.compare(y)),
                    })
                })
            });
            match r {
                Ok(m) => t.ev(json!({"op":"cmp_matrix","via":via,"a":pj,"b":pj,"m":m,"sq":n <= 64})),
                Err(e) => panic_ev(t, "cmp_matrix", e),
            }
            st.add("faststr:cmp", cells);
        }
        // the comparison operators derived from PartialOrd
        let m = matrix(n, n, |i, j| {
            let (x, y) = (pa[i].fs(), pb[j].fs());
            json!(if x < y {
                -1
            } else if x > y {
                1
            } else {
                0
            })
        });
        t.ev(json!({"op":"cmp_matrix","via":"lt_gt","a":pj,"b":pj,"m":m,"sq":n <= 64}));
        st.add("faststr:cmp", cells);
        st.pairs("faststr:cmp", pool, pool);
    }
    // ---- equality
    if a.wants("faststr:eq") {
        rst(t, "faststr:eq", json!({"fam":"faststr","variant":fam}));
        let m = matrix(n, n, |i, j| json!(pa[i].fs() == pb[j].fs()));
        t.ev(json!({"op":"eq_matrix","via":"eq","a":pj,"b":pj,"m":m}));
        let m = matrix(n, n, |i, j| json!(pa[i].fs() == *pb[j].bytes()));
        t.ev(json!({"op":"eq_matrix","via":"eq_bytes","a":pj,"b":pj,"m":m}));
        let m = matrix(n, n, |i, j| json!(pa[i].fs() != pb[j].fs()));
        t.ev(json!({"op":"eq_matrix","via":"ne","a":pj,"b":pj,"m":m,"neg":true}));
        st.add("faststr:eq", 3 * cells);
        st.pairs("faststr:eq", pool, pool);
    }
    // ---- hashing: several copies of every string at different addresses / alignments
    for (subject, via) in [("faststr:hash_fast", "hash_fast"), ("faststr:hash_std", "hash_std")] {
        if !a.wants(subject) {
            continue;
        }
        rst(t, subject, json!({"fam":"faststr","variant":fam}));
        let offs = [0usize, 1, 2, 3, 5, 8, 13, 16, 31, 32, 33];
        let h: Vec<Value> = pool
            .iter()
            .map(|s| {
                Value::Array(
                    offs.iter()
                        .map(|&o| {
                            let p = Placed::new(s, o);
                            let v = if via == "hash_fast" {
                                p.fs().hash_fast()
                            } else {
                                let mut hs = std::collections::hash_map::DefaultHasher::new();
                                p.fs().hash(&mut hs);
                                hs.finish()
                            };
                            json!(v.to_string())
                        })
                        .collect(),
                )
            })
            .collect();
        t.ev(json!({"op":"hash","via":via,"pool":pj,"h":h}));
        st.add(subject, (n * offs.len()) as u64);
        st.singles(subject, pool);
    }
    // ---- prefix / suffix / find / common prefix
    let preds: [(&str, &str); 4] = [
        ("faststr:starts_with", "starts_matrix"),
        ("faststr:ends_with", "ends_matrix"),
        ("faststr:find", "find_matrix"),
        ("faststr:common_prefix_len", "cpl_matrix"),
    ];
    for (subject, op) in preds {
        if !a.wants(subject) {
            continue;
        }
        rst(t, subject, json!({"fam":"faststr","variant":fam}));
        let r = guard(|| {
            matrix(n, n, |i, j| {
                let (x, y) = (pa[i].fs(), pb[j].fs());
                match op {
                    "starts_matrix" => json!(x.starts_with(y)),
                    "ends_matrix" => json!(x.ends_with(y)),
                    "find_matrix" => json!(opos(x.find(y))),
                    _ => json!(x.common_prefix_len(y)),
                }
            })
        });
        match r {
            Ok(m) => t.ev(json!({"op":op,"a":pj,"b":pj,"m":m})),
            Err(e) => panic_ev(t, op, e),
        }
        st.add(subject, cells);
        st.pairs(subject, pool, pool);
    }
    if a.wants("faststr:find_byte") {
        rst(t, "faststr:find_byte", json!({"fam":"faststr","variant":fam}));
        let bytes: Vec<u8> = vec![0x00, b'a', b'b', b'p', b'x', b'y', 0x7f, 0x80, 0xff];
        for via in ["find_byte", "find_byte_optimized"] {
            let m = matrix(n, bytes.len(), |i, k| {
                let x = pa[i].fs();
                json!(opos(if via == "find_byte" { x.find_byte(bytes[k]) } else { x.find_byte_optimized(bytes[k]) }))
            });
            t.ev(json!({"op":"find_byte","via":via,"a":pj,"bytes":bytes,"m":m}));
            st.add("faststr:find_byte", (n * bytes.len()) as u64);
            st.singles("faststr:find_byte", pool);
        }
    }
    // ---- slicing
    if a.wants("faststr:slice") {
        rst(t, "faststr:slice", json!({"fam":"faststr","variant":fam}));
        for (i, s) in pool.iter().enumerate() {
            if s.len() > 70 && i % 3 != 0 {
                continue;
            }
            let x = pa[i].fs();
            let len = s.len();
            let mut cases = vec![];
            let mut pts: Vec<usize> = (0..=len.min(6)).collect();
            for d in [len / 2, len.saturating_sub(1), len] {
                if !pts.contains(&d) {
                    pts.push(d);
                }
            }
            let case = |k: &str, aa: usize, nn: usize, ok: bool, r: &[u8], ri: i64| json!({"k":k,"a":aa,"n":nn,"ok":ok,"r":bj(r),"ri":ri});
            for &st_ in &pts {
                for &nn in &[0usize, 1, 2, len / 2, len, len + 1, len + 9] {
                    let r = x.substring(st_, nn);
                    cases.push(case("substring", st_, nn, true, r.as_bytes(), (r.as_ptr() as usize - x.as_ptr() as usize) as i64));
                }
                let r = x.substring(st_, usize::MAX);
                cases.push(case("substring_max", st_, 0, true, r.as_bytes(), 0));
                let r = x.substring_from(st_);
                cases.push(case("substring_from", st_, 0, true, r.as_bytes(), 0));
                let r = x.prefix(st_);
                cases.push(case("prefix", st_, 0, true, r.as_bytes(), 0));
                let r = x.suffix(st_);
                cases.push(case("suffix", st_, 0, true, r.as_bytes(), 0));
                cases.push(case("get_byte", st_, 0, true, &[], x.get_byte(st_).map(|b| b as i64).unwrap_or(-1)));
            }
            for over in [len + 1, len + 7] {
                let r = x.substring_from(over);
                cases.push(case("substring_from", over, 0, true, r.as_bytes(), 0));
                let r = x.prefix(over);
                cases.push(case("prefix", over, 0, true, r.as_bytes(), 0));
                let r = x.suffix(over);
                cases.push(case("suffix", over, 0, true, r.as_bytes(), 0));
                cases.push(case("get_byte", over, 0, true, &[], x.get_byte(over).map(|b| b as i64).unwrap_or(-1)));
                // start beyond the end: the underlying slice operation panics; both a panic and an
                // empty view are accepted by the contract
                match guard(|| x.substring(over, 1).as_bytes().to_vec()) {
                    Ok(r) => cases.push(case("substring_oob", over, 1, true, &r, 0)),
                    Err(_) => cases.push(case("substring_oob", over, 1, false, &[], 0)),
                }
            }
            let nc = cases.len() as u64;
            t.ev(json!({"op":"slice","s":bj(s),"cases":cases}));
            st.add("faststr:slice", nc);
            st.singles("faststr:slice", std::slice::from_ref(s));
        }
    }
}

fn drive_simd(t: &mut Tracer, a: &Args, st: &mut Stats, fam: &str, pool: &[Vec<u8>], strcmp_only: bool) {
    let pa = place_all(pool, 2);
    let pb = place_all(pool, 3);
    let n = pool.len();
    let pj = pool_json(pool);
    let cells = (n * n) as u64;
    if strcmp_only && a.wants("simd:sse42_strcmp") {
        rst(t, "simd:sse42_strcmp", json!({"fam":"simd","variant":fam}));
        match guard(|| matrix(n, n, |i, j| json!(ord(sse42_strcmp(pa[i].bytes(), pb[j].bytes()))))) {
            Ok(m) => t.ev(json!({"op":"cmp_matrix","via":"sse42_strcmp","a":pj,"b":pj,"m":m,"sq":n <= 64})),
            Err(e) => panic_ev(t, "cmp_matrix", e),
        }
        st.add("simd:sse42_strcmp", cells);
        st.pairs("simd:sse42_strcmp", pool, pool);
    }
    if strcmp_only {
        return;
    }
    // strstr / strchr document no answer for an empty haystack or needle: non-empty inputs only
    let ne: Vec<usize> = (0..n).filter(|&i| !pool[i].is_empty()).collect();
    let nej = Value::Array(ne.iter().map(|&i| bj(&pool[i])).collect());
    if a.wants("simd:sse42_strstr") {
        rst(t, "simd:sse42_strstr", json!({"fam":"simd","variant":fam}));
        match guard(|| matrix(ne.len(), ne.len(), |i, j| json!(opos(sse42_strstr(pa[ne[i]].bytes(), pb[ne[j]].bytes()))))) {
            Ok(m) => t.ev(json!({"op":"find_matrix","via":"sse42_strstr","a":nej,"b":nej,"m":m})),
            Err(e) => panic_ev(t, "find_matrix", e),
        }
        st.add("simd:sse42_strstr", (ne.len() * ne.len()) as u64);
        st.pairs("simd:sse42_strstr", pool, pool);
    }
    if a.wants("simd:sse42_strchr") {
        rst(t, "simd:sse42_strchr", json!({"fam":"simd","variant":fam}));
        let bytes: Vec<u8> = vec![0x00, b'a', b'b', b'p', b'x', b'y', 0x7f, 0x80, 0xff];
        match guard(|| matrix(ne.len(), bytes.len(), |i, k| json!(opos(sse42_strchr(pa[ne[i]].bytes(), bytes[k]))))) {
            Ok(m) => t.ev(json!({"op":"find_byte","via":"sse42_strchr","a":nej,"bytes":bytes,"m":m})),
            Err(e) => panic_ev(t, "find_byte", e),
        }
        st.add("simd:sse42_strchr", (ne.len() * bytes.len()) as u64);
        st.singles("simd:sse42_strchr", pool);
    }
}

// ---------------------------------------------------------------- numeric comparison

fn numeric_pools(rng: &Rng, thorough: bool) -> Vec<(String, Vec<String>)> {
    let mut v = vec![];
    let forms: Vec<&str> = vec![
        "0", "-0", "+0", "00", "000", "-00", "0.0", "-0.0", "+0.0", ".0", "0.", "-.0", "00.00", "1", "01", "001", "+1", "+01", "-1", "-01",
        "1.0", "1.", "1.00", "01.0", "+1.0", "-1.0", "-1.", ".5", "0.5", "0.50", "00.5", "+.5", "-.5", "-0.5", "-0.50", "10", "9.99",
        "9", "9.9", "09.990", "10.0", "010", "100", "99", "-10", "-9.99", "-9", "-100", "1.5", "1.49", "1.50", "2", "12", "1.2", "12.0",
        "0.12", ".12", "0.120", "0.012",
    ];
    v.push(("forms".to_string(), forms.iter().map(|s| s.to_string()).collect()));
    let invalid: Vec<&str> = vec![
        "", "+", "-", ".", "+.", "-.", "abc", "1a", "a1", "1.2.3", "..", "1..", "--1", "++1", "+-1", "-+1", "1-", "1+", " 1", "1 ", "1 2",
        "1e5", "1,5", "0x10", "１", "1\u{0}", "-", "1", "0", "-1", "1.5", "+2", "٣", "1.٣", "NaN", "inf", "-inf", "1_000",
    ];
    v.push(("invalid".to_string(), invalid.iter().map(|s| s.to_string()).collect()));
    // every string over {-,0,1,9,.} up to length 3 (4 in thorough): rows are chunked by the caller
    let al: [&[u8]; 5] = [b"-", b"0", b"1", b"9", b"."];
    let ex = exhaustive(&al, if thorough { 4 } else { 3 });
    v.push(("exh".to_string(), ex.into_iter().map(|b| String::from_utf8(b).unwrap()).collect()));
    // long digit strings beyond any machine integer / float: equal up to the last digit,
    // leading zeros, fractions of different lengths
    for k in 0..(if thorough { 6 } else { 2 }) {
        let mut r = rng.derive(&format!("num{k}"));
        let mut p: Vec<String> = vec![];
        let base: String = (0..(20 + r.below(25))).map(|_| (b'0' + r.below(10) as u8) as char).collect();
        for _ in 0..40 {
            let mut s = String::new();
            match r.below(4) {
                0 => s.push('-'),
                1 => s.push('+'),
                _ => {}
            }
            for _ in 0..r.below(4) {
                s.push('0');
            }
            let cut = if r.chance(1, 2) { base.len() } else { 1 + r.below(base.len() as u64) as usize };
            let mut digits: Vec<u8> = base.as_bytes()[..cut].to_vec();
            if r.chance(1, 3) {
                let i = r.below(digits.len() as u64) as usize;
                digits[i] = b'0' + r.below(10) as u8;
            }
            s.push_str(std::str::from_utf8(&digits).unwrap());
            if r.chance(1, 2) {
                s.push('.');
                for _ in 0..r.below(6) {
                    s.push((b'0' + r.below(10) as u8) as char);
                }
                for _ in 0..r.below(3) {
                    s.push('0');
                }
            }
            p.push(s);
        }
        v.push((format!("long{k}"), p));
    }
    v
}

fn drive_numeric(t: &mut Tracer, a: &Args, st: &mut Stats, rng: &Rng) {
    let mut pools = numeric_pools(rng, a.thorough());
    pools.extend(numeric_boundary_pools(a.thorough()));
    for (subject, kind) in [("numcmp:decimal_strcmp", "decimal"), ("numcmp:realnum_strcmp", "real")] {
        if !a.wants(subject) {
            continue;
        }
        group(t, 16);
        for (fam, pool) in &pools {
            let pj = spool_json(pool);
            let n = pool.len();
            let chunk = 64;
            rst(t, subject, json!({"fam":"numcmp","variant":fam}));
            let f = |x: &str, y: &str| if kind == "decimal" { decimal_strcmp(x, y) } else { realnum_strcmp(x, y) };
            if n <= chunk {
                match guard(|| matrix(n, n, |i, j| json!(oord(f(&pool[i], &pool[j]))))) {
                    Ok(m) => t.ev(json!({"op":"numcmp","kind":kind,"a":pj,"b":pj,"m":m,"sq":n <= 64})),
                    Err(e) => panic_ev(t, "numcmp", e),
                }
                st.add(subject, (n * n) as u64);
                let pb: Vec<Vec<u8>> = pool.iter().map(|x| x.as_bytes().to_vec()).collect();
                st.pairs(subject, &pb, &pb);
            } else {
                // row blocks against the whole pool
                let mut lo = 0;
                while lo < n {
                    let hi = (lo + chunk).min(n);
                    let rows: Vec<String> = pool[lo..hi].to_vec();
                    match guard(|| matrix(hi - lo, n, |i, j| json!(oord(f(&rows[i], &pool[j]))))) {
                        Ok(m) => t.ev(json!({"op":"numcmp","kind":kind,"a":spool_json(&rows),"b":pj,"m":m,"sq":false})),
                        Err(e) => panic_ev(t, "numcmp", e),
                    }
                    st.add(subject, ((hi - lo) * n) as u64);
                    let ra: Vec<Vec<u8>> = rows.iter().map(|x| x.as_bytes().to_vec()).collect();
                    let pb: Vec<Vec<u8>> = pool.iter().map(|x| x.as_bytes().to_vec()).collect();
                    st.pairs(subject, &ra, &pb);
                    lo = hi;
                    if lo < n {
                        rst(t, subject, json!({"fam":"numcmp","variant":fam}));
                    }
                }
            }
        }
    }
    // the *_with_sign entry points: bodies without sign, the sign as a flag
    let dec_bodies = ["0", "00", "1", "01", "001", "9", "10", "010", "99", "100", "12345678901234567890123", "12345678901234567890124", "012345678901234567890123"];
    let real_bodies = [
        "0", "0.0", ".0", "0.", "00.00", "1", "1.", "1.0", "01.00", ".5", "0.5", "0.50", "00.5", "9.99", "10", "9", "9.9", "1.5", "1.49", "12", "1.2", "0.12",
        ".12", "123456789012345678901.5", "123456789012345678901.50", "123456789012345678901.49",
    ];
    for (subject, kind, bodies) in
        [("numcmp:decimal_with_sign", "decimal", &dec_bodies[..]), ("numcmp:realnum_with_sign", "real", &real_bodies[..])]
    {
        if !a.wants(subject) {
            continue;
        }
        rst(t, subject, json!({"fam":"numcmp","variant":"with_sign"}));
        let mut pool: Vec<(String, bool)> = vec![];
        for b in bodies {
            pool.push((b.to_string(), false));
            pool.push((b.to_string(), true));
        }
        // magnitudes around 2^63, 2^64, 10^19, 10^20 (the last values a machine word holds), also with leading zeros
        for v in [pow2(63), pow2(64), pow10(19), pow10(20)] {
            for x in around(&v) {
                pool.push((x.clone(), false));
                pool.push((if kind == "real" { format!("00{x}.50") } else { format!("00{x}") }, true));
            }
        }
        let pj = Value::Array(pool.iter().map(|(b, neg)| json!({"b":bj(b.as_bytes()),"neg":neg})).collect());
        let n = pool.len();
        let r = guard(|| {
            matrix(n, n, |i, j| {
                let (x, xn) = (&pool[i].0, pool[i].1);
                let (y, yn) = (&pool[j].0, pool[j].1);
                json!(ord(if kind == "decimal" { decimal_strcmp_with_sign(x, xn, y, yn) } else { realnum_strcmp_with_sign(x, xn, y, yn) }))
            })
        });
        match r {
            Ok(m) => t.ev(json!({"op":"numcmp_sign","kind":kind,"a":pj,"b":pj,"m":m})),
            Err(e) => panic_ev(t, "numcmp_sign", e),
        }
        st.add(subject, (n * n) as u64);
        let pb: Vec<Vec<u8>> = pool.iter().map(|(b, neg)| format!("{}{}", if *neg { "-" } else { "" }, b).into_bytes()).collect();
        st.pairs(subject, &pb, &pb);
    }
}

// ---------------------------------------------------------------- lexicographic cursors

/// the element a returned &str is, by address (a projection; None for empty strings, whose
/// address identifies nothing)
fn ident(list: &[String], cur: Option<&str>) -> Value {
    match cur {
        Some(s) if !s.is_empty() => {
            let p = s.as_ptr();
            match list.iter().position(|x| !x.is_empty() && x.as_ptr() == p) {
                Some(i) => json!([i]),
                None => json!([]),
            }
        }
        _ => json!([]),
    }
}

trait Cursor_ {
    fn cur(&self) -> Option<String>;
    fn cur_ident(&self, list: &[String]) -> Value;
    fn next(&mut self) -> Result<bool, String>;
    fn prev(&mut self) -> Result<bool, String>;
    fn seek_start(&mut self) -> Result<bool, String>;
    fn seek_end(&mut self) -> Result<bool, String>;
    fn lower(&mut self, t: &str) -> Result<bool, String>;
    fn upper(&mut self, t: &str) -> Result<bool, String>;
    fn at_end(&self) -> bool;
    fn at_start(&self) -> Option<bool>;
    fn size_hint(&self) -> Option<usize>;
}
struct CurSV<'a>(SortedVecLexIterator<'a>);
impl<'a> Cursor_ for CurSV<'a> {
    fn cur(&self) -> Option<String> {
        self.0.current().map(|s| s.to_string())
    }
    fn cur_ident(&self, list: &[String]) -> Value {
        ident(list, self.0.current())
    }
    fn next(&mut self) -> Result<bool, String> {
        self.0.next().map_err(|e| e.to_string())
    }
    fn prev(&mut self) -> Result<bool, String> {
        self.0.prev().map_err(|e| e.to_string())
    }
    fn seek_start(&mut self) -> Result<bool, String> {
        self.0.seek_start().map_err(|e| e.to_string())
    }
    fn seek_end(&mut self) -> Result<bool, String> {
        self.0.seek_end().map_err(|e| e.to_string())
    }
    fn lower(&mut self, t: &str) -> Result<bool, String> {
        self.0.seek_lower_bound(t).map_err(|e| e.to_string())
    }
    fn upper(&mut self, t: &str) -> Result<bool, String> {
        self.0.seek_upper_bound(t).map_err(|e| e.to_string())
    }
    fn at_end(&self) -> bool {
        self.0.is_at_end()
    }
    fn at_start(&self) -> Option<bool> {
        Some(self.0.is_at_start())
    }
    fn size_hint(&self) -> Option<usize> {
        self.0.size_hint()
    }
}
struct CurST(StreamingLexIterator<Cursor<Vec<u8>>>);
impl Cursor_ for CurST {
    fn cur(&self) -> Option<String> {
        self.0.current().map(|s| s.to_string())
    }
    fn cur_ident(&self, _list: &[String]) -> Value {
        json!([])
    }
    fn next(&mut self) -> Result<bool, String> {
        self.0.next().map_err(|e| e.to_string())
    }
    fn prev(&mut self) -> Result<bool, String> {
        self.0.prev().map_err(|e| e.to_string())
    }
    fn seek_start(&mut self) -> Result<bool, String> {
        self.0.seek_start().map_err(|e| e.to_string())
    }
    fn seek_end(&mut self) -> Result<bool, String> {
        self.0.seek_end().map_err(|e| e.to_string())
    }
    fn lower(&mut self, t: &str) -> Result<bool, String> {
        self.0.seek_lower_bound(t).map_err(|e| e.to_string())
    }
    fn upper(&mut self, t: &str) -> Result<bool, String> {
        self.0.seek_upper_bound(t).map_err(|e| e.to_string())
    }
    fn at_end(&self) -> bool {
        self.0.is_at_end()
    }
    fn at_start(&self) -> Option<bool> {
        None
    }
    fn size_hint(&self) -> Option<usize> {
        self.0.size_hint()
    }
}

fn stream_of(list: &[String]) -> Cursor<Vec<u8>> {
    let mut b = vec![];
    for s in list {
        b.extend_from_slice(s.as_bytes());
        b.push(b'\n');
    }
    Cursor::new(b)
}

/// one logged cursor step; returns the boolean the operation answered (None = refused / panic)
fn li_step(t: &mut Tracer, c: &mut dyn Cursor_, list: &[String], op: &str, target: &str) -> Option<bool> {
    let mut out = None;
    let r = guard(|| match op {
        "li_current" => {
            let cur = c.cur();
            json!({"op":op,"r":opt(cur.as_ref().map(|s| bj(s.as_bytes()))),"ci":c.cur_ident(list)})
        }
        "li_at_end" => json!({"op":op,"r":c.at_end()}),
        "li_at_start" => match c.at_start() {
            Some(b) => json!({"op":op,"r":b}),
            None => Value::Null, // the type does not implement it: nothing to log
        },
        "li_size_hint" => json!({"op":op,"r":opt(c.size_hint())}),
        _ => {
            let r = match op {
                "li_next" => c.next(),
                "li_prev" => c.prev(),
                "li_seek_start" => c.seek_start(),
                "li_seek_end" => c.seek_end(),
                "li_lower" => c.lower(target),
                _ => c.upper(target),
            };
            match r {
                Ok(b) => {
                    out = Some(b);
                    json!({"op":op,"t":bj(target.as_bytes()),"ok":true,"r":b})
                }
                Err(_) => json!({"op":op,"t":bj(target.as_bytes()),"ok":false,"r":false}),
            }
        }
    });
    match r {
        Ok(Value::Null) => {}
        Ok(e) => t.ev(e),
        Err(m) => panic_ev(t, op, m),
    }
    out
}

fn mk_cursor<'a>(subject: &str, list: &'a [String]) -> Box<dyn Cursor_ + 'a> {
    match subject {
        "lexiter:streaming" => Box::new(CurST(StreamingLexIterator::new(stream_of(list)))),
        "lexiter:builder_streaming" => {
            Box::new(CurST(LexIteratorBuilder::new().optimize_for_memory(true).buffer_size(16).build_streaming(stream_of(list))))
        }
        "lexiter:builder_sortedvec" => {
            Box::new(CurSV(LexIteratorBuilder::new().optimize_for_memory(true).buffer_size(64).build_sorted_vec(list)))
        }
        _ => Box::new(CurSV(SortedVecLexIterator::new(list))),
    }
}

fn lexiter_lists(rng: &Rng, thorough: bool) -> Vec<(String, Vec<String>)> {
    let mut v: Vec<(String, Vec<String>)> = vec![];
    // every non-decreasing sequence of up to 4 (5) elements over an alphabet listed in ascending order
    let alpha = ["", "a", "a\u{e9}", "b"];
    let maxn = if thorough { 5 } else { 4 };
    fn rec(alpha: &[&str], from: usize, left: usize, cur: &mut Vec<String>, out: &mut Vec<Vec<String>>) {
        out.push(cur.clone());
        if left == 0 {
            return;
        }
        for k in from..alpha.len() {
            cur.push(alpha[k].to_string());
            rec(alpha, k, left - 1, cur, out);
            cur.pop();
        }
    }
    let mut out = vec![];
    rec(&alpha, 0, maxn, &mut vec![], &mut out);
    for (i, l) in out.into_iter().enumerate() {
        v.push((format!("exh{i}"), l));
    }
    // longer lists with runs of duplicates, empty strings, shared prefixes, multi-byte characters
    let words = ["", "a", "aa", "ab", "abc", "b", "ba", "c", "\u{e9}", "\u{e9}t\u{e9}", "\u{7f}", "z", "zz", "\u{1d11e}", "A", "Z", "_"];
    for k in 0..(if thorough { 12 } else { 4 }) {
        let mut r = rng.derive(&format!("li{k}"));
        let n = 5 + r.below(20) as usize;
        let mut l: Vec<String> = vec![];
        while l.len() < n {
            let w = r.pick(&words).to_string();
            let reps = if r.chance(1, 3) { 1 + r.below(5) as usize } else { 1 };
            for _ in 0..reps {
                l.push(w.clone());
            }
        }
        l.sort(); // input preparation only: the contract action New re-checks sortedness in TLA+
        v.push((format!("dups{k}"), l));
    }
    v.push(("allsame".to_string(), vec!["k".to_string(); 9]));
    v.push(("allempty".to_string(), vec![String::new(); 5]));
    v
}

fn drive_lexiter(t: &mut Tracer, a: &Args, st: &mut Stats, rng: &Rng) {
    let lists = lexiter_lists(rng, a.thorough());
    let probes_extra = ["", "a", "a\u{e9}", "aa", "b", "bb", "\u{0}", "\u{10ffff}", "k", "\u{e9}"];
    for subject in ["lexiter:sortedvec", "lexiter:builder_sortedvec", "lexiter:streaming", "lexiter:builder_streaming"] {
        if !a.wants(subject) {
            continue;
        }
        let streaming = subject == "lexiter:streaming" || subject == "lexiter:builder_streaming";
        group(t, 4000);
        for (fam, list) in &lists {
            let mut probes: Vec<String> = probes_extra.iter().map(|s| s.to_string()).collect();
            for s in list {
                if !probes.contains(s) {
                    probes.push(s.clone());
                }
            }
            let new_ev = |t: &mut Tracer| t.ev(json!({"op":"li_new","S":spool_json(list),"streaming":streaming}));
            let scan = |t: &mut Tracer, c: &mut dyn Cursor_, op: &str| {
                // scan to the end (or start), observing the element after every step
                let mut guard_n = list.len() + 3;
                loop {
                    li_step(t, c, list, "li_current", "");
                    let r = li_step(t, c, list, op, "");
                    guard_n -= 1;
                    if r != Some(true) || guard_n == 0 {
                        break;
                    }
                }
                li_step(t, c, list, "li_current", "");
                li_step(t, c, list, "li_at_end", "");
            };
            // 1. forward scan from the initial position
            rst(t, subject, json!({"fam":"lexiter","variant":fam,"script":"forward"}));
            new_ev(t);
            {
                let mut c = mk_cursor(subject, list);
                li_step(t, &mut *c, list, "li_size_hint", "");
                li_step(t, &mut *c, list, "li_at_start", "");
                li_step(t, &mut *c, list, "li_at_end", "");
                scan(t, &mut *c, "li_next");
                li_step(t, &mut *c, list, "li_next", "");
                li_step(t, &mut *c, list, "li_current", "");
                if streaming {
                    // refused operations of a stream
                    for op in ["li_prev", "li_seek_start", "li_seek_end", "li_lower", "li_upper"] {
                        li_step(t, &mut *c, list, op, "a");
                    }
                }
            }
            st.add(subject, list.len() as u64 + 4);
            if !list.is_empty() {
                st.case(subject, &[b"forward", &list.join("\n").into_bytes()]);
            }
            if streaming {
                continue;
            }
            // 2. backward scan from the last element
            rst(t, subject, json!({"fam":"lexiter","variant":fam,"script":"backward"}));
            new_ev(t);
            {
                let mut c = mk_cursor(subject, list);
                li_step(t, &mut *c, list, "li_seek_end", "");
                scan(t, &mut *c, "li_prev");
                li_step(t, &mut *c, list, "li_at_start", "");
                li_step(t, &mut *c, list, "li_seek_start", "");
                li_step(t, &mut *c, list, "li_current", "");
                li_step(t, &mut *c, list, "li_prev", "");
                li_step(t, &mut *c, list, "li_current", "");
            }
            st.add(subject, list.len() as u64 + 4);
            if !list.is_empty() {
                st.case(subject, &[b"backward", &list.join("\n").into_bytes()]);
            }
            // (the builder hands out the same cursor type: the seek scripts run on the longer lists only)
            if subject == "lexiter:builder_sortedvec" && fam.starts_with("exh") {
                continue;
            }
            // 3. every probe: lower bound then scan, upper bound then scan
            for op in ["li_lower", "li_upper"] {
                rst(t, subject, json!({"fam":"lexiter","variant":fam,"script":op}));
                new_ev(t);
                let mut c = mk_cursor(subject, list);
                for p in &probes {
                    li_step(t, &mut *c, list, op, p);
                    scan(t, &mut *c, "li_next");
                    st.add(subject, list.len() as u64 + 2);
                    if !list.is_empty() {
                        st.case(subject, &[op.as_bytes(), p.as_bytes(), &list.join("\n").into_bytes()]);
                    }
                }
            }
            // 4. prev from the end position, and a seeded walk over all operations
            rst(t, subject, json!({"fam":"lexiter","variant":fam,"script":"walk"}));
            new_ev(t);
            {
                let mut c = mk_cursor(subject, list);
                let mut r = rng.derive(&format!("walk-{subject}-{fam}"));
                let ops = ["li_next", "li_next", "li_prev", "li_prev", "li_lower", "li_upper", "li_seek_start", "li_seek_end", "li_at_end", "li_at_start"];
                let steps = 30 + 4 * list.len();
                for _ in 0..steps {
                    let op = *r.pick(&ops);
                    let p = r.pick(&probes).clone();
                    li_step(t, &mut *c, list, op, &p);
                    li_step(t, &mut *c, list, "li_current", "");
                }
                st.add(subject, steps as u64);
                if !list.is_empty() {
                    st.case(subject, &[b"walk", &list.join("\n").into_bytes()]);
                }
            }
        }
    }
}

// ---------------------------------------------------------------- sorted string vectors

fn sorted_inputs(rng: &Rng, thorough: bool) -> Vec<(String, Vec<String>)> {
    let mut v: Vec<(String, Vec<String>)> = vec![];
    v.push(("empty".into(), vec![]));
    v.push(("one".into(), vec!["x".into()]));
    v.push(("oneempty".into(), vec!["".into()]));
    let words = [
        "", "a", "aa", "ab", "abc", "b", "ba", "c", "\u{e9}", "\u{e9}t\u{e9}", "\u{7f}", "\u{80}", "z", "zz", "\u{1d11e}", "A", "Z", "_", "\u{ff}", "\u{7ff}",
        "\u{800}", "pppppppp", "ppppppppa", "pppppppp\u{80}", "pppppppp\u{7f}", "ppppppp", "pppppppppppppppp\u{e9}", "ppppppppppppppppz",
    ];
    for k in 0..(if thorough { 10 } else { 4 }) {
        let mut r = rng.derive(&format!("sv{k}"));
        let n = [3usize, 12, 31, 40, 70, 33, 100, 64, 5, 50][k % 10];
        let l: Vec<String> = (0..n).map(|_| r.pick(&words).to_string()).collect();
        v.push((format!("words{k}"), l));
    }
    // a larger list: radix buckets (>= 32 elements per bucket), long shared prefixes
    let mut r = rng.derive("svbig");
    let n = if thorough { 1500 } else { 620 }; // > 2 x 256: the block binary search path
    let al = ["a", "b", "\u{e9}", "p"];
    let l: Vec<String> = (0..n)
        .map(|_| {
            let len = r.below(7) as usize;
            let mut s = String::new();
            if r.chance(1, 5) {
                s.push_str("pppppppppppppppp");
            }
            for _ in 0..len {
                {
                    let w: &&str = r.pick(&al[..]);
                    s.push_str(w);
                }
            }
            s
        })
        .collect();
    v.push(("big".into(), l));
    v
}

fn drive_sorted(t: &mut Tracer, a: &Args, st: &mut Stats, rng: &Rng) {
    let inputs = sorted_inputs(rng, a.thorough());
    let kinds = [
        ("sorted:sortable_sort", "sortable_sort"),
        ("sorted:sortable_sort_lexicographic", "sortable_lex"),
        ("sorted:sortable_radix", "sortable_radix"),
        ("sorted:zo_from_strings", "zo_from_strings"),
        ("sorted:zo_from_sorted", "zo_from_sorted"),
        ("sorted:zo_from_sortable", "zo_from_sortable"),
    ];
    group(t, 200);
    for (subject, kind) in kinds {
        if !a.wants(subject) {
            continue;
        }
        for (fam, input) in &inputs {
            rst(t, subject, json!({"fam":"sorted","variant":fam}));
            let r = guard(|| -> Option<(Vec<String>, Vec<String>, usize)> {
                if kind.starts_with("sortable") {
                    let mut sv = SortableStrVec::new();
                    for s in input {
                        sv.push_str(s).ok()?;
                    }
                    match kind {
                        "sortable_sort" => sv.sort().ok()?,
                        "sortable_lex" => sv.sort_lexicographic().ok()?,
                        _ => sv.radix_sort().ok()?,
                    }
                    let it: Vec<String> = sv.iter_sorted().map(|s| s.to_string()).collect();
                    let gets: Vec<String> = (0..sv.len()).filter_map(|i| sv.get_sorted(i).map(|s| s.to_string())).collect();
                    Some((it, gets, sv.len()))
                } else {
                    let z = match kind {
                        "zo_from_strings" => ZoSortedStrVec::from_strings(input.clone()).ok()?,
                        "zo_from_sorted" => {
                            let mut s = input.clone();
                            s.sort(); // input preparation: the constructor demands sorted input
                            ZoSortedStrVec::from_sorted_strings(s).ok()?
                        }
                        _ => {
                            let mut sv = SortableStrVec::new();
                            for s in input {
                                sv.push_str(s).ok()?;
                            }
                            ZoSortedStrVec::from_sortable_str_vec(sv).ok()?
                        }
                    };
                    let it: Vec<String> = z.iter().map(|s| s.to_string()).collect();
                    let gets: Vec<String> = (0..z.len()).filter_map(|i| z.get(i).map(|s| s.to_string())).collect();
                    Some((it, gets, z.len()))
                }
            });
            match r {
                Ok(Some((it, gets, n))) => {
                    t.ev(json!({"op":"sorted_enum","kind":kind,"ok":true,"input":spool_json(input),"r":spool_json(&it),"gets":spool_json(&gets),"n":n}))
                }
                Ok(None) => t.ev(json!({"op":"sorted_enum","kind":kind,"ok":false,"input":spool_json(input),"r":[],"gets":[],"n":0})),
                Err(m) => panic_ev(t, "sorted_enum", m),
            }
            st.add(subject, input.len() as u64);
            if input.len() > 1 {
                st.case(subject, &[&input.join("\n").into_bytes()]);
            }
        }
    }
    // range enumeration of ZoSortedStrVec: [lo, hi)
    if a.wants("sorted:zo_range") {
        group(t, 60);
        let lists = lexiter_lists(rng, a.thorough());
        let probes = ["", "a", "a\u{e9}", "aa", "b", "bb", "k", "\u{e9}", "\u{10ffff}"];
        for (fam, list) in lists.iter().filter(|(f, _)| !f.starts_with("exh") || f.len() <= 5) {
            let z = match ZoSortedStrVec::from_sorted_strings(list.clone()) {
                Ok(z) => z,
                Err(_) => continue,
            };
            rst(t, "sorted:zo_range", json!({"fam":"sorted","variant":fam}));
            let mut cases = vec![];
            for lo in probes {
                for hi in probes {
                    match guard(|| z.range(lo, hi).map(|s| s.to_string()).collect::<Vec<String>>()) {
                        Ok(r) => cases.push(json!({"lo":bj(lo.as_bytes()),"hi":bj(hi.as_bytes()),"ok":true,"r":spool_json(&r)})),
                        Err(_) => cases.push(json!({"lo":bj(lo.as_bytes()),"hi":bj(hi.as_bytes()),"ok":false,"r":[]})),
                    }
                }
            }
            let nc = cases.len() as u64;
            t.ev(json!({"op":"zo_range","S":spool_json(list),"cases":cases}));
            st.add("sorted:zo_range", nc);
            if !list.is_empty() {
                for lo in probes {
                    for hi in probes {
                        st.case("sorted:zo_range", &[lo.as_bytes(), hi.as_bytes(), &list.join("\n").into_bytes()]);
                    }
                }
            }
        }
    }
}

// ---------------------------------------------------------------- join

fn drive_join(t: &mut Tracer, a: &Args, st: &mut Stats, rng: &Rng) {
    let seps: Vec<&str> = vec!["", ",", ", ", "\n", "\r\n", "\u{e9}", "--", " ", "\t", "0123456789abcdef0123456789abcdef!"];
    let mut lists: Vec<Vec<String>> = vec![
        vec![],
        vec!["".into()],
        vec!["a".into()],
        vec!["".into(), "".into()],
        vec!["".into(), "".into(), "".into()],
        vec!["a".into(), "".into()],
        vec!["".into(), "a".into()],
        vec!["a".into(), "b".into()],
        vec!["a".into(), "".into(), "b".into()],
        vec!["hello".into(), "world".into()],
        vec![",".into(), ",".into()],
        vec!["\u{e9}".into(), "\u{1d11e}".into(), "x".into()],
        vec!["a".into(), "a".into(), "a".into(), "a".into()],
    ];
    let words = ["", "a", "bc", "def", ",", " ", "\u{e9}", "long-part-0123456789-0123456789-0123456789", "\n"];
    let mut r = rng.derive("join");
    for _ in 0..(if a.thorough() { 30 } else { 8 }) {
        let n = r.below(9) as usize;
        lists.push((0..n).map(|_| r.pick(&words).to_string()).collect());
    }
    let vias = ["join", "join_str", "join_fast_str", "join_iter", "join_bytes_iter", "builder_build", "builder_finish", "builder_with_capacity"];
    for via in vias {
        let subject = format!("join:{via}");
        if !a.wants(&subject) {
            continue;
        }
        rst(t, &subject, json!({"fam":"join","variant":via}));
        for parts in &lists {
            for sep in &seps {
                let ps: Vec<&str> = parts.iter().map(|s| s.as_str()).collect();
                let r = guard(|| -> Vec<u8> {
                    match via {
                        "join" => {
                            let pb: Vec<&[u8]> = ps.iter().map(|s| s.as_bytes()).collect();
                            join(sep.as_bytes(), &pb)
                        }
                        "join_str" => join_str(sep, &ps).into_bytes(),
                        "join_fast_str" => {
                            let pf: Vec<FastStr> = ps.iter().map(|s| FastStr::from_string(s)).collect();
                            join_fast_str(sep, &pf).into_bytes()
                        }
                        "join_iter" => join_iter(sep, ps.iter()).into_bytes(),
                        "join_bytes_iter" => {
                            // the API demands 'static slices: leak copies (small, bounded)
                            let pb: Vec<&'static [u8]> = ps.iter().map(|s| &*Box::leak(s.as_bytes().to_vec().into_boxed_slice())).collect();
                            join_bytes_iter(sep.as_bytes(), pb.into_iter())
                        }
                        "builder_build" => {
                            let mut b = JoinBuilder::new(sep);
                            for p in &ps {
                                b.push(p);
                            }
                            b.build().into_bytes()
                        }
                        "builder_finish" => {
                            let mut b = JoinBuilder::new(sep);
                            for p in &ps {
                                b.push(p);
                            }
                            b.finish().into_bytes()
                        }
                        _ => {
                            let mut b = JoinBuilder::with_capacity(sep, 1);
                            for p in &ps {
                                b.push(p);
                            }
                            let once = b.build();
                            let twice = b.build(); // build() borrows: a second call must give the same
                            if once != twice {
                                return b"<build differs>".to_vec();
                            }
                            once.into_bytes()
                        }
                    }
                });
                match r {
                    Ok(out) => t.ev(json!({"op":"join","via":via,"sep":bj(sep.as_bytes()),"parts":spool_json(parts),"r":bj(&out)})),
                    Err(m) => panic_ev(t, "join", m),
                }
                st.add(&subject, 1);
                if parts.len() > 1 {
                    st.case(&subject, &[sep.as_bytes(), &parts.join("\u{1}").into_bytes()]);
                }
            }
        }
    }
}

// ---------------------------------------------------------------- words

fn drive_words(t: &mut Tracer, a: &Args, st: &mut Stats, rng: &Rng) {
    if !a.wants("words:word_boundary") {
        return;
    }
    let al: [&[u8]; 5] = [b"a", b"_", b" ", b"-", &[0xe9]];
    let mut texts = exhaustive(&al, if a.thorough() { 5 } else { 4 });
    let fixed: Vec<&[u8]> = vec![
        b"hello, world! test_123",
        b"one-two-three",
        b"  leading and trailing  ",
        b"a",
        b"_",
        b"9",
        b"Zz09_aA",
        b"@[`{/:",
        b"x\xffy\x80z",
        b"tab\tsep\nnl\rcr",
        b"....",
        b"word",
    ];
    texts.extend(fixed.iter().map(|s| s.to_vec()));
    let mut r = rng.derive("words");
    let al2: Vec<u8> = b"abzAZ09_ -.,\n\t@[`{/:".iter().copied().chain([0x80u8, 0xff]).collect();
    for _ in 0..(if a.thorough() { 60 } else { 15 }) {
        let n = r.below(120) as usize;
        texts.push((0..n).map(|_| *r.pick(&al2)).collect());
    }
    rst(t, "words:word_boundary", json!({"fam":"words","variant":"all"}));
    for (k, text) in texts.iter().enumerate() {
        if k > 0 && k % 400 == 0 {
            rst(t, "words:word_boundary", json!({"fam":"words","variant":"all"}));
        }
        let base = text.as_ptr() as usize;
        let r = guard(|| {
            let ws: Vec<Value> = words(text)
                .map(|w| {
                    let s = w.as_ptr() as usize - base;
                    json!([s, s + w.len()])
                })
                .collect();
            let wb: Vec<bool> = (0..=text.len() + 1).map(|p| is_word_boundary(text, p)).collect();
            let at: Vec<Value> = (0..=text.len())
                .map(|p| match word_at_position(text, p) {
                    Some((s, e)) => json!([s as i64, e as i64]),
                    None => json!([-1, -1]),
                })
                .collect();
            json!({"op":"words","t":bj(text),"r":ws,"n":word_count(text),"b":find_word_boundaries(text),"wb":wb,"at":at})
        });
        match r {
            Ok(e) => t.ev(e),
            Err(m) => panic_ev(t, "words", m),
        }
        st.add("words:word_boundary", 3 + 2 * text.len() as u64);
        if !text.is_empty() {
            st.case("words:word_boundary", &[text]);
        }
    }
}

// ---------------------------------------------------------------- lines

fn drive_lines(t: &mut Tracer, a: &Args, st: &mut Stats, rng: &Rng) {
    if a.wants("lines:line_processor") {
        group(t, 150);
        let al: [&[u8]; 4] = [b"a", b" ", b"\n", b"\r"];
        let mut texts = exhaustive(&al, if a.thorough() { 6 } else { 4 });
        let fixed: Vec<&str> = vec![
            "line1\nline2\n\nline4 with spaces\nline5,with,commas\n",
            "unix\nwin\r\nmac\rmixed\r\n\nlast",
            "a\r\rb\r\n\r\nc\n\rd",
            "\r\n\r\n",
            "\r",
            "\n\r",
            "  padded  \n\t\ttabbed\t\n   \n",
            "\u{e9}t\u{e9}\n\u{1d11e}\r\n",
            "no terminator",
            "trailing cr\r",
        ];
        texts.extend(fixed.iter().map(|s| s.as_bytes().to_vec()));
        let mut r = rng.derive("lines");
        let al2: Vec<&str> = vec!["a", "b", " ", "\t", "\n", "\r", "\r\n", "\u{e9}", "word ", "\n\n"];
        for _ in 0..(if a.thorough() { 60 } else { 12 }) {
            let n = r.below(40) as usize;
            let mut s = String::new();
            for _ in 0..n {
                {
                    let w: &&str = r.pick(&al2[..]);
                    s.push_str(w);
                }
            }
            texts.push(s.into_bytes());
        }
        rst(t, "lines:line_processor", json!({"fam":"lines","variant":"all"}));
        for (k, text) in texts.iter().enumerate() {
            if k > 0 && k % 150 == 0 {
                rst(t, "lines:line_processor", json!({"fam":"lines","variant":"all"}));
            }
            let mut res = vec![];
            for cfgbits in 0..8u32 {
                let (p, s, tr) = (cfgbits & 1 != 0, cfgbits & 2 != 0, cfgbits & 4 != 0);
                let cfg = || {
                    let mut c = LineProcessorConfig::default();
                    c.preserve_line_endings = p;
                    c.skip_empty_lines = s;
                    c.trim_whitespace = tr;
                    c.buffer_size = 16; // small buffer: lines straddle refills
                    c
                };
                for via in ["process_lines", "process_batches", "find_lines", "count_lines", "split_lines_by"] {
                    let mut lnok = true;
                    let r = guard(|| -> Option<(Vec<Vec<u8>>, usize)> {
                        let mut lp = LineProcessor::with_config(Cursor::new(text.clone()), cfg());
                        let mut out: Vec<Vec<u8>> = vec![];
                        let n = match via {
                            "process_lines" => lp
                                .process_lines(|l| {
                                    out.push(l.as_bytes().to_vec());
                                    Ok(true)
                                })
                                .ok()?,
                            "process_batches" => lp
                                .process_batches(3, |b| {
                                    out.extend(b.iter().map(|l| l.as_bytes().to_vec()));
                                    Ok(true)
                                })
                                .ok()?,
                            "find_lines" => {
                                let f = lp.find_lines(|_| true).ok()?;
                                // the reported line numbers count the delivered lines 1, 2, 3 ...: projected as a flag
                                lnok = f.iter().enumerate().all(|(i, (ln, _))| *ln == i + 1);
                                out.extend(f.iter().map(|(_, l)| l.as_bytes().to_vec()));
                                out.len()
                            }
                            "count_lines" => lp.count_lines().ok()?,
                            _ => {
                                // a delimiter that does not occur: every line is one field
                                let mut cur: Vec<Vec<u8>> = vec![];
                                let nf = lp
                                    .split_lines_by("\u{1}", |f, _ln, _fn| {
                                        cur.push(f.as_bytes().to_vec());
                                        Ok(true)
                                    })
                                    .ok()?;
                                out = cur;
                                nf
                            }
                        };
                        Some((out, n))
                    });
                    match r {
                        Ok(Some((out, n))) => res.push(json!({"via":via,"p":p,"s":s,"t":tr,"ok":true,"r":pool_json(&out),"n":n,"lnok":lnok})),
                        Ok(None) => res.push(json!({"via":via,"p":p,"s":s,"t":tr,"ok":false,"r":[],"n":0,"lnok":true})),
                        Err(m) => res.push(json!({"via":"panic","p":p,"s":s,"t":tr,"ok":false,"r":[],"n":0,"lnok":true,"msg":m})),
                    }
                }
            }
            // the configuration presets (their own buffer sizes; secure allocates from a SecureMemoryPool)
            for (pname, preset) in [
                ("memory_optimized", LineProcessorConfig::memory_optimized as fn() -> LineProcessorConfig),
                ("performance_optimized", LineProcessorConfig::performance_optimized),
                ("secure", LineProcessorConfig::secure),
            ] {
                if pname == "secure" && k % 16 != 0 {
                    continue;
                }
                let c0 = preset();
                let (p, s, tr) = (c0.preserve_line_endings, c0.skip_empty_lines, c0.trim_whitespace);
                for via in ["process_lines", "count_lines"] {
                    let r = guard(|| -> Option<(Vec<Vec<u8>>, usize)> {
                        let mut lp = LineProcessor::with_config(Cursor::new(text.clone()), preset());
                        let mut out: Vec<Vec<u8>> = vec![];
                        let n = if via == "process_lines" {
                            lp.process_lines(|l| {
                                out.push(l.as_bytes().to_vec());
                                Ok(true)
                            })
                            .ok()?
                        } else {
                            lp.count_lines().ok()?
                        };
                        Some((out, n))
                    });
                    match r {
                        Ok(Some((out, n))) => res.push(json!({"via":via,"preset":pname,"p":p,"s":s,"t":tr,"ok":true,"r":pool_json(&out),"n":n,"lnok":true})),
                        Ok(None) => res.push(json!({"via":via,"preset":pname,"p":p,"s":s,"t":tr,"ok":false,"r":[],"n":0,"lnok":true})),
                        Err(m) => res.push(json!({"via":"panic","preset":pname,"p":p,"s":s,"t":tr,"ok":false,"r":[],"n":0,"lnok":true,"msg":m})),
                    }
                }
            }
            let nres = res.len() as u64;
            t.ev(json!({"op":"lines","text":bj(text),"res":res}));
            st.add("lines:line_processor", nres);
            if !text.is_empty() {
                st.case("lines:line_processor", &[text]);
            }
        }
        }
    // LineSplitter: fields of one line
    let al: [&[u8]; 3] = [b"a", b",", b" "];
    let mut lines: Vec<String> = exhaustive(&al, if a.thorough() { 5 } else { 4 }).into_iter().map(|b| String::from_utf8(b).unwrap()).collect();
    for s in ["a,b,c", "a,,b", ",", ",,", "a\tb\t", "\t", "x::y::", "::", "a::b", "\u{e9},\u{1d11e}", "one two  three ", "trailing,", ",leading", "no delimiter"] {
        lines.push(s.to_string());
    }
    let delims = [",", " ", "\t", ";", "::", "\u{e9}", ", "];
    group(t, 100);
    for (subject, strategy) in [("split:simple", "simple"), ("split:optimized", "optimized"), ("split:custom", "custom")] {
        if !a.wants(subject) {
            continue;
        }
        rst(t, subject, json!({"fam":"split","variant":strategy}));
        let mut sp = match strategy {
            "simple" => LineSplitter::new(),
            "optimized" => LineSplitter::new().with_optimized_strategy(),
            _ => LineSplitter::new().with_delimiter(",".to_string()),
        };
        let mut cases = vec![];
        for line in &lines {
            for d in delims {
                match guard(|| sp.split(line, d).to_vec()) {
                    Ok(r) => cases.push(json!({"line":bj(line.as_bytes()),"d":bj(d.as_bytes()),"ok":true,"r":spool_json(&r)})),
                    Err(_) => cases.push(json!({"line":bj(line.as_bytes()),"d":bj(d.as_bytes()),"ok":false,"r":[]})),
                }
                st.add(subject, 1);
                if line.contains(d) {
                    st.case(subject, &[line.as_bytes(), d.as_bytes()]);
                }
                if cases.len() >= 200 {
                    t.ev(json!({"op":"split","strategy":strategy,"cases":cases}));
                    cases = vec![];
                }
            }
        }
        if !cases.is_empty() {
            t.ev(json!({"op":"split","strategy":strategy,"cases":cases}));
        }
    }
}

// ---------------------------------------------------------------- case conversion

fn drive_case(t: &mut Tracer, a: &Args, st: &mut Stats, rng: &Rng) {
    let mut ascii: Vec<String> = vec![];
    ascii.push((0u8..128).map(|b| b as char).collect()); // every ASCII byte
    for n in 0..=20 {
        ascii.push("aZ".repeat(n)[..n].to_string());
    }
    for s in ["", "a", "A", "z", "Z", "@", "[", "`", "{", "Hello, World! 123", "ABCDEFGH", "abcdefgh", "ABCDEFGHI", "1234567", "12345678", "123456789aB"] {
        ascii.push(s.to_string());
    }
    let mut r = rng.derive("case");
    for _ in 0..(if a.thorough() { 80 } else { 20 }) {
        let n = r.below(40) as usize;
        ascii.push((0..n).map(|_| (r.below(128) as u8) as char).collect());
    }
    // ASCII letters between characters that have no case (the Unicode helpers must leave them alone;
    // characters WITH non-ASCII case mappings are outside the byte-wise definition and not used)
    let mut mixed: Vec<String> = ascii.clone();
    for s in ["\u{4e2d}\u{6587}Ab", "x\u{1d11e}Y", "\u{3042}A\u{3042}z", "\u{2603}"] {
        mixed.push(s.to_string());
    }
    // the ASCII-only converters may be given any UTF-8 text: bytes >= 0x80 are not letters
    let mut any: Vec<String> = mixed.clone();
    for s in ["\u{e9}T\u{c9}", "stra\u{df}E", "\u{130}i", "aaaaaaa\u{e9}A", "AAAAAAAA\u{c9}\u{e9}zZ"] {
        any.push(s.to_string());
    }
    let subjects: [(&str, &Vec<String>); 7] = [
        ("case:to_lowercase_ascii_bmi2", &any),
        ("case:to_uppercase_ascii_bmi2", &any),
        ("case:to_lowercase_unicode", &mixed),
        ("case:to_uppercase_unicode", &mixed),
        ("case:processor_case_fold", &mixed),
        ("case:processor_plain", &any),
        ("case:processor_normalize_fold", &mixed),
    ];
    for (subject, pool) in subjects {
        if !a.wants(subject) {
            continue;
        }
        rst(t, subject, json!({"fam":"case","variant":subject}));
        let mut cases = vec![];
        for s in pool.iter() {
            let r = guard(|| -> Option<String> {
                Some(match subject {
                    "case:to_lowercase_ascii_bmi2" => to_lowercase_ascii_bmi2(s),
                    "case:to_uppercase_ascii_bmi2" => to_uppercase_ascii_bmi2(s),
                    "case:to_lowercase_unicode" => zipora::string::utils::unicode_utils::to_lowercase_unicode(s),
                    "case:to_uppercase_unicode" => zipora::string::utils::unicode_utils::to_uppercase_unicode(s),
                    "case:processor_case_fold" => UnicodeProcessor::new().with_case_folding(true).process(s).ok()?,
                    "case:processor_plain" => UnicodeProcessor::new().process(s).ok()?,
                    _ => UnicodeProcessor::new().with_case_folding(true).with_normalization(true).process(s).ok()?,
                })
            });
            let mode = match subject {
                "case:to_uppercase_ascii_bmi2" | "case:to_uppercase_unicode" => "upper",
                "case:processor_plain" => "same",
                _ => "lower",
            };
            match r {
                Ok(Some(out)) => cases.push(json!({"s":bj(s.as_bytes()),"mode":mode,"ok":true,"r":bj(out.as_bytes())})),
                Ok(None) => cases.push(json!({"s":bj(s.as_bytes()),"mode":mode,"ok":false,"r":[]})),
                Err(_) => cases.push(json!({"s":bj(s.as_bytes()),"mode":"panic","ok":false,"r":[]})),
            }
            st.add(subject, 1);
            if s.bytes().any(|b| b.is_ascii_alphabetic()) {
                st.case(subject, &[s.as_bytes()]);
            }
        }
        t.ev(json!({"op":"case","cases":cases}));
    }
}

include!("c20_parts/round2.rs");

// ---------------------------------------------------------------- main

fn main() {
    let a = Args::parse();
    quiet_panics();
    let rng = Rng::new(a.seed);
    let mut t = Tracer::new(&a.out, "str");
    let mut st = Stats { evals: 0, events: 0, seen: std::collections::HashSet::new(), subjects: serde_json::Map::new() };
    match a.mode.as_str() {
        "drive" => {
            // ---- FastStr / SIMD string functions: exhaustive small strings and the families
            let al: [&[u8]; 3] = [&[0x00], b"a", &[0xff]];
            // length <= 5 over three symbols incl. 0x00 and 0xff: 364 strings, all pairs
            let ex = exhaustive(&al, a.get_u64("exhlen", 5) as usize);
            let ex4 = exhaustive(&al, 4);
            let fams = byte_families(&rng, a.thorough());
            group(&mut t, 30);
            drive_faststr(&mut t, &a, &mut st, "exh3", &ex);
            for (fam, pool) in &fams {
                drive_faststr(&mut t, &a, &mut st, fam, pool);
            }
            group(&mut t, 30);
            drive_simd(&mut t, &a, &mut st, "exh3", &ex4, true);
            for (fam, pool) in &fams {
                drive_simd(&mut t, &a, &mut st, fam, pool, true);
            }
            group(&mut t, 30);
            drive_simd(&mut t, &a, &mut st, "exh3", &ex4, false);
            for (fam, pool) in &fams {
                drive_simd(&mut t, &a, &mut st, fam, pool, false);
            }
            drive_boundaries(&mut t, &a, &mut st);
            drive_find_families(&mut t, &a, &mut st);
            drive_multi_search(&mut t, &a, &mut st, &rng);
            drive_fs_conv(&mut t, &a, &mut st, &rng);
            drive_numeric(&mut t, &a, &mut st, &rng);
            drive_lexiter(&mut t, &a, &mut st, &rng);
            drive_lex_utils(&mut t, &a, &mut st, &rng);
            drive_sorted(&mut t, &a, &mut st, &rng);
            drive_sorted2(&mut t, &a, &mut st, &rng);
            group(&mut t, 400);
            drive_join(&mut t, &a, &mut st, &rng);
            group(&mut t, 400);
            drive_words(&mut t, &a, &mut st, &rng);
            drive_charclass(&mut t, &a, &mut st);
            drive_lines(&mut t, &a, &mut st, &rng);
            drive_line_utils(&mut t, &a, &mut st, &rng);
            drive_utf8(&mut t, &a, &mut st, &rng);
            group(&mut t, 100);
            drive_case(&mut t, &a, &mut st, &rng);
        }
        m => {
            eprintln!("c20: unknown mode {m}");
            std::process::exit(2);
        }
    }
    t.close();
    write_summary(
        &a.out,
        &json!({"events": t.total_events, "runs": t.runs, "files": t.files.len(), "evaluations": st.evals,
                "cases": st.seen.len(), "stat_events": st.events, "subjects": Value::Object(st.subjects)}),
    );
}
