//! C10 — vectors, queues and string vectors match their standard-library models.
//! Runs the real zipora containers, logs every public call as one NDJSON event; TLC judges the
//! events against spec/Seq.tla, spec/Deque.tla, spec/StrSeq.tla (Trace_Seq / Trace_Deque /
//! Trace_StrSeq).  The harness holds no model of any container: it projects (element value +
//! instance id, lengths, the drop log) and, in replay mode, compares for equality with values
//! TLC computed.
//!
//! modes (parent): drive | replay  -> one child process per subject (a crash is data)
//! modes (child):  drive1 | replay1
use serde_json::{json, Map, Value};
use std::cell::RefCell;
use std::path::PathBuf;
use zipora::containers::specialized::{
    AdvancedStringConfig, AdvancedStringVec, AutoGrowCircularQueue, BitPackedConfig, BitPackedStringVec32, BitPackedStringVec64,
    FixedCircularQueue, FixedLenStrVec, SortableStrVec, ValVec32, ZoSortedStrVec,
};
use zipora::containers::FastVec;
use zipora::memory::{BumpAllocator, CacheAlignedVec, MmapVec, MmapVecConfig, PooledVec};
use zv::*;

// NOTE: src/containers/specialized/circular_queue_ultrafast.rs cannot be bound: no `mod` line of the crate names it and
// it does not compile on the pinned toolchain (unstable core_intrinsics, ZiporaError::memory_error does not exist).

// ================================================================ drop-counting element

/// per-thread registry of the elements of the current run
struct Reg {
    state: Vec<u8>,          // per id: 0 alive, 1 destroyed
    ptr: Vec<usize>,         // per id: address of its heap box
    val: Vec<u32>,           // per id: value
    drops: Vec<(i64, i64)>,  // destructor calls since the last take: (value, id); (-1,-1) = not an element
    born: Vec<(i64, i64)>,   // clones made since the last take
    visit: Vec<(i64, i64)>,  // elements shown to the Debug formatter since the last take
    live: i64,               // elements alive
    bad: u64,                // destructor calls on dead / unknown elements (recorded, harmless)
}
thread_local! {
    static REG: RefCell<Reg> = RefCell::new(Reg { state: vec![], ptr: vec![], val: vec![], drops: vec![], born: vec![], visit: vec![], live: 0, bad: 0 });
}
fn reg_reset() {
    REG.with(|r| {
        let mut r = r.borrow_mut();
        r.state.clear();
        r.ptr.clear();
        r.val.clear();
        r.drops.clear();
        r.born.clear();
        r.visit.clear();
        r.live = 0;
        r.bad = 0;
    })
}
fn take_drops() -> Vec<(i64, i64)> {
    REG.with(|r| std::mem::take(&mut r.borrow_mut().drops))
}
fn take_born() -> Vec<(i64, i64)> {
    REG.with(|r| std::mem::take(&mut r.borrow_mut().born))
}
fn take_visit() -> Vec<(i64, i64)> {
    REG.with(|r| std::mem::take(&mut r.borrow_mut().visit))
}
fn reg_live() -> i64 {
    REG.with(|r| r.borrow().live)
}
fn reg_bad() -> u64 {
    REG.with(|r| r.borrow().bad)
}

/// An element that owns heap memory and reports its destruction.  Its destructor never frees
/// twice: the box is released only when the registry says this instance is alive and the
/// pointer is the registered one; a second drop (or a drop of garbage) is recorded instead.
#[repr(C)]
pub struct El {
    id: u32,
    val: u32,
    p: *mut u64,
}
unsafe impl Send for El {}
unsafe impl Sync for El {}
impl El {
    fn new(val: u32) -> El {
        let p = Box::into_raw(Box::new(val as u64 ^ 0x5eed_0000_0000));
        REG.with(|r| {
            let mut r = r.borrow_mut();
            let id = r.state.len() as u32;
            r.state.push(0);
            r.ptr.push(p as usize);
            r.val.push(val);
            r.live += 1;
            El { id, val, p }
        })
    }
    /// (value, id) when this is an element of the run (alive or dead), (-1,-1) for garbage
    fn proj(&self) -> (i64, i64) {
        REG.with(|r| {
            let r = r.borrow();
            let id = self.id as usize;
            if id < r.state.len() && r.ptr[id] == self.p as usize && r.val[id] == self.val {
                (self.val as i64, self.id as i64)
            } else {
                (-1, -1)
            }
        })
    }
    /// release: returns true when the box was freed now
    fn release(&self, log: bool) {
        let me = self.proj();
        let free = REG.with(|r| {
            let mut r = r.borrow_mut();
            if log {
                r.drops.push(me);
            }
            if me.1 < 0 {
                r.bad += 1;
                return false;
            }
            let id = me.1 as usize;
            if r.state[id] == 0 {
                r.state[id] = 1;
                r.live -= 1;
                true
            } else {
                r.bad += 1;
                false
            }
        });
        if free {
            unsafe { drop(Box::from_raw(self.p)) };
        }
    }
}
impl Drop for El {
    fn drop(&mut self) {
        self.release(true)
    }
}
impl Clone for El {
    fn clone(&self) -> El {
        let e = El::new(self.val);
        let p = e.proj();
        REG.with(|r| r.borrow_mut().born.push(p));
        e
    }
}
impl std::fmt::Debug for El {
    fn fmt(&self, f: &mut std::fmt::Formatter<'_>) -> std::fmt::Result {
        let p = self.proj();
        REG.with(|r| r.borrow_mut().visit.push(p));
        write!(f, "E{}", p.1)
    }
}

/// element types the vector subjects are driven with
pub trait Elem: Sized + Clone + 'static {
    const ACCT: bool;
    fn make(val: u32) -> Self;
    fn pr(&self) -> (i64, i64);
    /// the harness takes an element handed back by the container and disposes of it outside the
    /// drop log (it left the container by being returned)
    fn consume(self) -> (i64, i64);
}
impl Elem for El {
    const ACCT: bool = true;
    fn make(val: u32) -> El {
        El::new(val)
    }
    fn pr(&self) -> (i64, i64) {
        self.proj()
    }
    fn consume(self) -> (i64, i64) {
        let p = self.proj();
        self.release(false);
        std::mem::forget(self);
        p
    }
}
impl Elem for u64 {
    const ACCT: bool = false;
    fn make(val: u32) -> u64 {
        val as u64
    }
    fn pr(&self) -> (i64, i64) {
        (if *self < (1 << 31) { *self as i64 } else { -1 }, 0)
    }
    fn consume(self) -> (i64, i64) {
        self.pr()
    }
}

fn ej(p: (i64, i64)) -> Value {
    json!([p.0, p.1])
}
fn esj(v: &[(i64, i64)]) -> Value {
    Value::Array(v.iter().map(|&p| ej(p)).collect())
}
fn oej(o: Option<(i64, i64)>) -> Value {
    match o {
        None => json!([]),
        Some(p) => json!([ej(p)]),
    }
}

// ================================================================ vector subjects

/// Uniform view of a vector under test; every method is a thin call-through.  `ops()` lists what
/// the type offers.  Results: `false` / `None` = the call was refused (Err).
pub trait VecS<E: Elem> {
    fn ops(&self) -> &'static [&'static str];
    fn push(&mut self, _x: E) -> bool {
        unreachable!()
    }
    fn pop(&mut self) -> Option<E> {
        unreachable!()
    }
    fn insert(&mut self, _i: usize, _x: E) -> bool {
        unreachable!()
    }
    fn remove(&mut self, _i: usize) -> Option<E> {
        unreachable!()
    }
    fn set(&mut self, _i: usize, _x: E) -> bool {
        unreachable!()
    }
    fn resize(&mut self, _n: usize, _x: E) -> bool {
        unreachable!()
    }
    fn extend_move(&mut self, _xs: Vec<E>) -> bool {
        unreachable!()
    }
    fn extend_clone(&mut self, _xs: &[E]) -> bool {
        unreachable!()
    }
    fn fill(&mut self, _a: usize, _b: usize, _x: E) -> bool {
        unreachable!()
    }
    fn clear(&mut self) -> bool {
        unreachable!()
    }
    fn truncate(&mut self, _n: usize) -> bool {
        unreachable!()
    }
    fn pop_tail(&mut self, _n: usize) -> Option<Vec<E>> {
        unreachable!()
    }
    fn shrink(&mut self) -> bool {
        unreachable!()
    }
    fn reserve(&mut self, _n: usize) -> bool {
        unreachable!()
    }
    fn clone_obj(&self) -> Option<Box<dyn VecS<E>>> {
        unreachable!()
    }
    fn slice(&self) -> &[E];
    fn len(&self) -> usize;
    fn cap(&self) -> usize;
    fn iter_all(&self) -> Option<Vec<(i64, i64)>> {
        None
    }
    fn get(&self, _i: usize) -> Option<Option<(i64, i64)>> {
        None
    }
}

struct SFast<E: Elem>(FastVec<E>);
impl<E: Elem> VecS<E> for SFast<E> {
    fn ops(&self) -> &'static [&'static str] {
        &["push", "pop", "insert", "remove", "resize", "extend_move", "clear", "shrink", "reserve", "clone"]
    }
    fn push(&mut self, x: E) -> bool {
        self.0.push(x).is_ok()
    }
    fn pop(&mut self) -> Option<E> {
        self.0.pop()
    }
    fn insert(&mut self, i: usize, x: E) -> bool {
        self.0.insert(i, x).is_ok()
    }
    fn remove(&mut self, i: usize) -> Option<E> {
        self.0.remove(i).ok()
    }
    fn resize(&mut self, n: usize, x: E) -> bool {
        self.0.resize(n, x).is_ok()
    }
    fn extend_move(&mut self, xs: Vec<E>) -> bool {
        self.0.extend(xs).is_ok()
    }
    fn clear(&mut self) -> bool {
        self.0.clear();
        true
    }
    fn shrink(&mut self) -> bool {
        self.0.shrink_to_fit().is_ok()
    }
    fn reserve(&mut self, n: usize) -> bool {
        self.0.reserve(n).is_ok()
    }
    fn clone_obj(&self) -> Option<Box<dyn VecS<E>>> {
        Some(Box::new(SFast(self.0.clone())))
    }
    fn slice(&self) -> &[E] {
        self.0.as_slice()
    }
    fn len(&self) -> usize {
        self.0.len()
    }
    fn cap(&self) -> usize {
        self.0.capacity()
    }
}

/// FastVec<u64>: additionally the Copy-only bulk operations (SIMD paths from 64 bytes on)
struct SFastU64(FastVec<u64>);
impl VecS<u64> for SFastU64 {
    fn ops(&self) -> &'static [&'static str] {
        &["push", "pop", "insert", "remove", "resize", "extend_move", "extend_clone", "fill", "clear", "shrink", "reserve", "clone"]
    }
    fn push(&mut self, x: u64) -> bool {
        self.0.push(x).is_ok()
    }
    fn pop(&mut self) -> Option<u64> {
        self.0.pop()
    }
    fn insert(&mut self, i: usize, x: u64) -> bool {
        self.0.insert(i, x).is_ok()
    }
    fn remove(&mut self, i: usize) -> Option<u64> {
        self.0.remove(i).ok()
    }
    fn resize(&mut self, n: usize, x: u64) -> bool {
        self.0.resize(n, x).is_ok()
    }
    fn extend_move(&mut self, xs: Vec<u64>) -> bool {
        self.0.extend(xs).is_ok()
    }
    fn extend_clone(&mut self, xs: &[u64]) -> bool {
        self.0.extend_from_slice_fast(xs).is_ok()
    }
    fn fill(&mut self, a: usize, b: usize, x: u64) -> bool {
        self.0.fill_range_fast(a, b, x).is_ok()
    }
    fn clear(&mut self) -> bool {
        self.0.clear();
        true
    }
    fn shrink(&mut self) -> bool {
        self.0.shrink_to_fit().is_ok()
    }
    fn reserve(&mut self, n: usize) -> bool {
        self.0.reserve(n).is_ok()
    }
    fn clone_obj(&self) -> Option<Box<dyn VecS<u64>>> {
        Some(Box::new(SFastU64(self.0.clone())))
    }
    fn slice(&self) -> &[u64] {
        self.0.as_slice()
    }
    fn len(&self) -> usize {
        self.0.len()
    }
    fn cap(&self) -> usize {
        self.0.capacity()
    }
}

struct SVal32<E: Elem>(ValVec32<E>);
impl<E: Elem> VecS<E> for SVal32<E> {
    fn ops(&self) -> &'static [&'static str] {
        &["push", "pop", "set", "extend_clone", "clear", "reserve", "clone"]
    }
    fn push(&mut self, x: E) -> bool {
        self.0.push(x).is_ok()
    }
    fn pop(&mut self) -> Option<E> {
        self.0.pop()
    }
    fn set(&mut self, i: usize, x: E) -> bool {
        self.0.set(i as u32, x).is_ok()
    }
    fn extend_clone(&mut self, xs: &[E]) -> bool {
        self.0.extend_from_slice(xs).is_ok()
    }
    fn clear(&mut self) -> bool {
        self.0.clear();
        true
    }
    fn reserve(&mut self, n: usize) -> bool {
        self.0.reserve(n as u32).is_ok()
    }
    fn clone_obj(&self) -> Option<Box<dyn VecS<E>>> {
        Some(Box::new(SVal32(self.0.clone())))
    }
    fn slice(&self) -> &[E] {
        self.0.as_slice()
    }
    fn len(&self) -> usize {
        self.0.len() as usize
    }
    fn cap(&self) -> usize {
        self.0.capacity() as usize
    }
    fn iter_all(&self) -> Option<Vec<(i64, i64)>> {
        Some(self.0.iter().map(|e| e.pr()).collect())
    }
    fn get(&self, i: usize) -> Option<Option<(i64, i64)>> {
        Some(self.0.get(i as u32).map(|e| e.pr()))
    }
}

struct SCache<E: Elem>(CacheAlignedVec<E>);
impl<E: Elem> VecS<E> for SCache<E> {
    fn ops(&self) -> &'static [&'static str] {
        &["push", "pop", "clear", "truncate", "reserve"]
    }
    fn push(&mut self, x: E) -> bool {
        self.0.push(x).is_ok()
    }
    fn pop(&mut self) -> Option<E> {
        self.0.pop()
    }
    fn clear(&mut self) -> bool {
        self.0.clear();
        true
    }
    fn truncate(&mut self, n: usize) -> bool {
        self.0.truncate(n);
        true
    }
    fn reserve(&mut self, n: usize) -> bool {
        self.0.reserve(n).is_ok()
    }
    fn slice(&self) -> &[E] {
        self.0.as_slice()
    }
    fn len(&self) -> usize {
        self.0.len()
    }
    fn cap(&self) -> usize {
        self.0.capacity()
    }
    fn get(&self, i: usize) -> Option<Option<(i64, i64)>> {
        Some(self.0.get(i).map(|e| e.pr()))
    }
}

/// BumpVec borrows its allocator; the pair is kept together and torn down in order
struct SBump<E: Elem> {
    v: Option<zipora::memory::bump::BumpVec<'static, E>>,
    a: *mut BumpAllocator,
}
impl<E: Elem> SBump<E> {
    fn new(cap: usize) -> Option<SBump<E>> {
        let a = Box::into_raw(Box::new(BumpAllocator::new(4096).ok()?));
        let r: &'static BumpAllocator = unsafe { &*a };
        match zipora::memory::bump::BumpVec::new_in(r, cap) {
            Ok(v) => Some(SBump { v: Some(v), a }),
            Err(_) => {
                unsafe { drop(Box::from_raw(a)) };
                None
            }
        }
    }
}
impl<E: Elem> Drop for SBump<E> {
    fn drop(&mut self) {
        self.v.take();
        unsafe { drop(Box::from_raw(self.a)) };
    }
}
impl<E: Elem> VecS<E> for SBump<E> {
    fn ops(&self) -> &'static [&'static str] {
        &["push", "pop"]
    }
    fn push(&mut self, x: E) -> bool {
        self.v.as_mut().unwrap().push(x).is_ok()
    }
    fn pop(&mut self) -> Option<E> {
        self.v.as_mut().unwrap().pop()
    }
    fn slice(&self) -> &[E] {
        self.v.as_ref().unwrap().as_slice()
    }
    fn len(&self) -> usize {
        self.v.as_ref().unwrap().len()
    }
    fn cap(&self) -> usize {
        self.v.as_ref().unwrap().capacity()
    }
}

struct SPooled<E: Elem>(PooledVec<E>);
impl<E: Elem> VecS<E> for SPooled<E> {
    fn ops(&self) -> &'static [&'static str] {
        &["push"]
    }
    fn push(&mut self, x: E) -> bool {
        self.0.push(x).is_ok()
    }
    fn slice(&self) -> &[E] {
        self.0.as_slice()
    }
    fn len(&self) -> usize {
        self.0.len()
    }
    fn cap(&self) -> usize {
        self.0.capacity()
    }
}

/// MmapVec<u64>; backing files under /verif/work/C10-tmp, removed when the object goes
struct SMmap {
    v: Option<MmapVec<u64>>,
    path: PathBuf,
    icap: usize,
    growth: f64,
}
fn mmap_path() -> PathBuf {
    use std::sync::atomic::{AtomicUsize, Ordering};
    static N: AtomicUsize = AtomicUsize::new(0);
    let d = PathBuf::from("/verif/work/C10-tmp");
    let _ = std::fs::create_dir_all(&d);
    d.join(format!("v-{}-{}.mmv", std::process::id(), N.fetch_add(1, Ordering::SeqCst)))
}
impl SMmap {
    fn new(icap: usize, growth: f64) -> Option<SMmap> {
        let path = mmap_path();
        let cfg = MmapVecConfig::builder().with_initial_capacity(icap).with_growth_factor(growth).build();
        let v = MmapVec::<u64>::create(&path, cfg).ok()?;
        Some(SMmap { v: Some(v), path, icap, growth })
    }
    fn m(&mut self) -> &mut MmapVec<u64> {
        self.v.as_mut().unwrap()
    }
    fn r(&self) -> &MmapVec<u64> {
        self.v.as_ref().unwrap()
    }
}
impl Drop for SMmap {
    fn drop(&mut self) {
        self.v.take();
        let _ = std::fs::remove_file(&self.path);
    }
}
impl VecS<u64> for SMmap {
    fn ops(&self) -> &'static [&'static str] {
        &["push", "pop", "resize", "extend_move", "extend_clone", "fill", "clear", "truncate", "pop_tail", "shrink", "reserve", "clone"]
    }
    fn push(&mut self, x: u64) -> bool {
        self.m().push(x).is_ok()
    }
    fn pop(&mut self) -> Option<u64> {
        self.m().pop()
    }
    fn resize(&mut self, n: usize, x: u64) -> bool {
        self.m().resize(n, x).is_ok()
    }
    fn extend_move(&mut self, xs: Vec<u64>) -> bool {
        self.m().extend(xs).is_ok()
    }
    fn extend_clone(&mut self, xs: &[u64]) -> bool {
        self.m().push_bulk_simd(xs).is_ok()
    }
    fn fill(&mut self, a: usize, b: usize, x: u64) -> bool {
        self.m().fill_range_simd(a..b, x).is_ok()
    }
    fn clear(&mut self) -> bool {
        self.m().clear().is_ok()
    }
    fn truncate(&mut self, n: usize) -> bool {
        self.m().truncate(n).is_ok()
    }
    fn pop_tail(&mut self, n: usize) -> Option<Vec<u64>> {
        self.m().pop_bulk_simd(n).ok()
    }
    fn shrink(&mut self) -> bool {
        self.m().shrink_to_fit().is_ok()
    }
    fn reserve(&mut self, n: usize) -> bool {
        self.m().reserve(n).is_ok()
    }
    /// "clone" = a second MmapVec filled by copy_from_simd
    fn clone_obj(&self) -> Option<Box<dyn VecS<u64>>> {
        let mut n = SMmap::new(self.icap, self.growth)?;
        n.m().copy_from_simd(self.r()).ok()?;
        Some(Box::new(n))
    }
    fn slice(&self) -> &[u64] {
        self.r().as_slice()
    }
    fn len(&self) -> usize {
        self.r().len()
    }
    fn cap(&self) -> usize {
        self.r().capacity()
    }
    fn iter_all(&self) -> Option<Vec<(i64, i64)>> {
        Some(self.r().into_iter().map(|e| e.pr()).collect())
    }
    fn get(&self, i: usize) -> Option<Option<(i64, i64)>> {
        Some(self.r().get(i).map(|e| e.pr()))
    }
}

const VEC_EL: &[&str] = &[
    "fastvec:new", "fastvec:with_capacity_3", "valvec32:new", "valvec32:with_capacity_2", "cachevec:new", "cachevec:with_capacity_1",
    "bumpvec:cap_6", "bumpvec:cap_48", "pooledvec:new",
];
const VEC_U64: &[&str] = &["fastvec_u64:new", "mmapvec:cap_1_x2", "mmapvec:cap_3_golden"];

fn make_vec_el(name: &str) -> Option<Box<dyn VecS<El>>> {
    Some(match name {
        "fastvec:new" => Box::new(SFast(FastVec::<El>::new())),
        "fastvec:with_capacity_3" => Box::new(SFast(FastVec::<El>::with_capacity(3).ok()?)),
        "valvec32:new" => Box::new(SVal32(ValVec32::<El>::new())),
        "valvec32:with_capacity_2" => Box::new(SVal32(ValVec32::<El>::with_capacity(2).ok()?)),
        "cachevec:new" => Box::new(SCache(CacheAlignedVec::<El>::new())),
        "cachevec:with_capacity_1" => Box::new(SCache(CacheAlignedVec::<El>::with_capacity(1).ok()?)),
        "bumpvec:cap_6" => Box::new(SBump::<El>::new(6)?),
        "bumpvec:cap_48" => Box::new(SBump::<El>::new(48)?),
        "pooledvec:new" => Box::new(SPooled(PooledVec::<El>::new().ok()?)),
        _ => return None,
    })
}
fn make_vec_u64(name: &str) -> Option<Box<dyn VecS<u64>>> {
    Some(match name {
        "fastvec_u64:new" => Box::new(SFastU64(FastVec::<u64>::new())),
        "mmapvec:cap_1_x2" => Box::new(SMmap::new(1, 2.0)?),
        "mmapvec:cap_3_golden" => Box::new(SMmap::new(3, 1.618)?),
        _ => return None,
    })
}


// ================================================================ executing vector operations

fn fam_of(name: &str) -> String {
    name.split(':').next().unwrap_or("").to_string()
}
fn variant_of(name: &str) -> String {
    name.split(':').nth(1).unwrap_or("").to_string()
}

/// one operation of a history: op, object, index i, size n, values of the argument elements
#[derive(Clone, Debug, Default)]
pub struct Step {
    op: String,
    o: usize,
    i: usize,
    n: usize,
    xv: Vec<u32>,
}
impl Step {
    fn from_json(v: &Value) -> Step {
        Step {
            op: v["op"].as_str().unwrap_or("").to_string(),
            o: v["o"].as_u64().unwrap_or(1) as usize,
            i: v["i"].as_u64().unwrap_or(0) as usize,
            n: v["n"].as_u64().unwrap_or(0) as usize,
            xv: v["xv"].as_array().map(|a| a.iter().map(|x| x.as_u64().unwrap_or(0) as u32).collect()).unwrap_or_default(),
        }
    }
}

fn obs_vec<E: Elem>(s: &dyn VecS<E>) -> Value {
    let c: Vec<(i64, i64)> = s.slice().iter().map(|e| e.pr()).collect();
    let len = s.len();
    let it = s.iter_all();
    let mut gets = vec![];
    let mut has_get = false;
    for i in 0..=len {
        match s.get(i) {
            Some(g) => {
                has_get = true;
                gets.push(oej(g));
            }
            None => break,
        }
    }
    json!({"c": esj(&c), "len": len, "cap": s.cap().min(1 << 30), "has_it": it.is_some(), "it": esj(&it.unwrap_or_default()),
           "has_get": has_get, "gets": gets})
}

/// the objects of one run (object id = index + 1; a dropped object leaves a hole)
pub struct VecRun<E: Elem> {
    objs: Vec<Option<Box<dyn VecS<E>>>>,
    dead: bool,
}
impl<E: Elem> VecRun<E> {
    fn supports(&self, st: &Step) -> bool {
        if st.op == "drop" {
            return self.objs.get(st.o - 1).map_or(false, |x| x.is_some());
        }
        match self.objs.get(st.o - 1) {
            Some(Some(s)) => s.ops().contains(&st.op.as_str()),
            _ => false,
        }
    }
    /// execute one step on the real object and return the event.  A panic is data.
    fn exec(&mut self, st: &Step) -> Value {
        let o = st.o;
        let _ = (take_drops(), take_born());
        let nobj = self.objs.len();
        let objs = &mut self.objs;
        let r = guard(|| -> (Value, Option<usize>) {
            // returns the event and the object whose state is to be observed afterwards
            if st.op == "drop" {
                let b = objs[o - 1].take();
                drop(b);
                return (json!({"op":"drop","o":o}), None);
            }
            if st.op == "clone" {
                let c = objs[o - 1].as_ref().unwrap().clone_obj();
                return match c {
                    Some(c) => {
                        objs.push(Some(c));
                        (json!({"op":"clone","o":o,"o2":nobj + 1,"ok":true}), Some(nobj + 1))
                    }
                    None => (json!({"op":"clone","o":o,"o2":nobj + 1,"ok":false}), Some(o)),
                };
            }
            let s = objs[o - 1].as_mut().unwrap();
            let ev = match st.op.as_str() {
                "push" => {
                    let x = E::make(st.xv[0]);
                    let px = x.pr();
                    let ok = s.push(x);
                    json!({"op":"push","o":o,"x":ej(px),"ok":ok})
                }
                "pop" => {
                    let r = s.pop().map(|e| e.consume());
                    json!({"op":"pop","o":o,"r":oej(r)})
                }
                "insert" => {
                    let x = E::make(st.xv[0]);
                    let px = x.pr();
                    let ok = s.insert(st.i, x);
                    json!({"op":"insert","o":o,"i":st.i,"x":ej(px),"ok":ok})
                }
                "remove" => {
                    let r = s.remove(st.i).map(|e| e.consume());
                    json!({"op":"remove","o":o,"i":st.i,"ok":r.is_some(),"r":oej(r)})
                }
                "set" => {
                    let x = E::make(st.xv[0]);
                    let px = x.pr();
                    let ok = s.set(st.i, x);
                    json!({"op":"set","o":o,"i":st.i,"x":ej(px),"ok":ok})
                }
                "resize" => {
                    let x = E::make(st.xv[0]);
                    let px = x.pr();
                    let ok = s.resize(st.n, x);
                    json!({"op":"resize","o":o,"n":st.n,"x":ej(px),"ok":ok})
                }
                "extend_move" => {
                    let xs: Vec<E> = st.xv.iter().map(|&v| E::make(v)).collect();
                    let pxs: Vec<(i64, i64)> = xs.iter().map(|e| e.pr()).collect();
                    let ok = s.extend_move(xs);
                    json!({"op":"extend_move","o":o,"xs":esj(&pxs),"ok":ok})
                }
                "extend_clone" => {
                    let xs: Vec<E> = st.xv.iter().map(|&v| E::make(v)).collect();
                    let pxs: Vec<(i64, i64)> = xs.iter().map(|e| e.pr()).collect();
                    let ok = s.extend_clone(&xs);
                    // the source elements stay with the caller; they are disposed of outside the log
                    for e in xs {
                        e.consume();
                    }
                    json!({"op":"extend_clone","o":o,"xs":esj(&pxs),"ok":ok})
                }
                "fill" => {
                    let x = E::make(st.xv[0]);
                    let px = x.pr();
                    let ok = s.fill(st.i, st.n, x);
                    json!({"op":"fill","o":o,"a":st.i,"b":st.n,"x":ej(px),"ok":ok})
                }
                "clear" => json!({"op":"clear","o":o,"ok":s.clear()}),
                "truncate" => json!({"op":"truncate","o":o,"n":st.n,"ok":s.truncate(st.n)}),
                "pop_tail" => {
                    let r = s.pop_tail(st.n);
                    let ok = r.is_some();
                    let pr: Vec<(i64, i64)> = r.unwrap_or_default().into_iter().map(|e| e.consume()).collect();
                    json!({"op":"pop_tail","o":o,"n":st.n,"ok":ok,"r":esj(&pr)})
                }
                "shrink" => json!({"op":"maintenance","what":"shrink_to_fit","o":o,"ok":s.shrink()}),
                "reserve" => json!({"op":"maintenance","what":"reserve","o":o,"n":st.n,"ok":s.reserve(st.n)}),
                other => panic!("harness: unknown op {other}"),
            };
            (ev, Some(o))
        });
        let dropped = take_drops();
        let born = take_born();
        match r {
            Ok((mut ev, watch)) => {
                ev["dropped"] = esj(&dropped);
                ev["born"] = esj(&born);
                if let Some(w) = watch {
                    let objs = &self.objs;
                    match guard(|| obs_vec(objs[w - 1].as_ref().unwrap().as_ref())) {
                        Ok(p) => ev["post"] = p,
                        Err(msg) => {
                            self.dead = true;
                            return json!({"op":"panic","in":"observe","o":w,"msg":msg.chars().take(120).collect::<String>()});
                        }
                    }
                    if ev["op"] == "clone" && ev["ok"] == json!(true) {
                        ev["src"] = obs_vec(self.objs[o - 1].as_ref().unwrap().as_ref());
                    }
                }
                ev
            }
            Err(msg) => {
                self.dead = true;
                json!({"op":"panic","in":st.op,"o":o,"msg":msg.chars().take(120).collect::<String>()})
            }
        }
    }
    /// drop every remaining object (one event each); after a panic the objects are leaked instead
    fn finish(&mut self, out: &mut Vec<Value>) {
        if self.dead {
            for b in self.objs.drain(..) {
                std::mem::forget(b);
            }
            return;
        }
        for o in 1..=self.objs.len() {
            if self.objs[o - 1].is_some() {
                let e = self.exec(&Step { op: "drop".into(), o, ..Default::default() });
                out.push(e);
                if self.dead {
                    break;
                }
            }
        }
        if self.dead {
            for b in self.objs.drain(..) {
                std::mem::forget(b);
            }
        }
    }
}

fn sanitize(name: &str) -> String {
    name.chars().map(|c| if c.is_ascii_alphanumeric() { c } else { '_' }).collect()
}

// ---------------------------------------------------------------- B1: random vector histories

fn drive_vec<E: Elem>(a: &Args, name: &str, make: &dyn Fn(&str) -> Option<Box<dyn VecS<E>>>) -> Value {
    let mut tr = Tracer::new(&a.out, &format!("seq-{}", sanitize(name)));
    tr.max_events = 2500;
    let rng0 = Rng::new(a.seed);
    let regimes: Vec<(usize, usize, usize)> = if a.thorough() { vec![(60, 24, 10), (400, 6, 44)] } else { vec![(36, 4, 10), (110, 2, 40)] };
    let (mut nev, mut panics, mut refused, mut runs) = (0usize, 0usize, 0usize, 0usize);
    let mut nontrivial_runs = 0usize; // runs in which the container held something at some point
    let mut opcount: Map<String, Value> = Map::new();
    for (ri, &(steps, nruns, maxlen)) in regimes.iter().enumerate() {
        for run in 0..nruns {
            let mut rng = rng0.derive(&format!("{name}/{ri}/{run}"));
            reg_reset();
            let first = match guard(|| make(name)) {
                Ok(Some(s)) => s,
                _ => return json!({"constructed": false}),
            };
            let mut vr = VecRun::<E> { objs: vec![Some(first)], dead: false };
            tr.reset("seq", name, json!({"fam": fam_of(name), "variant": variant_of(name), "acct": E::ACCT, "regime": ri, "seed": a.seed}));
            runs += 1;
            let mut nextval = 1u32;
            let mut tail = vec![];
            let mut held = false;
            for _ in 0..steps {
                let live: Vec<usize> = (1..=vr.objs.len()).filter(|&o| vr.objs[o - 1].is_some()).collect();
                if live.is_empty() {
                    break;
                }
                let o = *rng.pick(&live);
                let len = vr.objs[o - 1].as_ref().unwrap().len();
                let ops = vr.objs[o - 1].as_ref().unwrap().ops();
                let weights = |op: &str| -> u64 {
                    match op {
                        "push" => if len >= maxlen { 2 } else { 30 },
                        "pop" => if len >= maxlen { 30 } else { 12 },
                        "insert" => if len >= maxlen { 1 } else { 10 },
                        "remove" => 9,
                        "set" => 7,
                        "resize" => 5,
                        "extend_move" | "extend_clone" => if len >= maxlen { 0 } else { 5 },
                        "fill" => 4,
                        "clear" => 2,
                        "truncate" => 4,
                        "pop_tail" => 4,
                        "shrink" => 3,
                        "reserve" => 3,
                        "clone" => if live.len() < 3 { 3 } else { 0 },
                        _ => 0,
                    }
                };
                let mut all: Vec<(&str, u64)> = ops.iter().map(|&op| (op, weights(op))).collect();
                if o > 1 {
                    all.push(("drop", 1));
                }
                let total: u64 = all.iter().map(|x| x.1).sum();
                let mut t = rng.below(total.max(1));
                let mut op = all[0].0;
                for (name, w) in &all {
                    if t < *w {
                        op = name;
                        break;
                    }
                    t -= w;
                }
                let mut st = Step { op: op.to_string(), o, ..Default::default() };
                let fresh = |k: usize, nextval: &mut u32| -> Vec<u32> {
                    (0..k).map(|_| { let v = *nextval; *nextval += 1; v }).collect()
                };
                match op {
                    "push" => st.xv = fresh(1, &mut nextval),
                    "insert" | "set" => {
                        st.i = rng.below(len as u64 + 2) as usize;
                        if rng.chance(1, 4) {
                            st.i = if rng.chance(1, 2) { 0 } else { len };
                        }
                        st.xv = fresh(1, &mut nextval);
                    }
                    "remove" => {
                        st.i = rng.below(len as u64 + 2) as usize;
                        if rng.chance(1, 4) {
                            st.i = if rng.chance(1, 2) { 0 } else { len.saturating_sub(1) };
                        }
                    }
                    "resize" => {
                        st.n = rng.below(len as u64 + 7) as usize;
                        st.xv = fresh(1, &mut nextval);
                    }
                    "extend_move" | "extend_clone" => {
                        let k = if rng.chance(1, 5) { rng.range(8, 12) } else { rng.below(4) } as usize;
                        st.xv = fresh(k, &mut nextval);
                    }
                    "fill" => {
                        let x = rng.below(len as u64 + 2) as usize;
                        let y = rng.below(len as u64 + 2) as usize;
                        st.i = x.min(y);
                        st.n = x.max(y);
                        if rng.chance(1, 8) {
                            std::mem::swap(&mut st.i, &mut st.n);
                        }
                        st.xv = fresh(1, &mut nextval);
                    }
                    "truncate" | "pop_tail" => st.n = rng.below(len as u64 + 3) as usize,
                    "reserve" => st.n = rng.below(20) as usize,
                    _ => {}
                }
                let e = vr.exec(&st);
                if e["op"] == "panic" {
                    panics += 1;
                }
                if e["ok"] == json!(false) {
                    refused += 1;
                }
                let c = opcount.entry(op.to_string()).or_insert(json!(0));
                *c = json!(c.as_u64().unwrap_or(0) + 1);
                if e["post"]["len"].as_u64().unwrap_or(0) > 0 {
                    held = true;
                }
                tr.ev(e);
                nev += 1;
                if vr.dead {
                    break;
                }
            }
            vr.finish(&mut tail);
            for e in tail {
                tr.ev(e);
                nev += 1;
            }
            if held {
                nontrivial_runs += 1;
            }
            tr.flush();
        }
    }
    tr.close();
    json!({"events": nev, "runs": runs, "nontrivial_runs": nontrivial_runs, "panics": panics, "refused": refused, "ops": opcount,
           "files": tr.files.iter().map(|p| p.display().to_string()).collect::<Vec<_>>()})
}

// ---------------------------------------------------------------- B2: TLC behaviours (vectors)

fn vals_of(c: &Value) -> Vec<i64> {
    c.as_array().map(|a| a.iter().map(|e| e[0].as_i64().unwrap_or(-9)).collect()).unwrap_or_default()
}
fn exp_vals(v: &Value) -> Vec<i64> {
    v.as_array().map(|a| a.iter().map(|e| e.as_i64().unwrap_or(-8)).collect()).unwrap_or_default()
}

/// a behaviour = JSON array of steps {op,o,i,n,xv, ok, r (option of value), st (values per object), na}
fn replay_vec<E: Elem>(a: &Args, name: &str, behaviours: &[Value], make: &dyn Fn(&str) -> Option<Box<dyn VecS<E>>>) -> Value {
    let mut tr = Tracer::new(&a.out, &format!("seq-b2-{}", sanitize(name)));
    tr.max_events = 2500;
    let mut rng = Rng::new(a.seed).derive("b2sample").derive(name);
    let sample_every = a.get_u64("sample", 400);
    let max_mismatch = a.get_u64("max_mismatch", 60) as usize;
    let stride = if fam_of(name) == "mmapvec" { a.get_u64("mmap_stride", 7) as usize } else { 1 };
    let (mut executed, mut unsupported, mut mism, mut written, mut refused) = (0usize, 0usize, 0usize, 0usize, 0usize);
    // mismatching behaviours are written for TLC up to `per_key` per kind of difference (operation + what differed)
    let per_key = a.get_u64("per_key", 4) as usize;
    let mut by_key: std::collections::BTreeMap<String, (usize, usize)> = Default::default();
    let mut nontrivial = 0usize; // executed behaviours in which some step changes the content TLC expects
    for (bi, b) in behaviours.iter().enumerate() {
        if stride > 1 && bi % stride != 0 {
            continue;
        }
        let steps = match b.as_array() {
            Some(x) => x,
            None => continue,
        };
        reg_reset();
        let first = match guard(|| make(name)) {
            Ok(Some(s)) => s,
            _ => break,
        };
        let mut vr = VecRun::<E> { objs: vec![Some(first)], dead: false };
        let mut evs: Vec<Value> = vec![];
        let mut differs = false;
        let mut key = String::new();
        // persistent differences are noted once: when an object's content starts to differ, when the surplus of
        // live elements changes
        let mut obj_bad: Vec<bool> = vec![false; 8];
        let mut live_off = 0i64;
        let mut skip = false;
        for sj in steps {
            let st = Step::from_json(sj);
            if !vr.supports(&st) {
                skip = true;
                break;
            }
            let e = vr.exec(&st);
            if vr.dead {
                differs = true;
                key = format!("{}:panic", st.op);
                evs.push(e);
                break;
            }
            // the key of a behaviour = the set of (operation, what differed) over all its steps
            let mut note = |what: &str, differs: &mut bool| {
                let k = format!("{}:{}", st.op, what);
                if !key.split('+').any(|x| x == k) {
                    if !key.is_empty() {
                        key.push('+');
                    }
                    key.push_str(&k);
                }
                *differs = true;
            };
            // equality with what TLC computed: success flag, returned value, content of every object,
            // number of live elements; the registry must have seen no destructor call on a dead element
            if let Some(ok) = e.get("ok").and_then(|x| x.as_bool()) {
                if !ok {
                    refused += 1;
                }
                if ok != sj["ok"].as_bool().unwrap_or(true) {
                    note("ok", &mut differs);
                }
            }
            if st.op == "pop" || st.op == "remove" {
                let got: Vec<i64> = vals_of(&e["r"]);
                if got != exp_vals(&sj["r"]) {
                    note("result", &mut differs);
                }
            }
            let exp_st = sj["st"].as_array().cloned().unwrap_or_default();
            for (oi, ob) in vr.objs.iter().enumerate() {
                if let Some(s) = ob {
                    let got: Vec<i64> = s.slice().iter().map(|x| x.pr().0).collect();
                    let bad = exp_st.get(oi).map(exp_vals) != Some(got);
                    if bad && !obj_bad[oi.min(7)] {
                        note("content", &mut differs);
                    }
                    if bad {
                        differs = true;
                    }
                    obj_bad[oi.min(7)] = bad;
                }
            }
            if E::ACCT {
                let off = reg_live() - sj["na"].as_i64().unwrap_or(-1);
                if off != live_off {
                    note("live", &mut differs);
                }
                if off != 0 {
                    differs = true;
                }
                live_off = off;
            }
            if E::ACCT && reg_bad() != 0 {
                note("dead_drop", &mut differs);
            }
            evs.push(e);
        }
        if skip {
            for bx in vr.objs.drain(..) {
                drop(bx);
            }
            unsupported += 1;
            continue;
        }
        vr.finish(&mut evs);
        if E::ACCT && !vr.dead && (reg_live() != 0 || reg_bad() != 0) {
            if reg_live() != live_off || reg_bad() != 0 {
                if !key.is_empty() {
                    key.push('+');
                }
                key.push_str("drop:live");
            }
            differs = true;
        }
        executed += 1;
        {
            let mut prev = json!(null);
            let mut changed = false;
            for (i, sj) in steps.iter().enumerate() {
                if i > 0 && sj["st"] != prev || i == 0 && sj["st"].as_array().map_or(false, |a| a.iter().any(|x| x.as_array().map_or(false, |y| !y.is_empty()))) {
                    changed = true;
                }
                prev = sj["st"].clone();
            }
            if changed {
                nontrivial += 1;
            }
        }
        if differs {
            mism += 1;
        }
        let sampled = rng.below(sample_every) == 0;
        let mut take = false;
        if differs {
            let k = by_key.entry(key.clone()).or_insert((0, 0));
            k.0 += 1;
            if k.1 < per_key && written < max_mismatch {
                k.1 += 1;
                take = true;
            }
        }
        if take || sampled {
            if take {
                written += 1;
            }
            tr.reset("seq", name, json!({"fam": fam_of(name), "variant": variant_of(name), "acct": E::ACCT, "b2": true, "behaviour": bi, "differs": differs}));
            for e in evs {
                tr.ev(e);
            }
            tr.flush();
        }
    }
    tr.close();
    let kinds: Map<String, Value> = by_key.iter().map(|(k, v)| (k.clone(), json!({"behaviours": v.0, "judged": v.1}))).collect();
    json!({"behaviours": executed, "nontrivial": nontrivial, "unsupported": unsupported, "mismatching": mism, "mismatch_traces_written": written, "refused": refused, "mismatch_kinds": kinds,
           "events": tr.total_events, "runs": tr.runs, "files": tr.files.iter().map(|p| p.display().to_string()).collect::<Vec<_>>()})
}

// ================================================================ queue subjects

/// Uniform view of a FIFO ring buffer under test (elements are always drop-counting boxes)
pub trait DqS {
    fn ops(&self) -> &'static [&'static str];
    fn push_back(&mut self, x: El) -> bool;
    fn pop_front(&mut self) -> Option<El>;
    fn push_bulk(&mut self, _xs: &[El]) -> Option<usize> {
        unreachable!()
    }
    fn pop_bulk(&mut self, _out: &mut [El]) -> usize {
        unreachable!()
    }
    fn reserve(&mut self, _n: usize) -> bool {
        unreachable!()
    }
    fn clear(&mut self);
    fn clone_obj(&self) -> Option<Box<dyn DqS>> {
        unreachable!()
    }
    fn len(&self) -> usize;
    fn cap(&self) -> usize;
    fn front(&self) -> Option<(i64, i64)>;
    fn back(&self) -> Option<(i64, i64)>;
    /// the Debug formatter walks the elements in order; El's Debug records each visit
    fn dbg(&self) -> String;
}

struct QFixed<const N: usize>(FixedCircularQueue<El, N>);
impl<const N: usize> DqS for QFixed<N> {
    fn ops(&self) -> &'static [&'static str] {
        &["push_back", "pop_front", "clear"]
    }
    fn push_back(&mut self, x: El) -> bool {
        self.0.push_back(x).is_ok()
    }
    fn pop_front(&mut self) -> Option<El> {
        self.0.pop_front()
    }
    fn clear(&mut self) {
        self.0.clear()
    }
    fn len(&self) -> usize {
        self.0.len()
    }
    fn cap(&self) -> usize {
        self.0.capacity()
    }
    fn front(&self) -> Option<(i64, i64)> {
        self.0.front().map(|e| e.proj())
    }
    fn back(&self) -> Option<(i64, i64)> {
        self.0.back().map(|e| e.proj())
    }
    fn dbg(&self) -> String {
        format!("{:?}", self.0)
    }
}

struct QAuto(AutoGrowCircularQueue<El>);
impl DqS for QAuto {
    fn ops(&self) -> &'static [&'static str] {
        &["push_back", "pop_front", "push_bulk", "pop_bulk", "reserve", "clear", "clone"]
    }
    fn push_back(&mut self, x: El) -> bool {
        self.0.push_back(x).is_ok()
    }
    fn pop_front(&mut self) -> Option<El> {
        self.0.pop_front()
    }
    fn push_bulk(&mut self, xs: &[El]) -> Option<usize> {
        self.0.push_bulk(xs).ok()
    }
    fn pop_bulk(&mut self, out: &mut [El]) -> usize {
        self.0.pop_bulk(out)
    }
    fn reserve(&mut self, n: usize) -> bool {
        self.0.reserve(n).is_ok()
    }
    fn clear(&mut self) {
        self.0.clear()
    }
    fn clone_obj(&self) -> Option<Box<dyn DqS>> {
        Some(Box::new(QAuto(self.0.clone())))
    }
    fn len(&self) -> usize {
        self.0.len()
    }
    fn cap(&self) -> usize {
        self.0.capacity()
    }
    fn front(&self) -> Option<(i64, i64)> {
        self.0.front().map(|e| e.proj())
    }
    fn back(&self) -> Option<(i64, i64)> {
        self.0.back().map(|e| e.proj())
    }
    fn dbg(&self) -> String {
        format!("{:?}", self.0)
    }
}

// capacities that are and are not powers of two (index arithmetic by mask versus by remainder)
const DQ_FIXED: &[&str] = &["fixedq:1", "fixedq:2", "fixedq:3", "fixedq:4", "fixedq:5", "fixedq:6", "fixedq:7", "fixedq:8", "fixedq:16"];
const DQ_GROW: &[&str] = &[
    "autogrow:new", "autogrow:cap_1", "autogrow:cap_2", "autogrow:cap_3", "autogrow:cap_4", "autogrow:cap_5", "autogrow:cap_6",
    "autogrow:cap_7", "autogrow:cap_8",
];
fn fixed_cap(name: &str) -> usize {
    if fam_of(name) == "fixedq" {
        variant_of(name).parse().unwrap_or(0)
    } else {
        0
    }
}
fn no_grow_limit(_name: &str) -> usize {
    0
}
fn make_dq(name: &str) -> Option<Box<dyn DqS>> {
    let capn = || variant_of(name).trim_start_matches("cap_").parse::<usize>().unwrap_or(4);
    Some(match fam_of(name).as_str() {
        "fixedq" => match fixed_cap(name) {
            1 => Box::new(QFixed::<1>(FixedCircularQueue::new())),
            2 => Box::new(QFixed::<2>(FixedCircularQueue::new())),
            3 => Box::new(QFixed::<3>(FixedCircularQueue::new())),
            4 => Box::new(QFixed::<4>(FixedCircularQueue::new())),
            5 => Box::new(QFixed::<5>(FixedCircularQueue::new())),
            6 => Box::new(QFixed::<6>(FixedCircularQueue::new())),
            7 => Box::new(QFixed::<7>(FixedCircularQueue::new())),
            8 => Box::new(QFixed::<8>(FixedCircularQueue::new())),
            16 => Box::new(QFixed::<16>(FixedCircularQueue::new())),
            _ => return None,
        },
        "autogrow" => {
            if variant_of(name) == "new" {
                Box::new(QAuto(AutoGrowCircularQueue::new()))
            } else {
                Box::new(QAuto(AutoGrowCircularQueue::with_capacity(capn())))
            }
        }
        _ => return None,
    })
}

fn obs_dq(s: &dyn DqS) -> Value {
    let _ = take_visit();
    let _text = s.dbg();
    let c = take_visit();
    json!({"len": s.len(), "cap": s.cap().min(1 << 30), "front": oej(s.front()), "back": oej(s.back()), "has_c": true, "c": esj(&c)})
}

pub struct DqRun {
    objs: Vec<Option<Box<dyn DqS>>>,
    dead: bool,
}
impl DqRun {
    fn supports(&self, st: &Step) -> bool {
        if st.op == "drop" {
            return self.objs.get(st.o - 1).map_or(false, |x| x.is_some());
        }
        match self.objs.get(st.o - 1) {
            Some(Some(s)) => s.ops().contains(&st.op.as_str()),
            _ => false,
        }
    }
    fn exec(&mut self, st: &Step) -> Value {
        let o = st.o;
        let _ = (take_drops(), take_born());
        let nobj = self.objs.len();
        let objs = &mut self.objs;
        let r = guard(|| -> (Value, Option<usize>) {
            if st.op == "drop" {
                let cap0 = objs[o - 1].as_ref().unwrap().cap();
                let b = objs[o - 1].take();
                drop(b);
                return (json!({"op":"drop","o":o,"cap0":cap0.min(1 << 30)}), None);
            }
            if st.op == "clone" {
                let cap0 = objs[o - 1].as_ref().unwrap().cap();
                let c = objs[o - 1].as_ref().unwrap().clone_obj().unwrap();
                objs.push(Some(c));
                return (json!({"op":"clone","o":o,"o2":nobj + 1,"cap0":cap0.min(1 << 30)}), Some(nobj + 1));
            }
            let s = objs[o - 1].as_mut().unwrap();
            let cap0 = s.cap().min(1 << 30);
            let mut ev = match st.op.as_str() {
                "push_back" => {
                    let x = El::new(st.xv[0]);
                    let px = x.proj();
                    let ok = s.push_back(x);
                    json!({"op":"push_back","o":o,"x":ej(px),"ok":ok})
                }
                "pop_front" => {
                    let r = s.pop_front().map(|e| e.consume());
                    json!({"op":"pop_front","o":o,"r":oej(r)})
                }
                "push_bulk" => {
                    let xs: Vec<El> = st.xv.iter().map(|&v| El::new(v)).collect();
                    let pxs: Vec<(i64, i64)> = xs.iter().map(|e| e.proj()).collect();
                    let r = s.push_bulk(&xs);
                    for e in xs {
                        e.consume();
                    }
                    json!({"op":"push_bulk","o":o,"xs":esj(&pxs),"ok":r.is_some(),"r":r.unwrap_or(0)})
                }
                "pop_bulk" => {
                    // the caller's buffer holds filler elements; overwritten fillers are destroyed by the call
                    let mut out: Vec<El> = st.xv.iter().map(|&v| El::new(v)).collect();
                    let fill: Vec<(i64, i64)> = out.iter().map(|e| e.proj()).collect();
                    let r = s.pop_bulk(&mut out);
                    let after: Vec<(i64, i64)> = out.into_iter().map(|e| e.consume()).collect();
                    json!({"op":"pop_bulk","o":o,"fill":esj(&fill),"out":esj(&after),"r":r})
                }
                "reserve" => json!({"op":"reserve","o":o,"n":st.n,"ok":s.reserve(st.n)}),
                "clear" => {
                    s.clear();
                    json!({"op":"clear","o":o})
                }
                other => panic!("harness: unknown op {other}"),
            };
            ev["cap0"] = json!(cap0);
            (ev, Some(o))
        });
        let dropped = take_drops();
        let born = take_born();
        match r {
            Ok((mut ev, watch)) => {
                ev["dropped"] = esj(&dropped);
                ev["born"] = esj(&born);
                if let Some(w) = watch {
                    let objs = &self.objs;
                    match guard(|| obs_dq(objs[w - 1].as_ref().unwrap().as_ref())) {
                        Ok(p) => ev["post"] = p,
                        Err(msg) => {
                            self.dead = true;
                            return json!({"op":"panic","in":"observe","o":w,"msg":msg.chars().take(120).collect::<String>()});
                        }
                    }
                    if ev["op"] == "clone" {
                        ev["src"] = obs_dq(self.objs[o - 1].as_ref().unwrap().as_ref());
                    }
                }
                ev
            }
            Err(msg) => {
                self.dead = true;
                json!({"op":"panic","in":st.op,"o":o,"msg":msg.chars().take(120).collect::<String>()})
            }
        }
    }
    fn finish(&mut self, out: &mut Vec<Value>) {
        if !self.dead {
            for o in 1..=self.objs.len() {
                if self.objs[o - 1].is_some() {
                    let e = self.exec(&Step { op: "drop".into(), o, ..Default::default() });
                    out.push(e);
                    if self.dead {
                        break;
                    }
                }
            }
        }
        if self.dead {
            for b in self.objs.drain(..) {
                std::mem::forget(b);
            }
        }
    }
}

fn dq_reset_cfg(name: &str, extra: Value) -> Value {
    let mut v = json!({"fam": fam_of(name), "variant": variant_of(name), "acct": true, "fixedcap": fixed_cap(name)});
    if let (Some(o), Some(c)) = (v.as_object_mut(), extra.as_object()) {
        for (k, x) in c {
            o.insert(k.clone(), x.clone());
        }
    }
    v
}

// ---------------------------------------------------------------- B1: queues

/// systematic scenario for a growable queue: put the head at offset h, fill to m elements, then force
/// growth through push_back / push_bulk / reserve, then drain through pop_bulk and pop_front
fn wrapgrow_steps(h: usize, m: usize, mode: usize, nextval: &mut u32) -> Vec<Step> {
    let mut v = vec![];
    let mut fresh = |k: usize| -> Vec<u32> {
        (0..k).map(|_| { let x = *nextval; *nextval += 1; x }).collect()
    };
    for _ in 0..h {
        v.push(Step { op: "push_back".into(), o: 1, xv: fresh(1), ..Default::default() });
        v.push(Step { op: "pop_front".into(), o: 1, ..Default::default() });
    }
    for _ in 0..m {
        v.push(Step { op: "push_back".into(), o: 1, xv: fresh(1), ..Default::default() });
    }
    match mode {
        0 => {
            for _ in 0..3 {
                v.push(Step { op: "push_back".into(), o: 1, xv: fresh(1), ..Default::default() });
            }
        }
        1 => v.push(Step { op: "push_bulk".into(), o: 1, xv: fresh(3), ..Default::default() }),
        2 => {
            v.push(Step { op: "reserve".into(), o: 1, n: m + 2, ..Default::default() });
            v.push(Step { op: "push_back".into(), o: 1, xv: fresh(1), ..Default::default() });
        }
        _ => {
            v.push(Step { op: "clone".into(), o: 1, ..Default::default() });
            v.push(Step { op: "push_back".into(), o: 2, xv: fresh(1), ..Default::default() });
            v.push(Step { op: "pop_front".into(), o: 2, ..Default::default() });
        }
    }
    v.push(Step { op: "pop_bulk".into(), o: 1, xv: fresh(2), ..Default::default() });
    v.push(Step { op: "push_back".into(), o: 1, xv: fresh(1), ..Default::default() });
    v.push(Step { op: "pop_bulk".into(), o: 1, xv: fresh(m + 4), ..Default::default() });
    v.push(Step { op: "pop_front".into(), o: 1, ..Default::default() });
    v
}

fn drive_dq(a: &Args, name: &str) -> Value {
    let mut tr = Tracer::new(&a.out, &format!("dq-{}", sanitize(name)));
    tr.max_events = 2500;
    let rng0 = Rng::new(a.seed);
    let fam = fam_of(name);
    let (mut nev, mut panics, mut refused, mut runs) = (0usize, 0usize, 0usize, 0usize);
    let mut nontrivial_runs = 0usize;
    let mut opcount: Map<String, Value> = Map::new();
    let mut run_steps = |tr: &mut Tracer, steps: Option<Vec<Step>>, nsteps: usize, rng: &mut Rng, tag: Value| {
        reg_reset();
        let first = match guard(|| make_dq(name)) {
            Ok(Some(s)) => s,
            _ => return,
        };
        let mut dr = DqRun { objs: vec![Some(first)], dead: false };
        tr.reset("deque", name, dq_reset_cfg(name, tag));
        runs += 1;
        let mut nextval = 1u32;
        let limit = no_grow_limit(name);
        let mut it = steps.map(|s| s.into_iter());
        let mut held = false;
        for _ in 0..nsteps {
            let st = match &mut it {
                Some(i) => match i.next() {
                    Some(s) => s,
                    None => break,
                },
                None => {
                    let live: Vec<usize> = (1..=dr.objs.len()).filter(|&o| dr.objs[o - 1].is_some()).collect();
                    let o = *rng.pick(&live);
                    let s = dr.objs[o - 1].as_ref().unwrap();
                    let (len, cap) = (s.len(), s.cap());
                    let near_full = len + 2 >= cap;
                    let phase_fill = (rng.below(40) as usize) < 24;
                    let w = |op: &str| -> u64 {
                        match op {
                            "push_back" => if limit > 0 && len >= limit { 0 } else if phase_fill || near_full { 40 } else { 25 },
                            "pop_front" => if len > 24 { 60 } else { 28 },
                            "push_bulk" => if len > 24 { 0 } else { 8 },
                            "pop_bulk" => 8,
                            "reserve" => 3,
                            "clear" => 2,
                            "clone" => if live.len() < 3 { 3 } else { 0 },
                            _ => 0,
                        }
                    };
                    let mut all: Vec<(&str, u64)> = s.ops().iter().map(|&op| (op, w(op))).collect();
                    if o > 1 {
                        all.push(("drop", 2));
                    }
                    let total: u64 = all.iter().map(|x| x.1).sum();
                    let mut t = rng.below(total.max(1));
                    let mut op = all[0].0;
                    for (n, wt) in &all {
                        if t < *wt {
                            op = n;
                            break;
                        }
                        t -= wt;
                    }
                    let mut st = Step { op: op.to_string(), o, ..Default::default() };
                    let mut fresh = |k: usize| -> Vec<u32> {
                        (0..k).map(|_| { let x = nextval; nextval += 1; x }).collect()
                    };
                    match op {
                        "push_back" => st.xv = fresh(1),
                        "push_bulk" => st.xv = fresh(rng.below(6) as usize),
                        "pop_bulk" => st.xv = fresh(rng.below(6) as usize),
                        "reserve" => st.n = rng.below(12) as usize,
                        _ => {}
                    }
                    st
                }
            };
            if !dr.supports(&st) {
                break;
            }
            let e = dr.exec(&st);
            if e["op"] == "panic" {
                panics += 1;
            }
            if e["ok"] == json!(false) {
                refused += 1;
            }
            let c = opcount.entry(st.op.clone()).or_insert(json!(0));
            *c = json!(c.as_u64().unwrap_or(0) + 1);
            if e["post"]["len"].as_u64().unwrap_or(0) > 0 {
                held = true;
            }
            tr.ev(e);
            nev += 1;
            if dr.dead {
                break;
            }
        }
        let mut tail = vec![];
        dr.finish(&mut tail);
        for e in tail {
            tr.ev(e);
            nev += 1;
        }
        if held {
            nontrivial_runs += 1;
        }
        tr.flush();
    };
    // random histories
    let cap_hint = match fam.as_str() {
        "fixedq" => fixed_cap(name),
        _ => 8,
    };
    let (nruns, steps) = if a.thorough() { (16, 60 + 12 * cap_hint) } else { (3, 30 + 5 * cap_hint) };
    for run in 0..nruns {
        let mut rng = rng0.derive(&format!("{name}/r/{run}"));
        run_steps(&mut tr, None, steps, &mut rng, json!({"kind": "random", "seed": a.seed}));
    }
    // growth while wrapped at every head offset (growable queues)
    // (quick tier: only for the requested capacities that are not rounded up - cap_3 behaves as cap_4, cap_5..7 as cap_8)
    let c0 = if fam == "autogrow" { make_dq(name).map_or(0, |q| q.cap()) } else { 0 };
    let requested = variant_of(name).trim_start_matches("cap_").parse::<usize>().unwrap_or(c0);
    if fam == "autogrow" && (a.thorough() || requested == c0) {
        let mut nextval = 1u32;
        let modes: Vec<usize> = if a.thorough() { vec![0, 1, 2, 3] } else { vec![0, 1, 2, 3] };
        for h in 0..c0 {
            for (mi, &mode) in modes.iter().enumerate() {
                // quick: each head offset with every growth mode, fill level alternating
                let ms: Vec<usize> = if a.thorough() { vec![c0.saturating_sub(2), c0 - 1] } else { vec![if (h + mi) % 2 == 0 { c0 - 1 } else { c0.saturating_sub(2) }] };
                for m in ms {
                    let steps = wrapgrow_steps(h, m, mode, &mut nextval);
                    let n = steps.len();
                    let mut rng = rng0.derive("unused");
                    run_steps(&mut tr, Some(steps), n, &mut rng, json!({"kind": "wrapgrow", "h": h, "m": m, "mode": mode}));
                }
            }
        }
    }
    tr.close();
    json!({"events": nev, "runs": runs, "nontrivial_runs": nontrivial_runs, "panics": panics, "refused": refused, "ops": opcount,
           "files": tr.files.iter().map(|p| p.display().to_string()).collect::<Vec<_>>()})
}

// ---------------------------------------------------------------- B2: TLC behaviours (queues)

/// a behaviour = JSON array of steps {op,o,n,xv, cap, ok, r, st (values per object), na}
fn replay_dq(a: &Args, name: &str, behaviours: &[Value]) -> Value {
    let mut tr = Tracer::new(&a.out, &format!("dq-b2-{}", sanitize(name)));
    tr.max_events = 2500;
    let mut rng = Rng::new(a.seed).derive("b2sample").derive(name);
    let sample_every = a.get_u64("sample", 400);
    let max_mismatch = a.get_u64("max_mismatch", 60) as usize;
    let fcap = fixed_cap(name);
    let (mut executed, mut unsupported, mut mism, mut written, mut refused) = (0usize, 0usize, 0usize, 0usize, 0usize);
    // mismatching behaviours are written for TLC up to `per_key` per kind of difference (operation + what differed)
    let per_key = a.get_u64("per_key", 4) as usize;
    let mut by_key: std::collections::BTreeMap<String, (usize, usize)> = Default::default();
    let mut nontrivial = 0usize; // executed behaviours in which some step changes the content TLC expects
    for (bi, b) in behaviours.iter().enumerate() {
        let steps = match b.as_array() {
            Some(x) => x,
            None => continue,
        };
        // behaviours generated for a fixed capacity are for the queue of that capacity only
        if steps.first().map_or(0, |s| s["cap"].as_u64().unwrap_or(0) as usize) != fcap {
            continue;
        }
        reg_reset();
        let first = match guard(|| make_dq(name)) {
            Ok(Some(s)) => s,
            _ => break,
        };
        let mut dr = DqRun { objs: vec![Some(first)], dead: false };
        let mut evs: Vec<Value> = vec![];
        let mut differs = false;
        let mut key = String::new();
        // persistent differences are noted once: when an object's content starts to differ, when the surplus of
        // live elements changes
        let mut obj_bad: Vec<bool> = vec![false; 8];
        let mut live_off = 0i64;
        let mut skip = false;
        for sj in steps {
            let st = Step::from_json(sj);
            if !dr.supports(&st) {
                skip = true;
                break;
            }
            let e = dr.exec(&st);
            if dr.dead {
                differs = true;
                key = format!("{}:panic", st.op);
                evs.push(e);
                break;
            }
            // the key of a behaviour = the set of (operation, what differed) over all its steps
            let mut note = |what: &str, differs: &mut bool| {
                let k = format!("{}:{}", st.op, what);
                if !key.split('+').any(|x| x == k) {
                    if !key.is_empty() {
                        key.push('+');
                    }
                    key.push_str(&k);
                }
                *differs = true;
            };
            if let Some(ok) = e.get("ok").and_then(|x| x.as_bool()) {
                if !ok {
                    refused += 1;
                }
                if ok != sj["ok"].as_bool().unwrap_or(true) {
                    note("ok", &mut differs);
                }
            }
            if st.op == "pop_front" && vals_of(&e["r"]) != exp_vals(&sj["r"]) {
                note("result", &mut differs);
            }
            if st.op == "pop_bulk" && e["r"].as_i64() != sj["rn"].as_i64() {
                note("result", &mut differs);
            }
            let exp_st = sj["st"].as_array().cloned().unwrap_or_default();
            for (oi, ob) in dr.objs.iter().enumerate() {
                if let Some(s) = ob {
                    let _ = take_visit();
                    let _t = s.dbg();
                    let got: Vec<i64> = take_visit().iter().map(|p| p.0).collect();
                    let bad_len = exp_st.get(oi).map(|x| x.as_array().map_or(0, |y| y.len())) != Some(s.len());
                    let bad = bad_len || exp_st.get(oi).map(exp_vals) != Some(got);
                    if bad && !obj_bad[oi.min(7)] {
                        note(if bad_len { "len" } else { "content" }, &mut differs);
                    }
                    if bad {
                        differs = true;
                    }
                    obj_bad[oi.min(7)] = bad;
                }
            }
            {
                let off = reg_live() - sj["na"].as_i64().unwrap_or(-1);
                if off != live_off {
                    note("live", &mut differs);
                }
                if off != 0 {
                    differs = true;
                }
                live_off = off;
            }
            if reg_bad() != 0 {
                note("dead_drop", &mut differs);
            }
            evs.push(e);
        }
        if skip {
            for bx in dr.objs.drain(..) {
                drop(bx);
            }
            unsupported += 1;
            continue;
        }
        dr.finish(&mut evs);
        if !dr.dead && (reg_live() != 0 || reg_bad() != 0) {
            if reg_live() != live_off || reg_bad() != 0 {
                if !key.is_empty() {
                    key.push('+');
                }
                key.push_str("drop:live");
            }
            differs = true;
        }
        executed += 1;
        {
            let mut prev = json!(null);
            let mut changed = false;
            for (i, sj) in steps.iter().enumerate() {
                if i > 0 && sj["st"] != prev || i == 0 && sj["st"].as_array().map_or(false, |a| a.iter().any(|x| x.as_array().map_or(false, |y| !y.is_empty()))) {
                    changed = true;
                }
                prev = sj["st"].clone();
            }
            if changed {
                nontrivial += 1;
            }
        }
        if differs {
            mism += 1;
        }
        let sampled = rng.below(sample_every) == 0;
        let mut take = false;
        if differs {
            let k = by_key.entry(key.clone()).or_insert((0, 0));
            k.0 += 1;
            if k.1 < per_key && written < max_mismatch {
                k.1 += 1;
                take = true;
            }
        }
        if take || sampled {
            if take {
                written += 1;
            }
            tr.reset("deque", name, dq_reset_cfg(name, json!({"b2": true, "behaviour": bi, "differs": differs})));
            for e in evs {
                tr.ev(e);
            }
            tr.flush();
        }
    }
    tr.close();
    let kinds: Map<String, Value> = by_key.iter().map(|(k, v)| (k.clone(), json!({"behaviours": v.0, "judged": v.1}))).collect();
    json!({"behaviours": executed, "nontrivial": nontrivial, "unsupported": unsupported, "mismatching": mism, "mismatch_traces_written": written, "refused": refused, "mismatch_kinds": kinds,
           "events": tr.total_events, "runs": tr.runs, "files": tr.files.iter().map(|p| p.display().to_string()).collect::<Vec<_>>()})
}

// ================================================================ string vector subjects

/// Uniform view of a string vector under test.
pub trait StrS {
    fn ops(&self) -> &'static [&'static str];
    /// Ok(Some(index)) / Ok(None) (no index returned) / Err(()) refused
    fn push(&mut self, s: &str) -> Result<Option<usize>, ()>;
    fn get(&self, i: usize) -> Option<Vec<u8>>;
    fn len(&self) -> usize;
    fn iter_all(&self) -> Option<Vec<Vec<u8>>> {
        None
    }
    fn sort(&mut self, _kind: &str) -> bool {
        unreachable!()
    }
    /// the sorted view, when the object offers one right now
    fn sorted_view(&self) -> Option<Vec<Vec<u8>>> {
        None
    }
    fn clear(&mut self) {
        unreachable!()
    }
    fn clone_obj(&self) -> Option<Box<dyn StrS>> {
        unreachable!()
    }
    fn find(&self, _s: &str) -> Option<usize> {
        unreachable!()
    }
    fn bsearch(&self, _s: &str) -> Result<usize, usize> {
        unreachable!()
    }
    fn maintenance(&mut self) {
        unreachable!()
    }
}

struct TSortable(SortableStrVec);
impl StrS for TSortable {
    fn ops(&self) -> &'static [&'static str] {
        &["push", "sort", "clear", "clone", "bsearch", "maintenance"]
    }
    fn push(&mut self, s: &str) -> Result<Option<usize>, ()> {
        self.0.push_str(s).map(Some).map_err(|_| ())
    }
    fn get(&self, i: usize) -> Option<Vec<u8>> {
        self.0.get(i).map(|s| s.as_bytes().to_vec())
    }
    fn len(&self) -> usize {
        self.0.len()
    }
    fn iter_all(&self) -> Option<Vec<Vec<u8>>> {
        Some(self.0.iter().map(|s| s.as_bytes().to_vec()).collect())
    }
    fn sort(&mut self, kind: &str) -> bool {
        match kind {
            "lex" => self.0.sort_lexicographic().is_ok(),
            "radix" => self.0.radix_sort().is_ok(),
            "by" => self.0.sort_by(|a, b| a.cmp(b)).is_ok(),
            _ => self.0.sort_by_length().is_ok(),
        }
    }
    fn sorted_view(&self) -> Option<Vec<Vec<u8>>> {
        // get_sorted answers None while the object is not sorted (an empty object has no view to show)
        if self.0.len() == 0 || self.0.get_sorted(0).is_none() {
            return None;
        }
        Some(self.0.iter_sorted().map(|s| s.as_bytes().to_vec()).collect())
    }
    fn clear(&mut self) {
        self.0.clear()
    }
    fn clone_obj(&self) -> Option<Box<dyn StrS>> {
        Some(Box::new(TSortable(self.0.clone())))
    }
    fn bsearch(&self, s: &str) -> Result<usize, usize> {
        self.0.binary_search(s)
    }
    fn maintenance(&mut self) {
        self.0.reserve(3);
        self.0.shrink_to_fit();
    }
}

struct TFixed<const N: usize>(FixedLenStrVec<N>);
impl<const N: usize> StrS for TFixed<N> {
    fn ops(&self) -> &'static [&'static str] {
        &["push", "find"]
    }
    fn push(&mut self, s: &str) -> Result<Option<usize>, ()> {
        self.0.push(s).map(|_| None).map_err(|_| ())
    }
    fn get(&self, i: usize) -> Option<Vec<u8>> {
        let a = self.0.get(i).map(|s| s.as_bytes().to_vec());
        let b = self.0.get_bytes(i).map(|s| s.to_vec());
        if a == b { a } else { Some(b"<get and get_bytes differ>".to_vec()) }
    }
    fn len(&self) -> usize {
        self.0.len()
    }
    fn find(&self, s: &str) -> Option<usize> {
        self.0.find_exact(s)
    }
}

struct TZo(ZoSortedStrVec);
impl StrS for TZo {
    fn ops(&self) -> &'static [&'static str] {
        &["find", "bsearch"]
    }
    fn push(&mut self, _s: &str) -> Result<Option<usize>, ()> {
        Err(())
    }
    fn get(&self, i: usize) -> Option<Vec<u8>> {
        self.0.get(i).map(|s| s.as_bytes().to_vec())
    }
    fn len(&self) -> usize {
        self.0.len()
    }
    fn iter_all(&self) -> Option<Vec<Vec<u8>>> {
        Some(self.0.iter().map(|s| s.as_bytes().to_vec()).collect())
    }
    fn find(&self, s: &str) -> Option<usize> {
        // contains() and binary_search() must agree; the index comes from binary_search
        match (self.0.binary_search(s), self.0.contains(s)) {
            (Ok(i), true) => Some(i),
            (Err(_), false) => None,
            _ => Some(usize::MAX >> 40),
        }
    }
    fn bsearch(&self, s: &str) -> Result<usize, usize> {
        self.0.binary_search(s)
    }
}

struct TBit32(BitPackedStringVec32);
impl StrS for TBit32 {
    fn ops(&self) -> &'static [&'static str] {
        &["push", "find", "clone"]
    }
    fn push(&mut self, s: &str) -> Result<Option<usize>, ()> {
        self.0.push(s).map(Some).map_err(|_| ())
    }
    fn get(&self, i: usize) -> Option<Vec<u8>> {
        let a = self.0.get(i).map(|s| s.as_bytes().to_vec());
        let b = self.0.get_bytes(i).map(|s| s.to_vec());
        if a == b { a } else { Some(b"<get and get_bytes differ>".to_vec()) }
    }
    fn len(&self) -> usize {
        self.0.len()
    }
    fn iter_all(&self) -> Option<Vec<Vec<u8>>> {
        Some(self.0.iter().map(|s| s.as_bytes().to_vec()).collect())
    }
    fn find(&self, s: &str) -> Option<usize> {
        self.0.find_simd(s)
    }
    fn clone_obj(&self) -> Option<Box<dyn StrS>> {
        Some(Box::new(TBit32(self.0.clone())))
    }
}
struct TBit64(BitPackedStringVec64);
impl StrS for TBit64 {
    fn ops(&self) -> &'static [&'static str] {
        &["push", "find", "clone"]
    }
    fn push(&mut self, s: &str) -> Result<Option<usize>, ()> {
        self.0.push(s).map(Some).map_err(|_| ())
    }
    fn get(&self, i: usize) -> Option<Vec<u8>> {
        let a = self.0.get(i).map(|s| s.as_bytes().to_vec());
        let b = self.0.get_bytes(i).map(|s| s.to_vec());
        if a == b { a } else { Some(b"<get and get_bytes differ>".to_vec()) }
    }
    fn len(&self) -> usize {
        self.0.len()
    }
    fn iter_all(&self) -> Option<Vec<Vec<u8>>> {
        Some(self.0.iter().map(|s| s.as_bytes().to_vec()).collect())
    }
    fn find(&self, s: &str) -> Option<usize> {
        self.0.find_simd(s)
    }
    fn clone_obj(&self) -> Option<Box<dyn StrS>> {
        Some(Box::new(TBit64(self.0.clone())))
    }
}

struct TAdv(AdvancedStringVec);
impl StrS for TAdv {
    fn ops(&self) -> &'static [&'static str] {
        &["push", "clone"]
    }
    fn push(&mut self, s: &str) -> Result<Option<usize>, ()> {
        self.0.push(s).map(Some).map_err(|_| ())
    }
    fn get(&self, i: usize) -> Option<Vec<u8>> {
        self.0.get(i).map(|s| s.as_bytes().to_vec())
    }
    fn len(&self) -> usize {
        self.0.len()
    }
    fn iter_all(&self) -> Option<Vec<Vec<u8>>> {
        Some(self.0.iter().map(|s| s.as_bytes().to_vec()).collect())
    }
    fn clone_obj(&self) -> Option<Box<dyn StrS>> {
        Some(Box::new(TAdv(self.0.clone())))
    }
}

const STR_SUBJECTS: &[&str] = &[
    "sortable:new", "sortable:with_capacity_2", "fixedlen:4", "fixedlen:8", "fixedlen:16", "fixedlen:64", "zo:from_strings", "zo:from_sorted",
    "zo:from_sortable", "bitpacked32:new", "bitpacked32:memory_optimized", "bitpacked64:new", "bitpacked64:with_capacity_1", "advanced:level_0",
    "advanced:level_1", "advanced:level_2", "advanced:level_3",
];

fn make_str(name: &str) -> Option<Box<dyn StrS>> {
    let adv = |level: u8| {
        let mut c = AdvancedStringConfig::default();
        c.compression_level = level;
        c.initial_arena_capacity = 16;
        c.initial_index_capacity = 2;
        Box::new(TAdv(AdvancedStringVec::with_config(c)))
    };
    Some(match name {
        "sortable:new" => Box::new(TSortable(SortableStrVec::new())),
        "sortable:with_capacity_2" => Box::new(TSortable(SortableStrVec::with_capacity(2))),
        "fixedlen:4" => Box::new(TFixed::<4>(FixedLenStrVec::new())),
        "fixedlen:8" => Box::new(TFixed::<8>(FixedLenStrVec::with_capacity(2))),
        "fixedlen:16" => Box::new(TFixed::<16>(FixedLenStrVec::new())),
        "fixedlen:64" => Box::new(TFixed::<64>(FixedLenStrVec::new())),
        "bitpacked32:new" => Box::new(TBit32(BitPackedStringVec32::new())),
        "bitpacked32:memory_optimized" => Box::new(TBit32(BitPackedStringVec32::with_config(BitPackedConfig::memory_optimized()))),
        "bitpacked64:new" => Box::new(TBit64(BitPackedStringVec64::new())),
        "bitpacked64:with_capacity_1" => Box::new(TBit64(BitPackedStringVec64::with_capacity(1))),
        "advanced:level_0" => adv(0),
        "advanced:level_1" => adv(1),
        "advanced:level_2" => adv(2),
        "advanced:level_3" => adv(3),
        _ => return None,
    })
}

/// profile "big": strings are megabytes long; every string of such a run is shown as its digest
/// ({"len":n,"h":[h1,h0]}, zv::digest) - equality of strings is then decided by TLC on the digests
static BIG: std::sync::atomic::AtomicBool = std::sync::atomic::AtomicBool::new(false);
fn bj(b: &[u8]) -> Value {
    if BIG.load(std::sync::atomic::Ordering::Relaxed) {
        digest(b)
    } else {
        bytes_json(b)
    }
}
fn bsj(v: &[Vec<u8>]) -> Value {
    Value::Array(v.iter().map(|b| bj(b)).collect())
}

fn obs_str(s: &dyn StrS) -> Value {
    let len = s.len();
    let mut c: Vec<Value> = vec![];
    let mut get_ok = true;
    for i in 0..len {
        match s.get(i) {
            Some(b) => c.push(bj(&b)),
            None => {
                // get(i) = None inside the range: shown as the impossible byte string [-1]
                get_ok = false;
                c.push(json!([-1]));
            }
        }
    }
    let oob = match s.get(len) {
        None => json!([]),
        Some(b) => json!([bj(&b)]),
    };
    let it = s.iter_all();
    let sv = s.sorted_view();
    json!({"len": len, "c": c, "get_ok": get_ok, "oob": oob, "has_it": it.is_some(), "it": bsj(&it.unwrap_or_default()),
           "has_sorted": sv.is_some(), "sorted": bsj(&sv.unwrap_or_default())})
}

/// random string over an alphabet chosen to provoke shared prefixes, overlaps, multi-byte
/// characters and (profile nul) embedded NUL characters
fn rand_str(rng: &mut Rng, profile: &str) -> String {
    let alpha: &[&str] = match profile {
        "nul" => &["a", "b", "\0", "c"],
        "utf8" => &["a", "b", "\u{e9}", "\u{4e2d}", "c"],
        "long" => &["a", "b", "c", "d"],
        _ => &["a", "b", "c"],
    };
    if profile == "big" {
        // 3 bytes .. 1 MiB + 5 bytes, around the 20-bit boundary
        let n = *rng.pick(&[3usize, (1 << 20) - 1, 1 << 20, (1 << 20) + 5, 70_000]);
        let c = *rng.pick(&["x", "y", "z"]);
        return c.repeat(n);
    }
    let n = match profile {
        "long" => rng.below(40) as usize,
        _ => {
            if rng.chance(1, 10) { 0 } else { rng.range(1, 9) as usize }
        }
    };
    let mut s = String::new();
    // frequently start with one of a few fixed stems so that strings overlap
    if rng.chance(1, 2) && n >= 3 {
        s.push_str(*rng.pick(&["abc", "abca", "bca", "abcabc"]));
    }
    while s.chars().count() < n {
        s.push_str(*rng.pick(alpha));
    }
    s
}

fn drive_str(a: &Args, name: &str) -> Value {
    let mut tr = Tracer::new(&a.out, &format!("str-{}", sanitize(name)));
    tr.max_events = 2500;
    let rng0 = Rng::new(a.seed);
    let fam = fam_of(name);
    let (mut nev, mut panics, mut refused, mut runs) = (0usize, 0usize, 0usize, 0usize);
    let mut nontrivial_runs = 0usize;
    let mut opcount: Map<String, Value> = Map::new();
    let profiles: &[&str] = &["abc", "utf8", "nul", "long"];
    let (nruns, steps) = if a.thorough() { (24, 40) } else { (4, 22) };
    // one more run with strings around and above 1 MiB (length fields of 20 / 24 bits) for the arena types
    let big_run = matches!(name, "sortable:new" | "bitpacked32:new" | "bitpacked64:new" | "advanced:level_0" | "advanced:level_1");
    for run in 0..(nruns + big_run as usize) {
        let mut rng = rng0.derive(&format!("{name}/{run}"));
        let profile = if run == nruns { "big" } else { profiles[run % profiles.len()] };
        BIG.store(profile == "big", std::sync::atomic::Ordering::Relaxed);
        let steps = if profile == "big" { 5 } else { steps };
        tr.reset("strseq", name, json!({"fam": fam, "variant": variant_of(name), "profile": profile, "seed": a.seed}));
        runs += 1;
        let mut objs: Vec<Option<Box<dyn StrS>>> = vec![];
        let mut pool: Vec<String> = vec![]; // strings used so far (needles)
        let mut dead = false;
        let held = std::cell::Cell::new(false);
        let emit = |tr: &mut Tracer, e: Value, nev: &mut usize| {
            if e["post"]["len"].as_u64().unwrap_or(0) > 0 {
                held.set(true);
            }
            tr.ev(e);
            *nev += 1;
        };
        if fam == "zo" {
            // construction from a list, then reads
            let n = rng.below(if a.thorough() { 24 } else { 12 }) as usize;
            let mut input: Vec<String> = (0..n).map(|_| rand_str(&mut rng, profile)).collect();
            if rng.chance(1, 2) && !input.is_empty() {
                let d = rng.pick(&input).clone();
                input.push(d); // a duplicate
            }
            let kind = variant_of(name);
            if kind == "from_sorted" && rng.chance(3, 4) {
                input.sort();
            }
            pool = input.clone();
            let inp_json = Value::Array(input.iter().map(|s| bj(s.as_bytes())).collect());
            let built = guard(|| match kind.as_str() {
                "from_strings" => ZoSortedStrVec::from_strings(input.clone()).ok(),
                "from_sorted" => ZoSortedStrVec::from_sorted_strings(input.clone()).ok(),
                _ => {
                    let mut sv = SortableStrVec::new();
                    for s in &input {
                        let _ = sv.push_str(s);
                    }
                    ZoSortedStrVec::from_sortable_str_vec(sv).ok()
                }
            });
            match built {
                Ok(Some(z)) => {
                    let b: Box<dyn StrS> = Box::new(TZo(z));
                    match guard(|| obs_str(b.as_ref())) {
                        Ok(p) => emit(&mut tr, json!({"op":"build","o":1,"kind":kind,"input":inp_json,"ok":true,"post":p}), &mut nev),
                        Err(m) => {
                            emit(&mut tr, json!({"op":"panic","in":"observe","o":1,"msg":m.chars().take(120).collect::<String>()}), &mut nev);
                            panics += 1;
                            dead = true;
                        }
                    }
                    objs.push(Some(b));
                }
                Ok(None) => {
                    refused += 1;
                    emit(&mut tr, json!({"op":"build","o":1,"kind":kind,"input":inp_json,"ok":false}), &mut nev);
                    continue;
                }
                Err(m) => {
                    panics += 1;
                    emit(&mut tr, json!({"op":"panic","in":"build","o":1,"msg":m.chars().take(120).collect::<String>()}), &mut nev);
                    continue;
                }
            }
        } else {
            match guard(|| make_str(name)) {
                Ok(Some(s)) => objs.push(Some(s)),
                _ => return json!({"constructed": false}),
            }
        }
        for _ in 0..steps {
            if dead || (fam == "zo" && pool.iter().any(|s| s.contains('\0'))) {
                // zo: a list holding NUL characters is only built and observed (C10-KF6)
                break;
            }
            let live: Vec<usize> = (1..=objs.len()).filter(|&o| objs[o - 1].is_some()).collect();
            let o = *rng.pick(&live);
            let ops = objs[o - 1].as_ref().unwrap().ops();
            let w = |op: &str| -> u64 {
                if profile == "big" {
                    return (op == "push") as u64;
                }
                match op {
                    "push" => 50,
                    "sort" => 8,
                    "clear" => 2,
                    "clone" => if live.len() < 3 { 3 } else { 0 },
                    "find" => 14,
                    "bsearch" => 10,
                    "maintenance" => 3,
                    _ => 0,
                }
            };
            let all: Vec<(&str, u64)> = ops.iter().map(|&op| (op, w(op))).collect();
            let total: u64 = all.iter().map(|x| x.1).sum();
            let mut t = rng.below(total.max(1));
            let mut op = all[0].0;
            for (n, wt) in &all {
                if t < *wt {
                    op = n;
                    break;
                }
                t -= wt;
            }
            let needle = if !pool.is_empty() && rng.chance(2, 3) { rng.pick(&pool).clone() } else { rand_str(&mut rng, profile) };
            let nobj = objs.len();
            let r = guard(|| -> (Value, usize) {
                if op == "clone" {
                    let c = objs[o - 1].as_ref().unwrap().clone_obj().unwrap();
                    objs.push(Some(c));
                    return (json!({"op":"clone","o":o,"o2":nobj + 1}), nobj + 1);
                }
                let s = objs[o - 1].as_mut().unwrap();
                let ev = match op {
                    "push" => {
                        let st = if profile == "big" {
                            // lengths around the 20-bit boundary, in a fixed order
                            let n = [(1usize << 20) - 1, 1 << 20, 3, (1 << 20) + 5, 70_000][pool.len() % 5];
                            ["x", "y", "z"][pool.len() % 3].repeat(n)
                        } else if !pool.is_empty() && rng.chance(1, 5) {
                            rng.pick(&pool).clone()
                        } else {
                            rand_str(&mut rng, profile)
                        };
                        pool.push(st.clone());
                        match s.push(&st) {
                            Ok(Some(i)) => json!({"op":"push","o":o,"s":bj(st.as_bytes()),"ok":true,"has_r":true,"r":i.min(1 << 30)}),
                            Ok(None) => json!({"op":"push","o":o,"s":bj(st.as_bytes()),"ok":true,"has_r":false,"r":0}),
                            Err(()) => json!({"op":"push","o":o,"s":bj(st.as_bytes()),"ok":false,"has_r":false,"r":0}),
                        }
                    }
                    "sort" => {
                        let kind = *rng.pick(&["lex", "radix", "by", "len"]);
                        let ok = s.sort(kind);
                        json!({"op":"sort","o":o,"how":kind,"kind": if kind == "len" { "len" } else if kind == "by" { "custom" } else { "lex" },"ok":ok})
                    }
                    "clear" => {
                        s.clear();
                        json!({"op":"clear","o":o})
                    }
                    "find" => {
                        let r = s.find(&needle);
                        json!({"op":"find","o":o,"s":bj(needle.as_bytes()),"r":opt(r.map(|x| x.min(1 << 30)))})
                    }
                    "bsearch" => {
                        let r = s.bsearch(&needle);
                        let sv = s.sorted_view().or_else(|| s.iter_all()).unwrap_or_default();
                        json!({"op":"bsearch","o":o,"s":bj(needle.as_bytes()),"ok":r.is_ok(),"pos":r.unwrap_or_else(|e| e).min(1 << 30),"sv":bsj(&sv)})
                    }
                    "maintenance" => {
                        s.maintenance();
                        json!({"op":"maintenance","o":o})
                    }
                    other => panic!("harness: unknown op {other}"),
                };
                (ev, o)
            });
            match r {
                Ok((mut ev, w)) => {
                    if ev["ok"] == json!(false) {
                        refused += 1;
                    }
                    match guard(|| obs_str(objs[w - 1].as_ref().unwrap().as_ref())) {
                        Ok(p) => ev["post"] = p,
                        Err(m) => {
                            ev = json!({"op":"panic","in":"observe","o":w,"msg":m.chars().take(120).collect::<String>()});
                            panics += 1;
                            dead = true;
                        }
                    }
                    let c = opcount.entry(op.to_string()).or_insert(json!(0));
                    *c = json!(c.as_u64().unwrap_or(0) + 1);
                    emit(&mut tr, ev, &mut nev);
                }
                Err(m) => {
                    panics += 1;
                    dead = true;
                    emit(&mut tr, json!({"op":"panic","in":op,"o":o,"msg":m.chars().take(120).collect::<String>()}), &mut nev);
                }
            }
        }
        if dead {
            for b in objs.drain(..) {
                std::mem::forget(b);
            }
        }
        if held.get() {
            nontrivial_runs += 1;
        }
        tr.flush();
    }
    tr.close();
    json!({"events": nev, "runs": runs, "nontrivial_runs": nontrivial_runs, "panics": panics, "refused": refused, "ops": opcount,
           "files": tr.files.iter().map(|p| p.display().to_string()).collect::<Vec<_>>()})
}

// ================================================================ orchestration: one child per subject

fn all_subjects(kind: &str) -> Vec<String> {
    let v: Vec<&str> = match kind {
        "seq" => VEC_EL.iter().chain(VEC_U64.iter()).copied().collect(),
        "deque" => DQ_FIXED.iter().chain(DQ_GROW.iter()).copied().collect(),
        "dqfixed" => DQ_FIXED.to_vec(),
        "dqgrow" => DQ_GROW.iter().copied().collect(),
        "str" => STR_SUBJECTS.to_vec(),
        _ => VEC_EL.iter().chain(VEC_U64.iter()).chain(DQ_FIXED.iter()).chain(DQ_GROW.iter()).chain(STR_SUBJECTS.iter()).copied().collect(),
    };
    v.into_iter().map(|s| s.to_string()).collect()
}
fn domain_of(name: &str) -> &'static str {
    if VEC_EL.contains(&name) || VEC_U64.contains(&name) {
        "seq"
    } else if STR_SUBJECTS.contains(&name) {
        "strseq"
    } else {
        "deque"
    }
}

/// cut a trace file back to its last complete line (a child that died may leave half a line)
fn sanitize_file(p: &std::path::Path) {
    if let Ok(s) = std::fs::read(p) {
        if let Some(pos) = s.iter().rposition(|&b| b == b'\n') {
            if pos + 1 != s.len() {
                let _ = std::fs::write(p, &s[..pos + 1]);
            }
        } else if !s.is_empty() {
            let _ = std::fs::write(p, b"");
        }
    }
}

fn parent(a: &Args, child_mode: &str) {
    let kind = a.get("kind").unwrap_or("all").to_string();
    let subs: Vec<String> = all_subjects(&kind).into_iter().filter(|s| a.wants(s)).collect();
    std::fs::create_dir_all(&a.out).expect("out dir");
    let next = std::sync::atomic::AtomicUsize::new(0);
    let results = std::sync::Mutex::new(Vec::<(String, Value)>::new());
    let nthreads = a.get_u64("threads", 8) as usize;
    std::thread::scope(|sc| {
        for _ in 0..nthreads {
            sc.spawn(|| loop {
                let i = next.fetch_add(1, std::sync::atomic::Ordering::SeqCst);
                if i >= subs.len() {
                    break;
                }
                let name = &subs[i];
                let mut args: Vec<String> = vec![
                    "--mode".into(), child_mode.into(), "--seed".into(), a.seed.to_string(), "--tier".into(), a.tier.clone(),
                    "--out".into(), a.out.display().to_string(), "--subject".into(), name.clone(),
                ];
                if let Some(p) = &a.input {
                    args.push("--in".into());
                    args.push(p.display().to_string());
                }
                for (k, v) in &a.extra {
                    args.push(format!("--{k}"));
                    args.push(v.clone());
                }
                let outcome = run_child(&args, a.get_u64("child_secs", 900), 0, true);
                let sp = a.out.join(format!("sum-{}.json", sanitize(name)));
                let mut summ: Value = std::fs::read(&sp).ok().and_then(|b| serde_json::from_slice(&b).ok()).unwrap_or(json!({}));
                let crashed = match outcome {
                    ChildOutcome::Exit(0) => None,
                    ChildOutcome::Exit(c) => Some(json!({"op":"crash","how":"exit","code":c})),
                    ChildOutcome::Signal(s) => Some(json!({"op":"crash","how":"signal","code":s})),
                    ChildOutcome::Timeout => Some(json!({"op":"crash","how":"timeout","code":0})),
                };
                if let Some(ev) = crashed {
                    // what the child had written stays (cut to whole lines); the crash itself is one more run
                    if let Ok(rd) = std::fs::read_dir(&a.out) {
                        for f in rd.flatten() {
                            let p = f.path();
                            if p.extension().map_or(false, |e| e == "ndjson") && p.file_name().unwrap().to_string_lossy().contains(&sanitize(name)) {
                                sanitize_file(&p);
                            }
                        }
                    }
                    let stem = match domain_of(name) {
                        "seq" => "seq",
                        "strseq" => "str",
                        _ => "dq",
                    };
                    let mut tr = Tracer::new(&a.out, &format!("{stem}-crash-{}", sanitize(name)));
                    tr.reset(domain_of(name), name, json!({"fam": fam_of(name), "variant": variant_of(name), "acct": true, "fixedcap": fixed_cap(name), "crash": true}));
                    tr.ev(ev.clone());
                    tr.close();
                    summ["crash"] = ev;
                    summ["crash_files"] = json!(tr.files.iter().map(|p| p.display().to_string()).collect::<Vec<_>>());
                }
                results.lock().unwrap().push((name.clone(), summ));
            });
        }
    });
    let mut per = Map::new();
    let (mut events, mut runs, mut execs, mut crashes) = (0u64, 0u64, 0u64, 0u64);
    for (name, v) in results.into_inner().unwrap() {
        events += v["events"].as_u64().unwrap_or(0);
        runs += v["runs"].as_u64().unwrap_or(0);
        execs += v["behaviours"].as_u64().unwrap_or(0);
        if v.get("crash").is_some() {
            crashes += 1;
            runs += 1;
            events += 2;
        }
        per.insert(name, v);
    }
    write_summary(&a.out, &json!({"mode": child_mode, "events": events, "runs": runs, "executions": execs, "crashes": crashes, "subjects": per}));
}

fn child_summary(a: &Args, name: &str, v: &Value) {
    let sp = a.out.join(format!("sum-{}.json", sanitize(name)));
    std::fs::write(sp, serde_json::to_vec(v).unwrap()).expect("write child summary");
}

fn child_drive(a: &Args) {
    let name = a.subject.clone().expect("--subject");
    let v = if VEC_EL.contains(&name.as_str()) {
        drive_vec::<El>(a, &name, &make_vec_el)
    } else if VEC_U64.contains(&name.as_str()) {
        drive_vec::<u64>(a, &name, &make_vec_u64)
    } else if STR_SUBJECTS.contains(&name.as_str()) {
        drive_str(a, &name)
    } else {
        drive_dq(a, &name)
    };
    child_summary(a, &name, &v);
    // self-test of the crash path (--test_crash <subject>): the child dies by a signal after its work
    if a.get("test_crash") == Some(name.as_str()) {
        std::process::abort();
    }
}

fn child_replay(a: &Args) {
    let name = a.subject.clone().expect("--subject");
    let input = a.input.clone().expect("--in");
    let text = std::fs::read_to_string(&input).expect("read behaviours");
    let behaviours: Vec<Value> = text.lines().filter(|l| !l.trim().is_empty()).map(|l| serde_json::from_str(l).expect("behaviour json")).collect();
    let v = if VEC_EL.contains(&name.as_str()) {
        replay_vec::<El>(a, &name, &behaviours, &make_vec_el)
    } else if VEC_U64.contains(&name.as_str()) {
        replay_vec::<u64>(a, &name, &behaviours, &make_vec_u64)
    } else {
        replay_dq(a, &name, &behaviours)
    };
    child_summary(a, &name, &v);
}

fn main() {
    let a = Args::parse();
    quiet_panics();
    match a.mode.as_str() {
        "drive" => parent(&a, "drive1"),
        "replay" => parent(&a, "replay1"),
        "drive1" => child_drive(&a),
        "replay1" => child_replay(&a),
        "subjects" => {
            for s in all_subjects("all") {
                println!("{s}");
            }
        }
        m => {
            eprintln!("c10: unknown mode {m}");
            std::process::exit(2)
        }
    }
}
