//! C10 — vectors, queues and string vectors match their standard-library models.
//! Runs the real zipora containers, logs every public call as one NDJSON event; TLC judges the
//! events against spec/Seq.tla, spec/Deque.tla, spec/StrSeq.tla (Trace_Seq / Trace_Deque /
//! Trace_StrSeq).  The harness holds no model of any container: it projects (element value +
//! instance id, lengths, the drop log) and, in replay mode, compares for equality with values
//! TLC computed.
//!
//! modes (parent): drive | replay  -> one child process per subject (a crash is data)
//! modes (child):  drive1 | replay1
use serde_json::{json, Map, Value};
use std::cell::RefCell;
use std::path::PathBuf;
use zipora::containers::specialized::{
    AdvancedStringConfig, AdvancedStringVec, AutoGrowCircularQueue, BitPackedConfig, BitPackedStringVec32, BitPackedStringVec64,
    FixedCircularQueue, FixedLenStrVec, SortableStrVec, ValVec32, ZoSortedStrVec,
};
use zipora::containers::FastVec;
use zipora::memory::{BumpAllocator, CacheAlignedVec, MmapVec, MmapVecConfig, PooledVec};
use zv::*;

// NOTE: src/containers/specialized/circular_queue_ultrafast.rs cannot be bound: no `mod` line of the crate names it and
// it does not compile on the pinned toolchain (unstable core_intrinsics, ZiporaError::memory_error does not exist).

// ================================================================ drop-counting element

/// per-thread registry of the elements of the current run
struct Reg {
    state: Vec<u8>,          // per id: 0 alive, 1 destroyed
    ptr: Vec<usize>,         // per id: address of its heap box
    val: Vec<u32>,           // per id: value
    drops: Vec<(i64, i64)>,  // destructor calls since the last take: (value, id); (-1,-1) = not an element
    born: Vec<(i64, i64)>,   // clones made since the last take
    visit: Vec<(i64, i64)>,  // elements shown to the Debug formatter since the last take
    live: i64,               // elements alive
    bad: u64,                // destructor calls on dead / unknown elements (recorded, harmless)
}
thread_local! {
    static REG: RefCell<Reg> = RefCell::new(Reg { state: vec![], ptr: vec![], val: vec![], drops: vec![], born: vec![], visit: vec![], live: 0, bad: 0 });
}
fn reg_reset() {
    REG.with(|r| {
        let mut r = r.borrow_mut();
        r.state.clear();
        r.ptr.clear();
        r.val.clear();
        r.drops.clear();
        r.born.clear();
        r.visit.clear();
        r.live = 0;
        r.bad = 0;
    })
}
fn take_drops() -> Vec<(i64, i64)> {
    REG.with(|r| std::mem::take(&mut r.borrow_mut().drops))
}
fn take_born() -> Vec<(i64, i64)> {
    REG.with(|r| std::mem::take(&mut r.borrow_mut().born))
}
fn take_visit() -> Vec<(i64, i64)> {
    REG.with(|r| std::mem::take(&mut r.borrow_mut().visit))
}
fn reg_live() -> i64 {
    REG.with(|r| r.borrow().live)
}
fn reg_bad() -> u64 {
    REG.with(|r| r.borrow().bad)
}

/// An element that owns heap memory and reports its destruction.  Its destructor never frees
/// twice: the box is released only when the registry says this instance is alive and the
/// pointer is the registered one; a second drop (or a drop of garbage) is recorded instead.
#[repr(C)]
pub struct El {
    id: u32,
    val: u32,
    p: *mut u64,
}
unsafe impl Send for El {}
unsafe impl Sync for El {}
impl El {
    fn new(val: u32) -> El {
        let p = Box::into_raw(Box::new(val as u64 ^ 0x5eed_0000_0000));
        REG.with(|r| {
            let mut r = r.borrow_mut();
            let id = r.state.len() as u32;
            r.state.push(0);
            r.ptr.push(p as usize);
            r.val.push(val);
            r.live += 1;
            El { id, val, p }
        })
    }
    /// (value, id) when this is an element of the run (alive or dead), (-1,-1) for garbage
    fn proj(&self) -> (i64, i64) {
        REG.with(|r| {
            let r = r.borrow();
            let id = self.id as usize;
            if id < r.state.len() && r.ptr[id] == self.p as usize && r.val[id] == self.val {
                (self.val as i64, self.id as i64)
            } else {
                (-1, -1)
            }
        })
    }
    /// release: returns true when the box was freed now
    fn release(&self, log: bool) {
        let me = self.proj();
        let free = REG.with(|r| {
            let mut r = r.borrow_mut();
            if log {
                r.drops.push(me);
            }
            if me.1 < 0 {
                r.bad += 1;
                return false;
            }
            let id = me.1 as usize;
            if r.state[id] == 0 {
                r.state[id] = 1;
                r.live -= 1;
                true
            } else {
                r.bad += 1;
                false
            }
        });
        if free {
            unsafe { drop(Box::from_raw(self.p)) };
        }
    }
}
impl Drop for El {
    fn drop(&mut self) {
        self.release(true)
    }
}
impl Clone for El {
    fn clone(&self) -> El {
        let e = El::new(self.val);
        let p = e.proj();
        REG.with(|r| r.borrow_mut().born.push(p));
        e
    }
}
impl std::fmt::Debug for El {
    fn fmt(&self, f: &mut std::fmt::Formatter<'_>) -> std::fmt::Result {
        let p = self.proj();
        REG.with(|r| r.borrow_mut().visit.push(p));
        write!(f, "E{}", p.1)
    }
}

/// element types the vector subjects are driven with
pub trait Elem: Sized + Clone + 'static {
    const ACCT: bool;
    fn make(val: u32) -> Self;
    fn pr(&self) -> (i64, i64);
    /// the harness takes an element handed back by the container and disposes of it outside the
    /// drop log (it left the container by being returned)
    fn consume(self) -> (i64, i64);
}
impl Elem for El {
    const ACCT: bool = true;
    fn make(val: u32) -> El {
        El::new(val)
    }
    fn pr(&self) -> (i64, i64) {
        self.proj()
    }
    fn consume(self) -> (i64, i64) {
        let p = self.proj();
        self.release(false);
        std::mem::forget(self);
        p
    }
}
impl Elem for u64 {
    const ACCT: bool = false;
    fn make(val: u32) -> u64 {
        val as u64
    }
    fn pr(&self) -> (i64, i64) {
        (if *self < (1 << 31) { *self as i64 } else { -1 }, 0)
    }
    fn consume(self) -> (i64, i64) {
        self.pr()
    }
}

/// bytes: the size-1 SIMD paths (fast_fill) of FastVec are only taken for one-byte Copy types
impl Elem for u8 {
    const ACCT: bool = false;
    fn make(val: u32) -> u8 {
        (val % 251) as u8
    }
    fn pr(&self) -> (i64, i64) {
        (*self as i64, 0)
    }
    fn consume(self) -> (i64, i64) {
        self.pr()
    }
}
/// a zero-sized element type (no identity: every element reads as <<0,0>>, the content is its length)
#[derive(Clone, Copy)]
pub struct Z;
impl std::fmt::Debug for Z {
    fn fmt(&self, f: &mut std::fmt::Formatter<'_>) -> std::fmt::Result {
        REG.with(|r| r.borrow_mut().visit.push((0, 0)));
        write!(f, "Z")
    }
}
impl Elem for Z {
    const ACCT: bool = false;
    fn make(_val: u32) -> Z {
        Z
    }
    fn pr(&self) -> (i64, i64) {
        (0, 0)
    }
    fn consume(self) -> (i64, i64) {
        (0, 0)
    }
}

/// is_empty() shown as a length twin: 0 when it says empty, otherwise the length (at least 1)
fn empty_as_len(is_empty: bool, len: usize) -> usize {
    if is_empty { 0 } else { len.max(1) }
}

fn ej(p: (i64, i64)) -> Value {
    json!([p.0, p.1])
}
fn esj(v: &[(i64, i64)]) -> Value {
    Value::Array(v.iter().map(|&p| ej(p)).collect())
}
fn oej(o: Option<(i64, i64)>) -> Value {
    match o {
        None => json!([]),
        Some(p) => json!([ej(p)]),
    }
}

// ================================================================ vector subjects

/// Uniform view of a vector under test; every method is a thin call-through.  `ops()` lists what
/// the type offers.  Results: `false` / `None` = the call was refused (Err).
pub trait VecS<E: Elem> {
    fn ops(&self) -> &'static [&'static str];
    fn push(&mut self, _x: E) -> bool {
        unreachable!()
    }
    fn pop(&mut self) -> Option<E> {
        unreachable!()
    }
    fn insert(&mut self, _i: usize, _x: E) -> bool {
        unreachable!()
    }
    fn remove(&mut self, _i: usize) -> Option<E> {
        unreachable!()
    }
    fn set(&mut self, _i: usize, _x: E) -> bool {
        unreachable!()
    }
    fn resize(&mut self, _n: usize, _x: E) -> bool {
        unreachable!()
    }
    fn extend_move(&mut self, _xs: Vec<E>) -> bool {
        unreachable!()
    }
    fn extend_clone(&mut self, _xs: &[E]) -> bool {
        unreachable!()
    }
    fn fill(&mut self, _a: usize, _b: usize, _x: E) -> bool {
        unreachable!()
    }
    fn clear(&mut self) -> bool {
        unreachable!()
    }
    fn truncate(&mut self, _n: usize) -> bool {
        unreachable!()
    }
    fn pop_tail(&mut self, _n: usize) -> Option<Vec<E>> {
        unreachable!()
    }
    fn shrink(&mut self) -> bool {
        unreachable!()
    }
    fn reserve(&mut self, _n: usize) -> bool {
        unreachable!()
    }
    fn clone_obj(&self) -> Option<Box<dyn VecS<E>>> {
        unreachable!()
    }
    /// twins of push (push_panic, unchecked_push ...): `how` names the entry point
    fn push_how(&mut self, _how: &str, _x: E) -> bool {
        unreachable!()
    }
    /// overwrite through a mutable reference (get_mut / as_mut_slice / index_mut): None = no such element
    fn set_mut(&mut self, _how: &str, _i: usize, _x: E) -> Option<E> {
        unreachable!()
    }
    fn resize_with(&mut self, _n: usize, _f: &mut dyn FnMut() -> E) -> bool {
        unreachable!()
    }
    /// replace the content by a copy of xs (copy_from_slice_fast)
    fn copy_from(&mut self, _xs: &[E]) -> bool {
        unreachable!()
    }
    /// append n copies of x (push_n_copy)
    fn push_n(&mut self, _n: usize, _x: E) -> bool {
        unreachable!()
    }
    fn ensure_capacity(&mut self, _n: usize) -> bool {
        unreachable!()
    }
    /// a new object built by the sized constructor (with_size(n, x))
    fn with_size(&self, _n: usize, _x: E) -> Option<Box<dyn VecS<E>>> {
        unreachable!()
    }
    /// a new empty object sharing this one's allocator (BumpVec)
    fn sibling(&self) -> Option<Box<dyn VecS<E>>> {
        unreachable!()
    }
    /// compare self[a..b] with other[0..b-a] (compare_range_simd): None = refused
    fn compare(&self, _a: usize, _b: usize, _other: &dyn VecS<E>) -> Option<bool> {
        unreachable!()
    }
    /// write everything out, close and open again (MmapVec::sync + open); false = refused, object unchanged
    fn reopen(&mut self) -> bool {
        unreachable!()
    }
    /// every other way the type offers to read its whole content (as_mut_slice, iter_mut, raw pointer,
    /// get_unchecked, Index ...), by name; each must show exactly the content
    fn views(&mut self) -> Vec<(&'static str, Vec<(i64, i64)>)> {
        vec![]
    }
    /// twins of len() / capacity()
    fn alt_len(&self) -> Vec<usize> {
        vec![]
    }
    fn alt_cap(&self) -> Vec<usize> {
        vec![]
    }
    fn as_any(&self) -> Option<&dyn std::any::Any> {
        None
    }
    fn slice(&self) -> &[E];
    fn len(&self) -> usize;
    fn cap(&self) -> usize;
    fn iter_all(&self) -> Option<Vec<(i64, i64)>> {
        None
    }
    fn get(&self, _i: usize) -> Option<Option<(i64, i64)>> {
        None
    }
}

/// every reader FastVec offers besides as_slice()
fn fast_views<E: Elem>(v: &mut FastVec<E>) -> Vec<(&'static str, Vec<(i64, i64)>)> {
    let n = v.len();
    let mut out = vec![];
    out.push(("as_mut_slice", v.as_mut_slice().iter().map(|e| e.pr()).collect()));
    out.push(("deref_iter", v.iter().map(|e| e.pr()).collect()));
    out.push(("index", (0..n).map(|i| v[i].pr()).collect()));
    out.push(("get_unchecked", (0..n).map(|i| unsafe { v.get_unchecked(i) }.pr()).collect()));
    out.push(("get_unchecked_mut", (0..n).map(|i| unsafe { v.get_unchecked_mut(i) }.pr()).collect()));
    let p = v.as_ptr();
    out.push(("as_ptr", (0..n).map(|i| unsafe { &*p.add(i) }.pr()).collect()));
    let p = v.as_mut_ptr();
    out.push(("as_mut_ptr", (0..n).map(|i| unsafe { &*p.add(i) }.pr()).collect()));
    out
}
fn fast_set_mut<E: Elem>(v: &mut FastVec<E>, how: &str, i: usize, x: E) -> Option<E> {
    if i >= v.len() {
        // the index API aborts the process out of range; only the slice reader is asked there
        return match v.as_mut_slice().get_mut(i) {
            Some(r) => Some(std::mem::replace(r, x)),
            None => {
                drop(x);
                None
            }
        };
    }
    Some(match how {
        "index_mut" => std::mem::replace(&mut v[i], x),
        "get_unchecked_mut" => std::mem::replace(unsafe { v.get_unchecked_mut(i) }, x),
        _ => std::mem::replace(&mut v.as_mut_slice()[i], x),
    })
}

struct SFast<E: Elem>(FastVec<E>);
impl<E: Elem> VecS<E> for SFast<E> {
    fn ops(&self) -> &'static [&'static str] {
        &["push", "pop", "insert", "remove", "resize", "resize_with", "extend_move", "clear", "shrink", "reserve", "ensure_capacity", "clone",
          "with_size", "set_mut:as_mut_slice", "set_mut:index_mut", "set_mut:get_unchecked_mut"]
    }
    fn set_mut(&mut self, how: &str, i: usize, x: E) -> Option<E> {
        fast_set_mut(&mut self.0, how, i, x)
    }
    fn resize_with(&mut self, n: usize, f: &mut dyn FnMut() -> E) -> bool {
        self.0.resize_with(n, f).is_ok()
    }
    fn ensure_capacity(&mut self, n: usize) -> bool {
        self.0.ensure_capacity(n).is_ok()
    }
    fn with_size(&self, n: usize, x: E) -> Option<Box<dyn VecS<E>>> {
        FastVec::with_size(n, x).ok().map(|v| Box::new(SFast(v)) as Box<dyn VecS<E>>)
    }
    fn views(&mut self) -> Vec<(&'static str, Vec<(i64, i64)>)> {
        fast_views(&mut self.0)
    }
    fn push(&mut self, x: E) -> bool {
        self.0.push(x).is_ok()
    }
    fn pop(&mut self) -> Option<E> {
        self.0.pop()
    }
    fn insert(&mut self, i: usize, x: E) -> bool {
        self.0.insert(i, x).is_ok()
    }
    fn remove(&mut self, i: usize) -> Option<E> {
        self.0.remove(i).ok()
    }
    fn resize(&mut self, n: usize, x: E) -> bool {
        self.0.resize(n, x).is_ok()
    }
    fn extend_move(&mut self, xs: Vec<E>) -> bool {
        self.0.extend(xs).is_ok()
    }
    fn clear(&mut self) -> bool {
        self.0.clear();
        true
    }
    fn shrink(&mut self) -> bool {
        self.0.shrink_to_fit().is_ok()
    }
    fn reserve(&mut self, n: usize) -> bool {
        self.0.reserve(n).is_ok()
    }
    fn clone_obj(&self) -> Option<Box<dyn VecS<E>>> {
        Some(Box::new(SFast(self.0.clone())))
    }
    fn slice(&self) -> &[E] {
        self.0.as_slice()
    }
    fn len(&self) -> usize {
        self.0.len()
    }
    fn cap(&self) -> usize {
        self.0.capacity()
    }
}

/// FastVec of a Copy type: additionally the Copy-only bulk operations (SIMD paths from 64 bytes on;
/// the size-1 paths of resize / fill_range_fast only for one-byte types)
struct SFastCopy<E: Elem + Copy>(FastVec<E>);
impl<E: Elem + Copy> VecS<E> for SFastCopy<E> {
    fn ops(&self) -> &'static [&'static str] {
        &["push", "pop", "insert", "remove", "resize", "resize_with", "extend_move", "extend_clone", "fill", "copy_from", "clear", "shrink", "reserve",
          "ensure_capacity", "clone", "with_size", "set_mut:as_mut_slice", "set_mut:index_mut"]
    }
    fn push(&mut self, x: E) -> bool {
        self.0.push(x).is_ok()
    }
    fn pop(&mut self) -> Option<E> {
        self.0.pop()
    }
    fn insert(&mut self, i: usize, x: E) -> bool {
        self.0.insert(i, x).is_ok()
    }
    fn remove(&mut self, i: usize) -> Option<E> {
        self.0.remove(i).ok()
    }
    fn resize(&mut self, n: usize, x: E) -> bool {
        self.0.resize(n, x).is_ok()
    }
    fn resize_with(&mut self, n: usize, f: &mut dyn FnMut() -> E) -> bool {
        self.0.resize_with(n, f).is_ok()
    }
    fn extend_move(&mut self, xs: Vec<E>) -> bool {
        self.0.extend(xs).is_ok()
    }
    fn extend_clone(&mut self, xs: &[E]) -> bool {
        self.0.extend_from_slice_fast(xs).is_ok()
    }
    fn fill(&mut self, a: usize, b: usize, x: E) -> bool {
        self.0.fill_range_fast(a, b, x).is_ok()
    }
    fn copy_from(&mut self, xs: &[E]) -> bool {
        self.0.copy_from_slice_fast(xs).is_ok()
    }
    fn clear(&mut self) -> bool {
        self.0.clear();
        true
    }
    fn shrink(&mut self) -> bool {
        self.0.shrink_to_fit().is_ok()
    }
    fn reserve(&mut self, n: usize) -> bool {
        self.0.reserve(n).is_ok()
    }
    fn ensure_capacity(&mut self, n: usize) -> bool {
        self.0.ensure_capacity(n).is_ok()
    }
    fn clone_obj(&self) -> Option<Box<dyn VecS<E>>> {
        Some(Box::new(SFastCopy(self.0.clone())))
    }
    fn with_size(&self, n: usize, x: E) -> Option<Box<dyn VecS<E>>> {
        FastVec::with_size(n, x).ok().map(|v| Box::new(SFastCopy(v)) as Box<dyn VecS<E>>)
    }
    fn set_mut(&mut self, how: &str, i: usize, x: E) -> Option<E> {
        fast_set_mut(&mut self.0, how, i, x)
    }
    fn views(&mut self) -> Vec<(&'static str, Vec<(i64, i64)>)> {
        fast_views(&mut self.0)
    }
    fn slice(&self) -> &[E] {
        self.0.as_slice()
    }
    fn len(&self) -> usize {
        self.0.len()
    }
    fn cap(&self) -> usize {
        self.0.capacity()
    }
}

fn val32_views<E: Elem>(v: &mut ValVec32<E>) -> Vec<(&'static str, Vec<(i64, i64)>)> {
    let n = v.len() as usize;
    let mut out = vec![];
    out.push(("as_mut_slice", v.as_mut_slice().iter().map(|e| e.pr()).collect()));
    out.push(("iter_mut", v.iter_mut().map(|e| e.pr()).collect()));
    out.push(("into_iter", (&*v).into_iter().map(|e| e.pr()).collect()));
    out.push(("index_usize", (0..n).map(|i| v[i].pr()).collect()));
    out.push(("index_u32", (0..n).map(|i| v[i as u32].pr()).collect()));
    out.push(("get_mut", (0..n).filter_map(|i| v.get_mut(i as u32).map(|e| e.pr())).collect()));
    out
}
fn val32_set_mut<E: Elem>(v: &mut ValVec32<E>, how: &str, i: usize, x: E) -> Option<E> {
    let r = match how {
        "as_mut_slice" => v.as_mut_slice().get_mut(i),
        "iter_mut" => v.iter_mut().nth(i),
        "index_mut" if i < v.len() as usize => Some(&mut v[i]),
        "index_mut" => None,
        _ => v.get_mut(i as u32),
    };
    match r {
        Some(r) => Some(std::mem::replace(r, x)),
        None => {
            drop(x);
            None
        }
    }
}
/// push through one of the twins of push()
fn val32_push_how<E: Elem>(v: &mut ValVec32<E>, how: &str, x: E) -> bool {
    match how {
        "push_panic" => {
            v.push_panic(x);
            true
        }
        _ => {
            // unchecked_push: the caller guarantees len < capacity
            if v.len() >= v.capacity() && v.reserve(1).is_err() {
                drop(x);
                return false;
            }
            unsafe { v.unchecked_push(x) };
            true
        }
    }
}

struct SVal32<E: Elem>(ValVec32<E>);
impl<E: Elem> VecS<E> for SVal32<E> {
    fn ops(&self) -> &'static [&'static str] {
        &["push", "push:push_panic", "push:unchecked_push", "pop", "set", "set_mut:get_mut", "set_mut:as_mut_slice", "set_mut:iter_mut",
          "set_mut:index_mut", "extend_clone", "clear", "reserve", "clone"]
    }
    fn push_how(&mut self, how: &str, x: E) -> bool {
        val32_push_how(&mut self.0, how, x)
    }
    fn set_mut(&mut self, how: &str, i: usize, x: E) -> Option<E> {
        val32_set_mut(&mut self.0, how, i, x)
    }
    fn views(&mut self) -> Vec<(&'static str, Vec<(i64, i64)>)> {
        val32_views(&mut self.0)
    }
    fn alt_len(&self) -> Vec<usize> {
        vec![self.0.len_usize(), empty_as_len(self.0.is_empty(), self.0.len_usize())]
    }
    fn alt_cap(&self) -> Vec<usize> {
        vec![self.0.capacity_usize()]
    }
    fn push(&mut self, x: E) -> bool {
        self.0.push(x).is_ok()
    }
    fn pop(&mut self) -> Option<E> {
        self.0.pop()
    }
    fn set(&mut self, i: usize, x: E) -> bool {
        self.0.set(i as u32, x).is_ok()
    }
    fn extend_clone(&mut self, xs: &[E]) -> bool {
        self.0.extend_from_slice(xs).is_ok()
    }
    fn clear(&mut self) -> bool {
        self.0.clear();
        true
    }
    fn reserve(&mut self, n: usize) -> bool {
        self.0.reserve(n as u32).is_ok()
    }
    fn clone_obj(&self) -> Option<Box<dyn VecS<E>>> {
        Some(Box::new(SVal32(self.0.clone())))
    }
    fn slice(&self) -> &[E] {
        self.0.as_slice()
    }
    fn len(&self) -> usize {
        self.0.len() as usize
    }
    fn cap(&self) -> usize {
        self.0.capacity() as usize
    }
    fn iter_all(&self) -> Option<Vec<(i64, i64)>> {
        Some(self.0.iter().map(|e| e.pr()).collect())
    }
    fn get(&self, i: usize) -> Option<Option<(i64, i64)>> {
        Some(self.0.get(i as u32).map(|e| e.pr()))
    }
}

/// ValVec32 of a Copy type: additionally extend_from_slice_copy, push_n_copy, unchecked_push_copy
struct SVal32Copy<E: Elem + Copy>(ValVec32<E>);
impl<E: Elem + Copy> VecS<E> for SVal32Copy<E> {
    fn ops(&self) -> &'static [&'static str] {
        &["push", "push:push_panic", "push:unchecked_push", "push:unchecked_push_copy", "pop", "set", "set_mut:get_mut", "set_mut:iter_mut",
          "extend_clone", "push_n", "clear", "reserve", "clone"]
    }
    fn push(&mut self, x: E) -> bool {
        self.0.push(x).is_ok()
    }
    fn push_how(&mut self, how: &str, x: E) -> bool {
        if how == "unchecked_push_copy" {
            if self.0.len() >= self.0.capacity() && self.0.reserve(1).is_err() {
                return false;
            }
            unsafe { self.0.unchecked_push_copy(x) };
            return true;
        }
        val32_push_how(&mut self.0, how, x)
    }
    fn pop(&mut self) -> Option<E> {
        self.0.pop()
    }
    fn set(&mut self, i: usize, x: E) -> bool {
        self.0.set(i as u32, x).is_ok()
    }
    fn set_mut(&mut self, how: &str, i: usize, x: E) -> Option<E> {
        val32_set_mut(&mut self.0, how, i, x)
    }
    fn extend_clone(&mut self, xs: &[E]) -> bool {
        self.0.extend_from_slice_copy(xs).is_ok()
    }
    fn push_n(&mut self, n: usize, x: E) -> bool {
        self.0.push_n_copy(n as u32, x).is_ok()
    }
    fn clear(&mut self) -> bool {
        self.0.clear();
        true
    }
    fn reserve(&mut self, n: usize) -> bool {
        self.0.reserve(n as u32).is_ok()
    }
    fn clone_obj(&self) -> Option<Box<dyn VecS<E>>> {
        Some(Box::new(SVal32Copy(self.0.clone())))
    }
    fn views(&mut self) -> Vec<(&'static str, Vec<(i64, i64)>)> {
        val32_views(&mut self.0)
    }
    fn alt_len(&self) -> Vec<usize> {
        vec![self.0.len_usize(), empty_as_len(self.0.is_empty(), self.0.len_usize())]
    }
    fn alt_cap(&self) -> Vec<usize> {
        vec![self.0.capacity_usize()]
    }
    fn slice(&self) -> &[E] {
        self.0.as_slice()
    }
    fn len(&self) -> usize {
        self.0.len() as usize
    }
    fn cap(&self) -> usize {
        self.0.capacity() as usize
    }
    fn iter_all(&self) -> Option<Vec<(i64, i64)>> {
        Some(self.0.iter().map(|e| e.pr()).collect())
    }
    fn get(&self, i: usize) -> Option<Option<(i64, i64)>> {
        Some(self.0.get(i as u32).map(|e| e.pr()))
    }
}

struct SCache<E: Elem>(CacheAlignedVec<E>);
impl<E: Elem> VecS<E> for SCache<E> {
    fn ops(&self) -> &'static [&'static str] {
        &["push", "pop", "clear", "truncate", "reserve", "set_mut:get_mut", "set_mut:as_mut_slice"]
    }
    fn set_mut(&mut self, how: &str, i: usize, x: E) -> Option<E> {
        let r = if how == "as_mut_slice" { self.0.as_mut_slice().get_mut(i) } else { self.0.get_mut(i) };
        match r {
            Some(r) => Some(std::mem::replace(r, x)),
            None => {
                drop(x);
                None
            }
        }
    }
    fn views(&mut self) -> Vec<(&'static str, Vec<(i64, i64)>)> {
        let n = self.0.len();
        vec![
            ("as_mut_slice", self.0.as_mut_slice().iter().map(|e| e.pr()).collect()),
            ("get_mut", (0..n).filter_map(|i| self.0.get_mut(i).map(|e| e.pr())).collect()),
        ]
    }
    fn alt_len(&self) -> Vec<usize> {
        vec![empty_as_len(self.0.is_empty(), self.0.len())]
    }
    fn push(&mut self, x: E) -> bool {
        self.0.push(x).is_ok()
    }
    fn pop(&mut self) -> Option<E> {
        self.0.pop()
    }
    fn clear(&mut self) -> bool {
        self.0.clear();
        true
    }
    fn truncate(&mut self, n: usize) -> bool {
        self.0.truncate(n);
        true
    }
    fn reserve(&mut self, n: usize) -> bool {
        self.0.reserve(n).is_ok()
    }
    fn slice(&self) -> &[E] {
        self.0.as_slice()
    }
    fn len(&self) -> usize {
        self.0.len()
    }
    fn cap(&self) -> usize {
        self.0.capacity()
    }
    fn get(&self, i: usize) -> Option<Option<(i64, i64)>> {
        Some(self.0.get(i).map(|e| e.pr()))
    }
}

/// BumpVec borrows its allocator; the allocator lives as long as any vector made in it
struct AllocBox(*mut BumpAllocator);
impl Drop for AllocBox {
    fn drop(&mut self) {
        unsafe { drop(Box::from_raw(self.0)) };
    }
}
struct SBump<E: Elem> {
    v: Option<zipora::memory::bump::BumpVec<'static, E>>,
    a: std::rc::Rc<AllocBox>,
    cap: usize,
}
impl<E: Elem> SBump<E> {
    fn new(cap: usize) -> Option<SBump<E>> {
        let a = std::rc::Rc::new(AllocBox(Box::into_raw(Box::new(BumpAllocator::new(8192).ok()?))));
        Self::new_in(a, cap)
    }
    fn new_in(a: std::rc::Rc<AllocBox>, cap: usize) -> Option<SBump<E>> {
        let r: &'static BumpAllocator = unsafe { &*a.0 };
        let v = zipora::memory::bump::BumpVec::new_in(r, cap).ok()?;
        Some(SBump { v: Some(v), a, cap })
    }
}
impl<E: Elem> Drop for SBump<E> {
    fn drop(&mut self) {
        self.v.take();
    }
}
impl<E: Elem> VecS<E> for SBump<E> {
    fn ops(&self) -> &'static [&'static str] {
        &["push", "pop", "sibling", "set_mut:as_mut_slice"]
    }
    fn push(&mut self, x: E) -> bool {
        self.v.as_mut().unwrap().push(x).is_ok()
    }
    fn pop(&mut self) -> Option<E> {
        self.v.as_mut().unwrap().pop()
    }
    /// another vector carved from the same allocator, right behind this one
    fn sibling(&self) -> Option<Box<dyn VecS<E>>> {
        SBump::<E>::new_in(self.a.clone(), self.cap).map(|b| Box::new(b) as Box<dyn VecS<E>>)
    }
    fn set_mut(&mut self, _how: &str, i: usize, x: E) -> Option<E> {
        match self.v.as_mut().unwrap().as_mut_slice().get_mut(i) {
            Some(r) => Some(std::mem::replace(r, x)),
            None => {
                drop(x);
                None
            }
        }
    }
    fn views(&mut self) -> Vec<(&'static str, Vec<(i64, i64)>)> {
        vec![("as_mut_slice", self.v.as_mut().unwrap().as_mut_slice().iter().map(|e| e.pr()).collect())]
    }
    fn alt_len(&self) -> Vec<usize> {
        let v = self.v.as_ref().unwrap();
        vec![empty_as_len(v.is_empty(), v.len())]
    }
    fn slice(&self) -> &[E] {
        self.v.as_ref().unwrap().as_slice()
    }
    fn len(&self) -> usize {
        self.v.as_ref().unwrap().len()
    }
    fn cap(&self) -> usize {
        self.v.as_ref().unwrap().capacity()
    }
}

struct SPooled<E: Elem>(PooledVec<E>);
impl<E: Elem> VecS<E> for SPooled<E> {
    fn ops(&self) -> &'static [&'static str] {
        &["push"]
    }
    fn alt_len(&self) -> Vec<usize> {
        vec![empty_as_len(self.0.is_empty(), self.0.len())]
    }
    fn push(&mut self, x: E) -> bool {
        self.0.push(x).is_ok()
    }
    fn slice(&self) -> &[E] {
        self.0.as_slice()
    }
    fn len(&self) -> usize {
        self.0.len()
    }
    fn cap(&self) -> usize {
        self.0.capacity()
    }
}

/// MmapVec<u64>; backing files under /verif/work/C10-tmp, removed when the object goes
struct SMmap {
    v: Option<MmapVec<u64>>,
    path: PathBuf,
    cfg: MmapVecConfig,
}
fn mmap_path() -> PathBuf {
    use std::sync::atomic::{AtomicUsize, Ordering};
    static N: AtomicUsize = AtomicUsize::new(0);
    let d = PathBuf::from("/verif/work/C10-tmp");
    let _ = std::fs::create_dir_all(&d);
    d.join(format!("v-{}-{}.mmv", std::process::id(), N.fetch_add(1, Ordering::SeqCst)))
}
fn mmap_cfg(variant: &str) -> MmapVecConfig {
    let small = |mut c: MmapVecConfig, cap: usize| {
        c.initial_capacity = cap;
        c
    };
    match variant {
        "cap_1_x2" => MmapVecConfig::builder().with_initial_capacity(1).with_growth_factor(2.0).build(),
        "cap_3_golden" => MmapVecConfig::builder().with_initial_capacity(3).with_growth_factor(1.618).build(),
        "cap_0_x1_1" => MmapVecConfig::builder().with_initial_capacity(0).with_growth_factor(1.1).build(),
        "cap_1_x1_0" => MmapVecConfig::builder().with_initial_capacity(1).with_growth_factor(1.0).build(),
        "cap_2_x1_5" => MmapVecConfig::builder().with_initial_capacity(2).with_growth_factor(1.5).build(),
        // the presets, with a small initial capacity so that growth happens (large_dataset keeps its own)
        "performance_optimized" => small(MmapVecConfig::performance_optimized(), 2),
        "memory_optimized" => small(MmapVecConfig::memory_optimized(), 1),
        "realtime" => small(MmapVecConfig::realtime(), 3),
        "persistent_cache" => small(MmapVecConfig::persistent_cache(), 2),
        "large_dataset" => MmapVecConfig::large_dataset(),
        "builder_flags" => MmapVecConfig::builder().with_initial_capacity(2).with_growth_factor(1.25).with_populate_pages(true)
            .with_huge_pages(true).with_sync_on_write(true).with_read_only(false).build(),
        _ => MmapVecConfig::default(),
    }
}
impl SMmap {
    fn new(variant: &str) -> Option<SMmap> {
        if variant.starts_with("with_capacity_simd") {
            // temporary file of its own (under TMPDIR, which main() points at /verif/work/C10-tmp)
            let v = MmapVec::<u64>::with_capacity_simd(16).ok()?;
            let path = v.path().to_path_buf();
            return Some(SMmap { v: Some(v), path, cfg: MmapVecConfig::default() });
        }
        if variant == "read_only_open" {
            // written through a writable handle, synced, closed, then opened read-only
            let path = mmap_path();
            {
                let mut w = MmapVec::<u64>::create(&path, mmap_cfg("cap_2_x1_5")).ok()?;
                for x in [11u64, 12, 13, 14, 15] {
                    w.push(x).ok()?;
                }
                w.sync().ok()?;
            }
            let cfg = MmapVecConfig::read_only();
            let v = MmapVec::<u64>::open(&path, cfg.clone()).ok()?;
            return Some(SMmap { v: Some(v), path, cfg });
        }
        let path = mmap_path();
        let cfg = mmap_cfg(variant);
        let v = MmapVec::<u64>::create(&path, cfg.clone()).ok()?;
        Some(SMmap { v: Some(v), path, cfg })
    }
    fn m(&mut self) -> &mut MmapVec<u64> {
        self.v.as_mut().unwrap()
    }
    fn r(&self) -> &MmapVec<u64> {
        self.v.as_ref().unwrap()
    }
}
impl Drop for SMmap {
    fn drop(&mut self) {
        self.v.take();
        let _ = std::fs::remove_file(&self.path);
    }
}
impl VecS<u64> for SMmap {
    fn ops(&self) -> &'static [&'static str] {
        &["push", "pop", "resize", "extend_move", "extend_clone", "fill", "clear", "truncate", "pop_tail", "shrink", "reserve", "clone",
          "set_mut:get_mut", "set_mut:as_mut_slice", "compare", "reopen", "sibling"]
    }
    fn as_any(&self) -> Option<&dyn std::any::Any> {
        Some(self)
    }
    /// a second, empty MmapVec of the same configuration (its own file)
    fn sibling(&self) -> Option<Box<dyn VecS<u64>>> {
        let path = mmap_path();
        let mut cfg = self.cfg.clone();
        cfg.read_only = false;
        if cfg.initial_capacity > 64 {
            cfg.initial_capacity = 2;
        }
        let v = MmapVec::<u64>::create(&path, cfg.clone()).ok()?;
        Some(Box::new(SMmap { v: Some(v), path, cfg }))
    }
    fn set_mut(&mut self, how: &str, i: usize, x: u64) -> Option<u64> {
        let r = if how == "as_mut_slice" { self.m().as_mut_slice().get_mut(i) } else { self.m().get_mut(i) };
        r.map(|r| std::mem::replace(r, x))
    }
    fn compare(&self, a: usize, b: usize, other: &dyn VecS<u64>) -> Option<bool> {
        let o = other.as_any()?.downcast_ref::<SMmap>()?;
        self.r().compare_range_simd(a..b, o.r()).ok()
    }
    fn reopen(&mut self) -> bool {
        if self.path.as_os_str().is_empty() || self.m().sync().is_err() {
            return false;
        }
        match MmapVec::<u64>::open(&self.path, self.cfg.clone()) {
            Ok(n) => {
                self.v = Some(n);
                true
            }
            Err(_) => false,
        }
    }
    fn views(&mut self) -> Vec<(&'static str, Vec<(i64, i64)>)> {
        let n = self.r().len();
        let mut out = vec![("into_iter", self.r().into_iter().map(|e| e.pr()).collect())];
        if !self.cfg.read_only {
            // a read-only vector hands out no mutable view (documented)
            out.push(("as_mut_slice", self.m().as_mut_slice().iter().map(|e| e.pr()).collect()));
            out.push(("get_mut", (0..n).filter_map(|i| self.m().get_mut(i).map(|e| e.pr())).collect()));
        }
        out
    }
    fn alt_len(&self) -> Vec<usize> {
        vec![self.r().stats().len, empty_as_len(self.r().is_empty(), self.r().len())]
    }
    fn alt_cap(&self) -> Vec<usize> {
        vec![self.r().stats().capacity]
    }
    fn push(&mut self, x: u64) -> bool {
        self.m().push(x).is_ok()
    }
    fn pop(&mut self) -> Option<u64> {
        self.m().pop()
    }
    fn resize(&mut self, n: usize, x: u64) -> bool {
        self.m().resize(n, x).is_ok()
    }
    fn extend_move(&mut self, xs: Vec<u64>) -> bool {
        self.m().extend(xs).is_ok()
    }
    fn extend_clone(&mut self, xs: &[u64]) -> bool {
        self.m().push_bulk_simd(xs).is_ok()
    }
    fn fill(&mut self, a: usize, b: usize, x: u64) -> bool {
        self.m().fill_range_simd(a..b, x).is_ok()
    }
    fn clear(&mut self) -> bool {
        self.m().clear().is_ok()
    }
    fn truncate(&mut self, n: usize) -> bool {
        self.m().truncate(n).is_ok()
    }
    fn pop_tail(&mut self, n: usize) -> Option<Vec<u64>> {
        self.m().pop_bulk_simd(n).ok()
    }
    fn shrink(&mut self) -> bool {
        self.m().shrink_to_fit().is_ok()
    }
    fn reserve(&mut self, n: usize) -> bool {
        self.m().reserve(n).is_ok()
    }
    /// "clone" = a second MmapVec filled by copy_from_simd
    fn clone_obj(&self) -> Option<Box<dyn VecS<u64>>> {
        let path = mmap_path();
        let mut cfg = self.cfg.clone();
        cfg.read_only = false;
        if cfg.initial_capacity > 64 {
            cfg.initial_capacity = 2;
        }
        let v = MmapVec::<u64>::create(&path, cfg.clone()).ok()?;
        let mut n = SMmap { v: Some(v), path, cfg };
        n.m().copy_from_simd(self.r()).ok()?;
        Some(Box::new(n))
    }
    fn slice(&self) -> &[u64] {
        self.r().as_slice()
    }
    fn len(&self) -> usize {
        self.r().len()
    }
    fn cap(&self) -> usize {
        self.r().capacity()
    }
    fn iter_all(&self) -> Option<Vec<(i64, i64)>> {
        Some(self.r().into_iter().map(|e| e.pr()).collect())
    }
    fn get(&self, i: usize) -> Option<Option<(i64, i64)>> {
        Some(self.r().get(i).map(|e| e.pr()))
    }
}

const VEC_EL: &[&str] = &[
    "fastvec:new", "fastvec:with_capacity_1", "fastvec:with_capacity_2", "fastvec:with_capacity_3", "valvec32:new", "valvec32:with_capacity_1",
    "valvec32:with_capacity_2", "valvec32:with_capacity_3", "valvec32:with_secure_pool_2", "cachevec:new", "cachevec:with_capacity_1",
    "cachevec:with_capacity_2", "cachevec:with_capacity_3", "cachevec:with_numa_node_0", "bumpvec:cap_1", "bumpvec:cap_6", "bumpvec:cap_48",
    "pooledvec:new",
];
const VEC_U64: &[&str] = &[
    "fastvec_u64:new", "valvec32_u64:new", "valvec32_u64:with_capacity_3", "mmapvec:cap_1_x2", "mmapvec:cap_3_golden", "mmapvec:cap_0_x1_1",
    "mmapvec:cap_1_x1_0", "mmapvec:cap_2_x1_5", "mmapvec:performance_optimized", "mmapvec:memory_optimized", "mmapvec:realtime",
    "mmapvec:persistent_cache", "mmapvec:builder_flags", "mmapvec:with_capacity_simd_16", "mmapvec:large_dataset", "mmapvec:read_only_open",
];
/// one-byte elements: the size-1 fast_fill paths of FastVec::resize / fill_range_fast (from 64 bytes on)
const VEC_U8: &[&str] = &["fastvec_u8:new"];
/// zero-sized elements
const VEC_ZST: &[&str] = &["fastvec_zst:new", "valvec32_zst:new", "cachevec_zst:new"];

fn make_vec_el(name: &str) -> Option<Box<dyn VecS<El>>> {
    let capn = || variant_of(name).rsplit('_').next().and_then(|x| x.parse::<usize>().ok()).unwrap_or(0);
    Some(match fam_of(name).as_str() {
        "fastvec" if variant_of(name) == "new" => Box::new(SFast(FastVec::<El>::new())),
        "fastvec" => Box::new(SFast(FastVec::<El>::with_capacity(capn()).ok()?)),
        "valvec32" if variant_of(name) == "new" => Box::new(SVal32(ValVec32::<El>::new())),
        "valvec32" if variant_of(name).starts_with("with_secure_pool") => {
            let pool = zipora::memory::SecureMemoryPool::new(zipora::memory::SecurePoolConfig::small_secure()).ok()?;
            Box::new(SVal32(ValVec32::<El>::with_secure_pool(capn() as u32, pool).ok()?))
        }
        "valvec32" => Box::new(SVal32(ValVec32::<El>::with_capacity(capn() as u32).ok()?)),
        "cachevec" if variant_of(name) == "new" => Box::new(SCache(CacheAlignedVec::<El>::new())),
        "cachevec" if variant_of(name).starts_with("with_numa_node") => {
            let _ = zipora::memory::set_current_numa_node(0);
            Box::new(SCache(CacheAlignedVec::<El>::with_numa_node(capn())))
        }
        "cachevec" => Box::new(SCache(CacheAlignedVec::<El>::with_capacity(capn()).ok()?)),
        "bumpvec" => Box::new(SBump::<El>::new(capn())?),
        "pooledvec" => Box::new(SPooled(PooledVec::<El>::new().ok()?)),
        _ => return None,
    })
}
fn make_vec_u64(name: &str) -> Option<Box<dyn VecS<u64>>> {
    Some(match fam_of(name).as_str() {
        "fastvec_u64" => Box::new(SFastCopy(FastVec::<u64>::new())),
        "valvec32_u64" if variant_of(name) == "new" => Box::new(SVal32Copy(ValVec32::<u64>::new())),
        "valvec32_u64" => Box::new(SVal32Copy(ValVec32::<u64>::with_capacity(3).ok()?)),
        "mmapvec" => Box::new(SMmap::new(&variant_of(name))?),
        _ => return None,
    })
}
fn make_vec_u8(name: &str) -> Option<Box<dyn VecS<u8>>> {
    Some(match name {
        "fastvec_u8:new" => Box::new(SFastCopy(FastVec::<u8>::new())),
        _ => return None,
    })
}
fn make_vec_zst(name: &str) -> Option<Box<dyn VecS<Z>>> {
    Some(match name {
        "fastvec_zst:new" => Box::new(SFastCopy(FastVec::<Z>::new())),
        "valvec32_zst:new" => Box::new(SVal32Copy(ValVec32::<Z>::new())),
        "cachevec_zst:new" => Box::new(SCache(CacheAlignedVec::<Z>::new())),
        _ => return None,
    })
}


// ================================================================ executing vector operations

fn fam_of(name: &str) -> String {
    name.split(':').next().unwrap_or("").to_string()
}
fn variant_of(name: &str) -> String {
    name.split(':').nth(1).unwrap_or("").to_string()
}

/// one operation of a history: op, object, index i, size n, values of the argument elements
#[derive(Clone, Debug, Default)]
pub struct Step {
    op: String,
    o: usize,
    i: usize,
    n: usize,
    xv: Vec<u32>,
}
impl Step {
    fn from_json(v: &Value) -> Step {
        Step {
            op: v["op"].as_str().unwrap_or("").to_string(),
            o: v["o"].as_u64().unwrap_or(1) as usize,
            i: v["i"].as_u64().unwrap_or(0) as usize,
            n: v["n"].as_u64().unwrap_or(0) as usize,
            xv: v["xv"].as_array().map(|a| a.iter().map(|x| x.as_u64().unwrap_or(0) as u32).collect()).unwrap_or_default(),
        }
    }
}

/// what one object shows.  `full`: also every twin reader (views); they are logged for short contents and for
/// every fourth event (they multiply the size of an event)
fn obs_vec<E: Elem>(s: &mut dyn VecS<E>, full: bool) -> Value {
    let c: Vec<(i64, i64)> = s.slice().iter().map(|e| e.pr()).collect();
    let len = s.len();
    let it = s.iter_all();
    let mut gets = vec![];
    let mut has_get = false;
    for i in 0..=len {
        match s.get(i) {
            Some(g) => {
                has_get = true;
                gets.push(oej(g));
            }
            None => break,
        }
    }
    let views = if full || len <= 6 { s.views() } else { vec![] };
    let names: Vec<&str> = views.iter().map(|v| v.0).collect();
    let vs: Vec<Value> = views.iter().map(|v| esj(&v.1)).collect();
    json!({"c": esj(&c), "len": len, "cap": s.cap().min(1 << 30), "has_it": it.is_some(), "it": esj(&it.unwrap_or_default()),
           "has_get": has_get, "gets": gets, "view_names": names, "views": vs,
           "alt_len": s.alt_len().iter().map(|&x| x.min(1 << 30)).collect::<Vec<_>>(),
           "alt_cap": s.alt_cap().iter().map(|&x| x.min(1 << 30)).collect::<Vec<_>>()})
}

/// the objects of one run (object id = index + 1; a dropped object leaves a hole)
pub struct VecRun<E: Elem> {
    objs: Vec<Option<Box<dyn VecS<E>>>>,
    dead: bool,
    nev: usize,
}
impl<E: Elem> VecRun<E> {
    fn supports(&self, st: &Step) -> bool {
        if st.op == "drop" {
            return self.objs.get(st.o - 1).map_or(false, |x| x.is_some());
        }
        match self.objs.get(st.o - 1) {
            Some(Some(s)) => s.ops().contains(&st.op.as_str()),
            _ => false,
        }
    }
    /// execute one step on the real object and return the event.  A panic is data.
    fn exec(&mut self, st: &Step) -> Value {
        let o = st.o;
        let _ = (take_drops(), take_born());
        let nobj = self.objs.len();
        let objs = &mut self.objs;
        let r = guard(|| -> (Value, Option<usize>) {
            // returns the event and the object whose state is to be observed afterwards
            if st.op == "drop" {
                let b = objs[o - 1].take();
                drop(b);
                return (json!({"op":"drop","o":o}), None);
            }
            if st.op == "clone" {
                let c = objs[o - 1].as_ref().unwrap().clone_obj();
                return match c {
                    Some(c) => {
                        objs.push(Some(c));
                        (json!({"op":"clone","o":o,"o2":nobj + 1,"ok":true}), Some(nobj + 1))
                    }
                    None => (json!({"op":"clone","o":o,"o2":nobj + 1,"ok":false}), Some(o)),
                };
            }
            if st.op == "with_size" {
                let x = E::make(st.xv[0]);
                let px = x.pr();
                return match objs[o - 1].as_ref().unwrap().with_size(st.n, x) {
                    Some(c) => {
                        objs.push(Some(c));
                        (json!({"op":"new_sized","o":o,"o2":nobj + 1,"n":st.n,"x":ej(px),"ok":true}), Some(nobj + 1))
                    }
                    None => (json!({"op":"new_sized","o":o,"o2":nobj + 1,"n":st.n,"x":ej(px),"ok":false}), Some(o)),
                };
            }
            if st.op == "sibling" {
                return match objs[o - 1].as_ref().unwrap().sibling() {
                    Some(c) => {
                        objs.push(Some(c));
                        (json!({"op":"new_empty","o":o,"o2":nobj + 1,"ok":true}), Some(nobj + 1))
                    }
                    None => (json!({"op":"new_empty","o":o,"o2":nobj + 1,"ok":false}), Some(o)),
                };
            }
            if st.op == "compare" {
                let o2 = st.xv[0] as usize;
                let r = objs[o - 1].as_ref().unwrap().compare(st.i, st.n, objs[o2 - 1].as_ref().unwrap().as_ref());
                return (json!({"op":"compare","o":o,"o2":o2,"a":st.i,"b":st.n,"ok":r.is_some(),"r":r.unwrap_or(false)}), Some(o));
            }
            let s = objs[o - 1].as_mut().unwrap();
            let (base, how) = match st.op.split_once(':') {
                Some((b, h)) => (b, h),
                None => (st.op.as_str(), ""),
            };
            let ev = match base {
                "push" if !how.is_empty() => {
                    let x = E::make(st.xv[0]);
                    let px = x.pr();
                    let ok = s.push_how(how, x);
                    json!({"op":"push","how":how,"o":o,"x":ej(px),"ok":ok})
                }
                "set_mut" => {
                    // overwrite through a mutable reference; the old value comes back and is destroyed here
                    let x = E::make(st.xv[0]);
                    let px = x.pr();
                    let old = s.set_mut(how, st.i, x);
                    let ok = old.is_some();
                    drop(old);
                    json!({"op":"set","how":how,"o":o,"i":st.i,"x":ej(px),"ok":ok})
                }
                "resize_with" => {
                    let made = RefCell::new(Vec::<(i64, i64)>::new());
                    let mut it = st.xv.iter();
                    let mut f = || {
                        let e = E::make(*it.next().unwrap_or(&0));
                        made.borrow_mut().push(e.pr());
                        e
                    };
                    let ok = s.resize_with(st.n, &mut f);
                    json!({"op":"resize_with","o":o,"n":st.n,"xs":esj(&made.borrow()),"ok":ok})
                }
                "copy_from" => {
                    let xs: Vec<E> = st.xv.iter().map(|&v| E::make(v)).collect();
                    let pxs: Vec<(i64, i64)> = xs.iter().map(|e| e.pr()).collect();
                    let ok = s.copy_from(&xs);
                    for e in xs {
                        e.consume();
                    }
                    json!({"op":"copy_from","o":o,"xs":esj(&pxs),"ok":ok})
                }
                "push_n" => {
                    let x = E::make(st.xv[0]);
                    let px = x.pr();
                    let before = s.len();
                    let ok = s.push_n(st.n, x);
                    json!({"op":"resize","how":"push_n_copy","o":o,"n":before + st.n,"x":ej(px),"ok":ok})
                }
                "ensure_capacity" => json!({"op":"maintenance","what":"ensure_capacity","o":o,"n":st.n,"ok":s.ensure_capacity(st.n)}),
                "reopen" => json!({"op":"maintenance","what":"reopen","o":o,"ok":s.reopen()}),
                "push" => {
                    let x = E::make(st.xv[0]);
                    let px = x.pr();
                    let ok = s.push(x);
                    json!({"op":"push","o":o,"x":ej(px),"ok":ok})
                }
                "pop" => {
                    let r = s.pop().map(|e| e.consume());
                    json!({"op":"pop","o":o,"r":oej(r)})
                }
                "insert" => {
                    let x = E::make(st.xv[0]);
                    let px = x.pr();
                    let ok = s.insert(st.i, x);
                    json!({"op":"insert","o":o,"i":st.i,"x":ej(px),"ok":ok})
                }
                "remove" => {
                    let r = s.remove(st.i).map(|e| e.consume());
                    json!({"op":"remove","o":o,"i":st.i,"ok":r.is_some(),"r":oej(r)})
                }
                "set" => {
                    let x = E::make(st.xv[0]);
                    let px = x.pr();
                    let ok = s.set(st.i, x);
                    json!({"op":"set","o":o,"i":st.i,"x":ej(px),"ok":ok})
                }
                "resize" => {
                    let x = E::make(st.xv[0]);
                    let px = x.pr();
                    let ok = s.resize(st.n, x);
                    json!({"op":"resize","o":o,"n":st.n,"x":ej(px),"ok":ok})
                }
                "extend_move" => {
                    let xs: Vec<E> = st.xv.iter().map(|&v| E::make(v)).collect();
                    let pxs: Vec<(i64, i64)> = xs.iter().map(|e| e.pr()).collect();
                    let ok = s.extend_move(xs);
                    json!({"op":"extend_move","o":o,"xs":esj(&pxs),"ok":ok})
                }
                "extend_clone" => {
                    let xs: Vec<E> = st.xv.iter().map(|&v| E::make(v)).collect();
                    let pxs: Vec<(i64, i64)> = xs.iter().map(|e| e.pr()).collect();
                    let ok = s.extend_clone(&xs);
                    // the source elements stay with the caller; they are disposed of outside the log
                    for e in xs {
                        e.consume();
                    }
                    json!({"op":"extend_clone","o":o,"xs":esj(&pxs),"ok":ok})
                }
                "fill" => {
                    let x = E::make(st.xv[0]);
                    let px = x.pr();
                    let ok = s.fill(st.i, st.n, x);
                    json!({"op":"fill","o":o,"a":st.i,"b":st.n,"x":ej(px),"ok":ok})
                }
                "clear" => json!({"op":"clear","o":o,"ok":s.clear()}),
                "truncate" => json!({"op":"truncate","o":o,"n":st.n,"ok":s.truncate(st.n)}),
                "pop_tail" => {
                    let r = s.pop_tail(st.n);
                    let ok = r.is_some();
                    let pr: Vec<(i64, i64)> = r.unwrap_or_default().into_iter().map(|e| e.consume()).collect();
                    json!({"op":"pop_tail","o":o,"n":st.n,"ok":ok,"r":esj(&pr)})
                }
                "shrink" => json!({"op":"maintenance","what":"shrink_to_fit","o":o,"ok":s.shrink()}),
                "reserve" => json!({"op":"maintenance","what":"reserve","o":o,"n":st.n,"ok":s.reserve(st.n)}),
                other => panic!("harness: unknown op {other}"),
            };
            (ev, Some(o))
        });
        let dropped = take_drops();
        let born = take_born();
        match r {
            Ok((mut ev, watch)) => {
                ev["dropped"] = esj(&dropped);
                ev["born"] = esj(&born);
                if let Some(w) = watch {
                    self.nev += 1;
                    let full = self.nev % 4 == 0;
                    let objs = &mut self.objs;
                    match guard(|| obs_vec(objs[w - 1].as_mut().unwrap().as_mut(), full)) {
                        Ok(p) => ev["post"] = p,
                        Err(msg) => {
                            self.dead = true;
                            return json!({"op":"panic","in":"observe","o":w,"msg":msg.chars().take(120).collect::<String>()});
                        }
                    }
                    if matches!(ev["op"].as_str(), Some("clone") | Some("new_sized") | Some("new_empty")) && ev["ok"] == json!(true) {
                        ev["src"] = obs_vec(self.objs[o - 1].as_mut().unwrap().as_mut(), false);
                    }
                    if ev["op"] == "compare" {
                        let o2 = ev["o2"].as_u64().unwrap_or(1) as usize;
                        ev["src"] = obs_vec(self.objs[o2 - 1].as_mut().unwrap().as_mut(), false);
                    }
                }
                ev
            }
            Err(msg) => {
                self.dead = true;
                json!({"op":"panic","in":st.op,"o":o,"msg":msg.chars().take(120).collect::<String>()})
            }
        }
    }
    /// drop every remaining object (one event each); after a panic the objects are leaked instead
    fn finish(&mut self, out: &mut Vec<Value>) {
        if self.dead {
            for b in self.objs.drain(..) {
                std::mem::forget(b);
            }
            return;
        }
        for o in 1..=self.objs.len() {
            if self.objs[o - 1].is_some() {
                let e = self.exec(&Step { op: "drop".into(), o, ..Default::default() });
                out.push(e);
                if self.dead {
                    break;
                }
            }
        }
        if self.dead {
            for b in self.objs.drain(..) {
                std::mem::forget(b);
            }
        }
    }
}

/// C10-KF8: FastVec::ensure_capacity(n) with n < len() - and through it copy_from_slice_fast(src) with a source
/// shorter than the vector - ends the process (zipora_verify -> abort).  While the finding is open the random drivers
/// stay out of that region; the witness (mode witness) executes it in a child of its own on every run.
/// Set to false once /verif/work/patches/C10-6.diff is applied.
const KF8_EXCLUDED: bool = false;

fn sanitize(name: &str) -> String {
    name.chars().map(|c| if c.is_ascii_alphanumeric() { c } else { '_' }).collect()
}

// ---------------------------------------------------------------- B1: random vector histories

fn drive_vec<E: Elem>(a: &Args, name: &str, make: &dyn Fn(&str) -> Option<Box<dyn VecS<E>>>) -> Value {
    let mut tr = Tracer::new(&a.out, &format!("seq-{}", sanitize(name)));
    tr.max_events = 2500;
    let rng0 = Rng::new(a.seed);
    // (steps, runs, length around which the run hovers).  The first configuration of every type gets the full
    // regimes, the capacity / preset variants fewer runs; one-byte elements need >= 64 elements to reach the
    // size-1 SIMD paths, u64 >= 8 (64 bytes) and >= 16 (prefetching fill)
    const PRIMARY: &[&str] = &["fastvec:new", "valvec32:new", "cachevec:new", "bumpvec:cap_6", "pooledvec:new", "fastvec_u64:new", "valvec32_u64:new",
                               "mmapvec:cap_1_x2", "mmapvec:cap_3_golden"];
    let fam = fam_of(name);
    let regimes: Vec<(usize, usize, usize)> = if fam == "fastvec_u8" {
        if a.thorough() { vec![(60, 8, 12), (300, 6, 180)] } else { vec![(30, 2, 12), (140, 2, 170)] }
    } else if variant_of(name) == "large_dataset" {
        if a.thorough() { vec![(60, 3, 20)] } else { vec![(30, 1, 12)] }
    } else if fam.ends_with("_zst") {
        if a.thorough() { vec![(60, 6, 12)] } else { vec![(30, 2, 10)] }
    } else if PRIMARY.contains(&name) {
        if a.thorough() { vec![(60, 24, 10), (400, 6, 44)] } else { vec![(36, 4, 10), (110, 2, 40)] }
    } else if a.thorough() {
        vec![(60, 10, 10), (300, 3, 40)]
    } else {
        vec![(36, 2, 8), (90, 1, 30)]
    };
    let readonly = name.contains("read_only");
    let (mut nev, mut panics, mut refused, mut runs) = (0usize, 0usize, 0usize, 0usize);
    let mut nontrivial_runs = 0usize; // runs in which the container held something at some point
    let mut opcount: Map<String, Value> = Map::new();
    // systematic: compare_range_simd of a range that does not start at 0 against an object holding exactly that range
    // (answers true only if the other side is read from its start), below and above the 64-byte SIMD threshold
    loop {
        reg_reset();
        let first = match guard(|| make(name)) {
            Ok(Some(s)) => s,
            _ => return json!({"constructed": false}),
        };
        if !first.ops().contains(&"compare") || readonly || !first.ops().contains(&"sibling") {
            drop(first);
            break;
        }
        let mut vr = VecRun::<E> { objs: vec![Some(first)], dead: false, nev: 0 };
        tr.reset("seq", name, json!({"fam": fam_of(name), "variant": variant_of(name), "acct": E::ACCT, "readonly": readonly, "regime": "compare_ranges", "seed": a.seed}));
        runs += 1;
        let st = |op: &str, o: usize, i: usize, n: usize, xv: Vec<u32>| Step { op: op.into(), o, i, n, xv };
        let script = vec![
            st("extend_move", 1, 0, 0, (1..=12).collect()),
            st("sibling", 1, 0, 0, vec![]),
            st("extend_move", 2, 0, 0, (3..=12).collect()),
            st("compare", 1, 2, 12, vec![2]),  // true, 10 elements (SIMD path)
            st("compare", 1, 2, 5, vec![2]),   // true, 3 elements (scalar path)
            st("compare", 1, 0, 3, vec![2]),   // false
            st("compare", 1, 1, 11, vec![2]),  // false, SIMD path
            st("compare", 1, 2, 13, vec![2]),  // range beyond the length: refused
            st("compare", 1, 0, 12, vec![2]),  // longer than the other side: refused
            st("compare", 2, 0, 10, vec![1]),  // false: the other side starts with 1, 2
            st("compare", 1, 5, 5, vec![2]),   // empty range: true
            st("set_mut:get_mut", 2, 9, 0, vec![77]),
            st("compare", 1, 2, 12, vec![2]),  // false: last element differs (SIMD tail)
            st("compare", 1, 2, 11, vec![2]),  // true again without the last element
        ];
        let mut tail = vec![];
        for st in &script {
            let e = vr.exec(st);
            if e["op"] == "panic" {
                panics += 1;
            }
            tr.ev(e);
            nev += 1;
            if vr.dead {
                break;
            }
        }
        vr.finish(&mut tail);
        for e in tail {
            tr.ev(e);
            nev += 1;
        }
        nontrivial_runs += 1;
        tr.flush();
        break;
    }
    // systematic: shrink_to_fit at every small length, then push on (the capacity restarts from len), pop, shrink
    // again, clear, shrink to nothing, push
    let shrink_lens: &[usize] = if PRIMARY.contains(&name) || a.thorough() { &[0, 1, 2, 3, 4, 5, 8, 9] } else { &[0, 1, 3] };
    for &k in shrink_lens {
        reg_reset();
        let first = match guard(|| make(name)) {
            Ok(Some(s)) => s,
            _ => return json!({"constructed": false}),
        };
        if !first.ops().contains(&"shrink") || readonly {
            drop(first);
            break;
        }
        let mut vr = VecRun::<E> { objs: vec![Some(first)], dead: false, nev: 0 };
        tr.reset("seq", name, json!({"fam": fam_of(name), "variant": variant_of(name), "acct": E::ACCT, "readonly": readonly, "regime": "shrink_then_push", "k": k, "seed": a.seed}));
        runs += 1;
        let mut val = 1u32;
        let mut script: Vec<&str> = vec!["push"; k];
        script.extend(["shrink", "push", "push", "pop", "shrink", "push", "clear", "shrink", "push", "shrink"]);
        let mut tail = vec![];
        for op in script {
            let st = Step { op: op.into(), o: 1, xv: vec![val], ..Default::default() };
            val += 1;
            let e = vr.exec(&st);
            if e["op"] == "panic" {
                panics += 1;
            }
            tr.ev(e);
            nev += 1;
            if vr.dead {
                break;
            }
        }
        vr.finish(&mut tail);
        for e in tail {
            tr.ev(e);
            nev += 1;
        }
        nontrivial_runs += 1;
        tr.flush();
    }
    for (ri, &(steps, nruns, maxlen)) in regimes.iter().enumerate() {
        for run in 0..nruns {
            let mut rng = rng0.derive(&format!("{name}/{ri}/{run}"));
            reg_reset();
            let first = match guard(|| make(name)) {
                Ok(Some(s)) => s,
                _ => return json!({"constructed": false}),
            };
            let mut vr = VecRun::<E> { objs: vec![Some(first)], dead: false, nev: 0 };
            tr.reset("seq", name, json!({"fam": fam_of(name), "variant": variant_of(name), "acct": E::ACCT, "readonly": readonly, "regime": ri, "seed": a.seed}));
            runs += 1;
            let mut nextval = 1u32;
            let mut tail = vec![];
            let mut held = false;
            // an object that is born with a content (opened from a file): the content is announced first
            if vr.objs[0].as_ref().unwrap().len() > 0 {
                match guard(|| obs_vec(vr.objs[0].as_mut().unwrap().as_mut(), true)) {
                    Ok(p) => tr.ev(json!({"op":"adopt","o":1,"dropped":[],"born":[],"post":p})),
                    Err(m) => {
                        tr.ev(json!({"op":"panic","in":"observe","o":1,"msg":m.chars().take(120).collect::<String>()}));
                        vr.dead = true;
                    }
                }
                nev += 1;
                held = true;
            }
            let big = maxlen > 100;
            for _ in 0..steps {
                let live: Vec<usize> = (1..=vr.objs.len()).filter(|&o| vr.objs[o - 1].is_some()).collect();
                if live.is_empty() {
                    break;
                }
                let o = *rng.pick(&live);
                let len = vr.objs[o - 1].as_ref().unwrap().len();
                let ops = vr.objs[o - 1].as_ref().unwrap().ops();
                let weights = |op: &str| -> u64 {
                    match op {
                        "push" => if len >= maxlen { 2 } else { 30 },
                        "pop" => if len >= maxlen { 30 } else { 12 },
                        "insert" => if len >= maxlen { 1 } else { 10 },
                        "remove" => 9,
                        "set" => 7,
                        "resize" => 5,
                        "extend_move" | "extend_clone" => if len >= maxlen { 0 } else { 5 },
                        "fill" => 4,
                        "clear" => 2,
                        "truncate" => 4,
                        "pop_tail" => 4,
                        "shrink" => 3,
                        "reserve" => 3,
                        "clone" => if live.len() < 3 { 3 } else { 0 },
                        "resize_with" => 4,
                        "copy_from" => 3,
                        "push_n" => if len >= maxlen { 0 } else { 4 },
                        "ensure_capacity" => 3,
                        "with_size" => if live.len() < 3 { 2 } else { 0 },
                        "sibling" => if live.len() < 3 { 4 } else { 0 },
                        "compare" => if live.len() >= 2 { 6 } else { 0 },
                        "reopen" => 2,
                        _ if op.starts_with("push:") => if len >= maxlen { 1 } else { 6 },
                        _ if op.starts_with("set_mut:") => 3,
                        _ => 0,
                    }
                };
                let mut all: Vec<(&str, u64)> = ops.iter().map(|&op| (op, weights(op))).collect();
                if o > 1 {
                    all.push(("drop", 1));
                }
                let total: u64 = all.iter().map(|x| x.1).sum();
                let mut t = rng.below(total.max(1));
                let mut op = all[0].0;
                for (name, w) in &all {
                    if t < *w {
                        op = name;
                        break;
                    }
                    t -= w;
                }
                let mut st = Step { op: op.to_string(), o, ..Default::default() };
                let fresh = |k: usize, nextval: &mut u32| -> Vec<u32> {
                    (0..k).map(|_| { let v = *nextval; *nextval += 1; v }).collect()
                };
                let base = op.split(':').next().unwrap_or(op);
                match base {
                    "push" => st.xv = fresh(1, &mut nextval),
                    "resize_with" => {
                        st.n = rng.below(len as u64 + 7) as usize;
                        st.xv = fresh(st.n.saturating_sub(len), &mut nextval);
                    }
                    "copy_from" => {
                        let mut k = match rng.below(5) {
                            0 => 0,
                            1 => rng.range(8, 12),
                            _ => rng.below(5),
                        } as usize;
                        // a source shorter than the vector makes FastVec::copy_from_slice_fast abort the process
                        // (ensure_capacity(src.len()) below the length, C10-KF8): excluded here, witnessed apart
                        if KF8_EXCLUDED && k != 0 && k < len {
                            k = len + rng.below(3) as usize;
                        }
                        st.xv = fresh(k, &mut nextval);
                    }
                    "push_n" => {
                        st.n = *rng.pick(&[0usize, 1, 3, 15, 16, 17, 33]);
                        st.xv = fresh(1, &mut nextval);
                    }
                    // below the length FastVec::ensure_capacity aborts the process (C10-KF8): excluded here, witnessed apart
                    "ensure_capacity" => st.n = if KF8_EXCLUDED { len + rng.below(12) as usize } else { rng.below(len as u64 + 12) as usize },
                    "with_size" => {
                        st.n = rng.below(7) as usize;
                        st.xv = fresh(1, &mut nextval);
                    }
                    "compare" => {
                        let others: Vec<usize> = live.iter().copied().filter(|&x| x != o).collect();
                        let o2 = *rng.pick(&others);
                        let x = rng.below(len as u64 + 2) as usize;
                        let y = rng.below(len as u64 + 2) as usize;
                        st.i = x.min(y);
                        st.n = x.max(y);
                        if rng.chance(1, 3) {
                            st.i = 0; // a prefix: equal after a clone
                        }
                        st.xv = vec![o2 as u32];
                    }
                    "insert" | "set" | "set_mut" => {
                        st.i = rng.below(len as u64 + 2) as usize;
                        if rng.chance(1, 4) {
                            st.i = if rng.chance(1, 2) { 0 } else { len };
                        }
                        st.xv = fresh(1, &mut nextval);
                    }
                    "remove" => {
                        st.i = rng.below(len as u64 + 2) as usize;
                        if rng.chance(1, 4) {
                            st.i = if rng.chance(1, 2) { 0 } else { len.saturating_sub(1) };
                        }
                    }
                    "resize" => {
                        st.n = rng.below(len as u64 + 7) as usize;
                        if big && rng.chance(1, 3) {
                            st.n = len + rng.range(60, 80) as usize; // a fill of >= 64 bytes for one-byte elements
                        }
                        st.xv = fresh(1, &mut nextval);
                    }
                    "extend_move" | "extend_clone" => {
                        let mut k = if rng.chance(1, 5) { rng.range(8, 12) } else { rng.below(4) } as usize;
                        if big && rng.chance(1, 3) {
                            k = rng.range(60, 70) as usize;
                        }
                        st.xv = fresh(k, &mut nextval);
                    }
                    "fill" => {
                        let x = rng.below(len as u64 + 2) as usize;
                        let y = rng.below(len as u64 + 2) as usize;
                        st.i = x.min(y);
                        st.n = x.max(y);
                        if rng.chance(1, 8) {
                            std::mem::swap(&mut st.i, &mut st.n);
                        }
                        st.xv = fresh(1, &mut nextval);
                    }
                    "truncate" | "pop_tail" => st.n = rng.below(len as u64 + 3) as usize,
                    "reserve" => st.n = rng.below(20) as usize,
                    _ => {}
                }
                let e = vr.exec(&st);
                if e["op"] == "panic" {
                    panics += 1;
                }
                if e["ok"] == json!(false) {
                    refused += 1;
                }
                let c = opcount.entry(op.to_string()).or_insert(json!(0));
                *c = json!(c.as_u64().unwrap_or(0) + 1);
                if e["post"]["len"].as_u64().unwrap_or(0) > 0 {
                    held = true;
                }
                tr.ev(e);
                nev += 1;
                if vr.dead {
                    break;
                }
            }
            vr.finish(&mut tail);
            for e in tail {
                tr.ev(e);
                nev += 1;
            }
            if held {
                nontrivial_runs += 1;
            }
            tr.flush();
        }
    }
    tr.close();
    json!({"events": nev, "runs": runs, "nontrivial_runs": nontrivial_runs, "panics": panics, "refused": refused, "ops": opcount,
           "files": tr.files.iter().map(|p| p.display().to_string()).collect::<Vec<_>>()})
}

// ---------------------------------------------------------------- B2: TLC behaviours (vectors)

fn vals_of(c: &Value) -> Vec<i64> {
    c.as_array().map(|a| a.iter().map(|e| e[0].as_i64().unwrap_or(-9)).collect()).unwrap_or_default()
}
fn exp_vals(v: &Value) -> Vec<i64> {
    v.as_array().map(|a| a.iter().map(|e| e.as_i64().unwrap_or(-8)).collect()).unwrap_or_default()
}

/// a behaviour = JSON array of steps {op,o,i,n,xv, ok, r (option of value), st (values per object), na}
fn replay_vec<E: Elem>(a: &Args, name: &str, behaviours: &[Value], make: &dyn Fn(&str) -> Option<Box<dyn VecS<E>>>) -> Value {
    let mut tr = Tracer::new(&a.out, &format!("seq-b2-{}", sanitize(name)));
    tr.max_events = 2500;
    let mut rng = Rng::new(a.seed).derive("b2sample").derive(name);
    let sample_every = a.get_u64("sample", 400);
    let max_mismatch = a.get_u64("max_mismatch", 60) as usize;
    // MmapVec works through files: every k-th history only; the presets that write the file on every call or
    // create megabytes are left to B1
    let stride = match (fam_of(name).as_str(), variant_of(name).as_str()) {
        ("mmapvec", "large_dataset") | ("mmapvec", "read_only_open") => usize::MAX,
        // zero-sized elements carry no value: the value-wise comparison of B2 does not apply
        (f, _) if f.ends_with("_zst") => usize::MAX,
        ("mmapvec", "persistent_cache") | ("mmapvec", "builder_flags") => 20 * a.get_u64("mmap_stride", 7) as usize,
        ("mmapvec", "cap_1_x2") | ("mmapvec", "cap_3_golden") => a.get_u64("mmap_stride", 7) as usize,
        ("mmapvec", _) => (if a.thorough() { 20 } else { 5 }) * a.get_u64("mmap_stride", 7) as usize,
        _ => 1,
    };
    let (mut executed, mut unsupported, mut mism, mut written, mut refused) = (0usize, 0usize, 0usize, 0usize, 0usize);
    // mismatching behaviours are written for TLC up to `per_key` per kind of difference (operation + what differed)
    let per_key = a.get_u64("per_key", 4) as usize;
    let mut by_key: std::collections::BTreeMap<String, (usize, usize)> = Default::default();
    let mut nontrivial = 0usize; // executed behaviours in which some step changes the content TLC expects
    for (bi, b) in behaviours.iter().enumerate() {
        if stride == usize::MAX || (stride > 1 && bi % stride != 0) {
            continue;
        }
        let steps = match b.as_array() {
            Some(x) => x,
            None => continue,
        };
        reg_reset();
        let first = match guard(|| make(name)) {
            Ok(Some(s)) => s,
            _ => break,
        };
        let mut vr = VecRun::<E> { objs: vec![Some(first)], dead: false, nev: 0 };
        let mut evs: Vec<Value> = vec![];
        let mut differs = false;
        let mut key = String::new();
        // persistent differences are noted once: when an object's content starts to differ, when the surplus of
        // live elements changes
        let mut obj_bad: Vec<bool> = vec![false; 8];
        let mut live_off = 0i64;
        let mut skip = false;
        for sj in steps {
            let st = Step::from_json(sj);
            if !vr.supports(&st) {
                skip = true;
                break;
            }
            let e = vr.exec(&st);
            if vr.dead {
                differs = true;
                key = format!("{}:panic", st.op);
                evs.push(e);
                break;
            }
            // the key of a behaviour = the set of (operation, what differed) over all its steps
            let mut note = |what: &str, differs: &mut bool| {
                let k = format!("{}:{}", st.op, what);
                if !key.split('+').any(|x| x == k) {
                    if !key.is_empty() {
                        key.push('+');
                    }
                    key.push_str(&k);
                }
                *differs = true;
            };
            // equality with what TLC computed: success flag, returned value, content of every object,
            // number of live elements; the registry must have seen no destructor call on a dead element
            if let Some(ok) = e.get("ok").and_then(|x| x.as_bool()) {
                if !ok {
                    refused += 1;
                }
                if ok != sj["ok"].as_bool().unwrap_or(true) {
                    note("ok", &mut differs);
                }
            }
            if st.op == "pop" || st.op == "remove" {
                let got: Vec<i64> = vals_of(&e["r"]);
                if got != exp_vals(&sj["r"]) {
                    note("result", &mut differs);
                }
            }
            let exp_st = sj["st"].as_array().cloned().unwrap_or_default();
            for (oi, ob) in vr.objs.iter().enumerate() {
                if let Some(s) = ob {
                    let got: Vec<i64> = s.slice().iter().map(|x| x.pr().0).collect();
                    let bad = exp_st.get(oi).map(exp_vals) != Some(got);
                    if bad && !obj_bad[oi.min(7)] {
                        note("content", &mut differs);
                    }
                    if bad {
                        differs = true;
                    }
                    obj_bad[oi.min(7)] = bad;
                }
            }
            if E::ACCT {
                let off = reg_live() - sj["na"].as_i64().unwrap_or(-1);
                if off != live_off {
                    note("live", &mut differs);
                }
                if off != 0 {
                    differs = true;
                }
                live_off = off;
            }
            if E::ACCT && reg_bad() != 0 {
                note("dead_drop", &mut differs);
            }
            evs.push(e);
        }
        if skip {
            for bx in vr.objs.drain(..) {
                drop(bx);
            }
            unsupported += 1;
            continue;
        }
        vr.finish(&mut evs);
        if E::ACCT && !vr.dead && (reg_live() != 0 || reg_bad() != 0) {
            if reg_live() != live_off || reg_bad() != 0 {
                if !key.is_empty() {
                    key.push('+');
                }
                key.push_str("drop:live");
            }
            differs = true;
        }
        executed += 1;
        {
            let mut prev = json!(null);
            let mut changed = false;
            for (i, sj) in steps.iter().enumerate() {
                if i > 0 && sj["st"] != prev || i == 0 && sj["st"].as_array().map_or(false, |a| a.iter().any(|x| x.as_array().map_or(false, |y| !y.is_empty()))) {
                    changed = true;
                }
                prev = sj["st"].clone();
            }
            if changed {
                nontrivial += 1;
            }
        }
        if differs {
            mism += 1;
        }
        let sampled = rng.below(sample_every) == 0;
        let mut take = false;
        if differs {
            let k = by_key.entry(key.clone()).or_insert((0, 0));
            k.0 += 1;
            if k.1 < per_key && written < max_mismatch {
                k.1 += 1;
                take = true;
            }
        }
        if take || sampled {
            if take {
                written += 1;
            }
            tr.reset("seq", name, json!({"fam": fam_of(name), "variant": variant_of(name), "acct": E::ACCT, "readonly": false, "b2": true, "behaviour": bi, "differs": differs}));
            for e in evs {
                tr.ev(e);
            }
            tr.flush();
        }
    }
    tr.close();
    let kinds: Map<String, Value> = by_key.iter().map(|(k, v)| (k.clone(), json!({"behaviours": v.0, "judged": v.1}))).collect();
    json!({"behaviours": executed, "nontrivial": nontrivial, "unsupported": unsupported, "mismatching": mism, "mismatch_traces_written": written, "refused": refused, "mismatch_kinds": kinds,
           "events": tr.total_events, "runs": tr.runs, "files": tr.files.iter().map(|p| p.display().to_string()).collect::<Vec<_>>()})
}

// ================================================================ queue subjects

/// Uniform view of a FIFO ring buffer under test (elements are always drop-counting boxes)
/// element types the queues are driven with (their Debug impl records the visit of the formatter)
pub trait QElem: Elem + std::fmt::Debug {}
impl QElem for El {}
impl QElem for Z {}

pub trait DqS<E: QElem> {
    fn ops(&self) -> &'static [&'static str];
    fn push_back(&mut self, x: E) -> bool;
    fn pop_front(&mut self) -> Option<E>;
    fn push_bulk(&mut self, _xs: &[E]) -> Option<usize> {
        unreachable!()
    }
    fn pop_bulk(&mut self, _out: &mut [E]) -> usize {
        unreachable!()
    }
    fn reserve(&mut self, _n: usize) -> bool {
        unreachable!()
    }
    fn clear(&mut self);
    fn clone_obj(&self) -> Option<Box<dyn DqS<E>>> {
        unreachable!()
    }
    fn len(&self) -> usize;
    fn cap(&self) -> usize;
    fn front(&self) -> Option<(i64, i64)>;
    fn back(&self) -> Option<(i64, i64)>;
    /// the Debug formatter walks the elements in order; El's Debug records each visit
    fn dbg(&self) -> String;
    /// the convenience aliases push() / pop()
    fn push_alias(&mut self, x: E) -> bool;
    fn pop_alias(&mut self) -> Option<E>;
    /// twins of len() (is_empty, statistics) and of capacity()
    fn alt_len(&self) -> Vec<usize>;
    fn alt_cap(&self) -> Vec<usize> {
        vec![]
    }
    fn is_full(&self) -> Option<bool> {
        None
    }
}

struct QFixed<E: QElem, const N: usize>(FixedCircularQueue<E, N>);
impl<E: QElem, const N: usize> DqS<E> for QFixed<E, N> {
    fn ops(&self) -> &'static [&'static str] {
        &["push_back", "pop_front", "push_back:push", "pop_front:pop", "clear"]
    }
    fn push_alias(&mut self, x: E) -> bool {
        self.0.push(x).is_ok()
    }
    fn pop_alias(&mut self) -> Option<E> {
        self.0.pop()
    }
    fn alt_len(&self) -> Vec<usize> {
        vec![empty_as_len(self.0.is_empty(), self.0.len())]
    }
    fn is_full(&self) -> Option<bool> {
        Some(self.0.is_full())
    }
    fn push_back(&mut self, x: E) -> bool {
        self.0.push_back(x).is_ok()
    }
    fn pop_front(&mut self) -> Option<E> {
        self.0.pop_front()
    }
    fn clear(&mut self) {
        self.0.clear()
    }
    fn len(&self) -> usize {
        self.0.len()
    }
    fn cap(&self) -> usize {
        self.0.capacity()
    }
    fn front(&self) -> Option<(i64, i64)> {
        self.0.front().map(|e| e.pr())
    }
    fn back(&self) -> Option<(i64, i64)> {
        self.0.back().map(|e| e.pr())
    }
    fn dbg(&self) -> String {
        format!("{:?}", self.0)
    }
}

struct QAuto<E: QElem>(AutoGrowCircularQueue<E>);
impl<E: QElem> DqS<E> for QAuto<E> {
    fn ops(&self) -> &'static [&'static str] {
        &["push_back", "pop_front", "push_back:push", "pop_front:pop", "push_bulk", "pop_bulk", "reserve", "clear", "clone"]
    }
    fn push_alias(&mut self, x: E) -> bool {
        self.0.push(x).is_ok()
    }
    fn pop_alias(&mut self) -> Option<E> {
        self.0.pop()
    }
    fn alt_len(&self) -> Vec<usize> {
        vec![empty_as_len(self.0.is_empty(), self.0.len()), self.0.performance_stats().length]
    }
    fn alt_cap(&self) -> Vec<usize> {
        vec![self.0.performance_stats().capacity]
    }
    fn push_back(&mut self, x: E) -> bool {
        self.0.push_back(x).is_ok()
    }
    fn pop_front(&mut self) -> Option<E> {
        self.0.pop_front()
    }
    fn push_bulk(&mut self, xs: &[E]) -> Option<usize> {
        self.0.push_bulk(xs).ok()
    }
    fn pop_bulk(&mut self, out: &mut [E]) -> usize {
        self.0.pop_bulk(out)
    }
    fn reserve(&mut self, n: usize) -> bool {
        self.0.reserve(n).is_ok()
    }
    fn clear(&mut self) {
        self.0.clear()
    }
    fn clone_obj(&self) -> Option<Box<dyn DqS<E>>> {
        Some(Box::new(QAuto(self.0.clone())))
    }
    fn len(&self) -> usize {
        self.0.len()
    }
    fn cap(&self) -> usize {
        self.0.capacity()
    }
    fn front(&self) -> Option<(i64, i64)> {
        self.0.front().map(|e| e.pr())
    }
    fn back(&self) -> Option<(i64, i64)> {
        self.0.back().map(|e| e.pr())
    }
    fn dbg(&self) -> String {
        format!("{:?}", self.0)
    }
}

// capacities that are and are not powers of two (index arithmetic by mask versus by remainder)
const DQ_FIXED: &[&str] = &["fixedq:1", "fixedq:2", "fixedq:3", "fixedq:4", "fixedq:5", "fixedq:6", "fixedq:7", "fixedq:8", "fixedq:16"];
const DQ_GROW: &[&str] = &[
    "autogrow:new", "autogrow:cap_0", "autogrow:cap_1", "autogrow:cap_2", "autogrow:cap_3", "autogrow:cap_4", "autogrow:cap_5", "autogrow:cap_6",
    "autogrow:cap_7", "autogrow:cap_8",
];
/// queues of a zero-sized element type (no identity: the content is its length)
const DQ_ZST: &[&str] = &["fixedq_zst:3", "autogrow_zst:new", "autogrow_zst:cap_3"];
fn fixed_cap(name: &str) -> usize {
    if fam_of(name) == "fixedq" || fam_of(name) == "fixedq_zst" {
        variant_of(name).parse().unwrap_or(0)
    } else {
        0
    }
}
fn no_grow_limit(_name: &str) -> usize {
    0
}
fn make_dq<E: QElem>(name: &str) -> Option<Box<dyn DqS<E>>> {
    let capn = || variant_of(name).trim_start_matches("cap_").parse::<usize>().unwrap_or(4);
    Some(match fam_of(name).as_str() {
        "fixedq" | "fixedq_zst" => match fixed_cap(name) {
            1 => Box::new(QFixed::<E, 1>(FixedCircularQueue::new())),
            2 => Box::new(QFixed::<E, 2>(FixedCircularQueue::new())),
            3 => Box::new(QFixed::<E, 3>(FixedCircularQueue::new())),
            4 => Box::new(QFixed::<E, 4>(FixedCircularQueue::new())),
            5 => Box::new(QFixed::<E, 5>(FixedCircularQueue::new())),
            6 => Box::new(QFixed::<E, 6>(FixedCircularQueue::new())),
            7 => Box::new(QFixed::<E, 7>(FixedCircularQueue::new())),
            8 => Box::new(QFixed::<E, 8>(FixedCircularQueue::new())),
            16 => Box::new(QFixed::<E, 16>(FixedCircularQueue::new())),
            _ => return None,
        },
        "autogrow" | "autogrow_zst" => {
            if variant_of(name) == "new" {
                Box::new(QAuto(AutoGrowCircularQueue::new()))
            } else {
                Box::new(QAuto(AutoGrowCircularQueue::with_capacity(capn())))
            }
        }
        _ => return None,
    })
}

fn obs_dq<E: QElem>(s: &dyn DqS<E>) -> Value {
    let _ = take_visit();
    let _text = s.dbg();
    let c = take_visit();
    let full = s.is_full();
    json!({"len": s.len(), "cap": s.cap().min(1 << 30), "front": oej(s.front()), "back": oej(s.back()), "has_c": true, "c": esj(&c),
           "alt_len": s.alt_len().iter().map(|&x| x.min(1 << 30)).collect::<Vec<_>>(),
           "alt_cap": s.alt_cap().iter().map(|&x| x.min(1 << 30)).collect::<Vec<_>>(),
           "has_full": full.is_some(), "full": full.unwrap_or(false)})
}

pub struct DqRun<E: QElem> {
    objs: Vec<Option<Box<dyn DqS<E>>>>,
    dead: bool,
}
impl<E: QElem> DqRun<E> {
    fn supports(&self, st: &Step) -> bool {
        if st.op == "drop" {
            return self.objs.get(st.o - 1).map_or(false, |x| x.is_some());
        }
        match self.objs.get(st.o - 1) {
            Some(Some(s)) => s.ops().contains(&st.op.as_str()),
            _ => false,
        }
    }
    fn exec(&mut self, st: &Step) -> Value {
        let o = st.o;
        let _ = (take_drops(), take_born());
        let nobj = self.objs.len();
        let objs = &mut self.objs;
        let r = guard(|| -> (Value, Option<usize>) {
            if st.op == "drop" {
                let cap0 = objs[o - 1].as_ref().unwrap().cap();
                let b = objs[o - 1].take();
                drop(b);
                return (json!({"op":"drop","o":o,"cap0":cap0.min(1 << 30)}), None);
            }
            if st.op == "clone" {
                let cap0 = objs[o - 1].as_ref().unwrap().cap();
                let c = objs[o - 1].as_ref().unwrap().clone_obj().unwrap();
                objs.push(Some(c));
                return (json!({"op":"clone","o":o,"o2":nobj + 1,"cap0":cap0.min(1 << 30)}), Some(nobj + 1));
            }
            let s = objs[o - 1].as_mut().unwrap();
            let cap0 = s.cap().min(1 << 30);
            let mut ev = match st.op.as_str() {
                "push_back" => {
                    let x = E::make(st.xv[0]);
                    let px = x.pr();
                    let ok = s.push_back(x);
                    json!({"op":"push_back","o":o,"x":ej(px),"ok":ok})
                }
                "pop_front" => {
                    let r = s.pop_front().map(|e| e.consume());
                    json!({"op":"pop_front","o":o,"r":oej(r)})
                }
                "push_back:push" => {
                    let x = E::make(st.xv[0]);
                    let px = x.pr();
                    let ok = s.push_alias(x);
                    json!({"op":"push_back","how":"push","o":o,"x":ej(px),"ok":ok})
                }
                "pop_front:pop" => {
                    let r = s.pop_alias().map(|e| e.consume());
                    json!({"op":"pop_front","how":"pop","o":o,"r":oej(r)})
                }
                "push_bulk" => {
                    let xs: Vec<E> = st.xv.iter().map(|&v| E::make(v)).collect();
                    let pxs: Vec<(i64, i64)> = xs.iter().map(|e| e.pr()).collect();
                    let r = s.push_bulk(&xs);
                    for e in xs {
                        e.consume();
                    }
                    json!({"op":"push_bulk","o":o,"xs":esj(&pxs),"ok":r.is_some(),"r":r.unwrap_or(0)})
                }
                "pop_bulk" => {
                    // the caller's buffer holds filler elements; overwritten fillers are destroyed by the call
                    let mut out: Vec<E> = st.xv.iter().map(|&v| E::make(v)).collect();
                    let fill: Vec<(i64, i64)> = out.iter().map(|e| e.pr()).collect();
                    let r = s.pop_bulk(&mut out);
                    let after: Vec<(i64, i64)> = out.into_iter().map(|e| e.consume()).collect();
                    json!({"op":"pop_bulk","o":o,"fill":esj(&fill),"out":esj(&after),"r":r})
                }
                "reserve" => json!({"op":"reserve","o":o,"n":st.n,"ok":s.reserve(st.n)}),
                "clear" => {
                    s.clear();
                    json!({"op":"clear","o":o})
                }
                other => panic!("harness: unknown op {other}"),
            };
            ev["cap0"] = json!(cap0);
            (ev, Some(o))
        });
        let dropped = take_drops();
        let born = take_born();
        match r {
            Ok((mut ev, watch)) => {
                ev["dropped"] = esj(&dropped);
                ev["born"] = esj(&born);
                if let Some(w) = watch {
                    let objs = &self.objs;
                    match guard(|| obs_dq(objs[w - 1].as_ref().unwrap().as_ref())) {
                        Ok(p) => ev["post"] = p,
                        Err(msg) => {
                            self.dead = true;
                            return json!({"op":"panic","in":"observe","o":w,"msg":msg.chars().take(120).collect::<String>()});
                        }
                    }
                    if ev["op"] == "clone" {
                        ev["src"] = obs_dq(self.objs[o - 1].as_ref().unwrap().as_ref());
                    }
                }
                ev
            }
            Err(msg) => {
                self.dead = true;
                json!({"op":"panic","in":st.op,"o":o,"msg":msg.chars().take(120).collect::<String>()})
            }
        }
    }
    fn finish(&mut self, out: &mut Vec<Value>) {
        if !self.dead {
            for o in 1..=self.objs.len() {
                if self.objs[o - 1].is_some() {
                    let e = self.exec(&Step { op: "drop".into(), o, ..Default::default() });
                    out.push(e);
                    if self.dead {
                        break;
                    }
                }
            }
        }
        if self.dead {
            for b in self.objs.drain(..) {
                std::mem::forget(b);
            }
        }
    }
}

fn dq_reset_cfg(name: &str, acct: bool, extra: Value) -> Value {
    let mut v = json!({"fam": fam_of(name), "variant": variant_of(name), "acct": acct, "fixedcap": fixed_cap(name)});
    if let (Some(o), Some(c)) = (v.as_object_mut(), extra.as_object()) {
        for (k, x) in c {
            o.insert(k.clone(), x.clone());
        }
    }
    v
}

// ---------------------------------------------------------------- B1: queues

/// systematic scenario for a growable queue: put the head at offset h, fill to m elements, then force
/// growth through push_back / push_bulk / reserve, then drain through pop_bulk and pop_front
fn wrapgrow_steps(h: usize, m: usize, mode: usize, nextval: &mut u32) -> Vec<Step> {
    let mut v = vec![];
    let mut fresh = |k: usize| -> Vec<u32> {
        (0..k).map(|_| { let x = *nextval; *nextval += 1; x }).collect()
    };
    for _ in 0..h {
        v.push(Step { op: "push_back".into(), o: 1, xv: fresh(1), ..Default::default() });
        v.push(Step { op: "pop_front".into(), o: 1, ..Default::default() });
    }
    for _ in 0..m {
        v.push(Step { op: "push_back".into(), o: 1, xv: fresh(1), ..Default::default() });
    }
    match mode {
        0 => {
            for _ in 0..3 {
                v.push(Step { op: "push_back".into(), o: 1, xv: fresh(1), ..Default::default() });
            }
        }
        1 => v.push(Step { op: "push_bulk".into(), o: 1, xv: fresh(3), ..Default::default() }),
        2 => {
            v.push(Step { op: "reserve".into(), o: 1, n: m + 2, ..Default::default() });
            v.push(Step { op: "push_back".into(), o: 1, xv: fresh(1), ..Default::default() });
        }
        _ => {
            v.push(Step { op: "clone".into(), o: 1, ..Default::default() });
            v.push(Step { op: "push_back".into(), o: 2, xv: fresh(1), ..Default::default() });
            v.push(Step { op: "pop_front".into(), o: 2, ..Default::default() });
        }
    }
    v.push(Step { op: "pop_bulk".into(), o: 1, xv: fresh(2), ..Default::default() });
    v.push(Step { op: "push_back".into(), o: 1, xv: fresh(1), ..Default::default() });
    v.push(Step { op: "pop_bulk".into(), o: 1, xv: fresh(m + 4), ..Default::default() });
    v.push(Step { op: "pop_front".into(), o: 1, ..Default::default() });
    v
}

fn drive_dq<E: QElem>(a: &Args, name: &str) -> Value {
    let mut tr = Tracer::new(&a.out, &format!("dq-{}", sanitize(name)));
    tr.max_events = 2500;
    let rng0 = Rng::new(a.seed);
    let fam = fam_of(name);
    let (mut nev, mut panics, mut refused, mut runs) = (0usize, 0usize, 0usize, 0usize);
    let mut nontrivial_runs = 0usize;
    let mut opcount: Map<String, Value> = Map::new();
    let mut run_steps = |tr: &mut Tracer, steps: Option<Vec<Step>>, nsteps: usize, rng: &mut Rng, tag: Value| {
        reg_reset();
        let first = match guard(|| make_dq::<E>(name)) {
            Ok(Some(s)) => s,
            _ => return,
        };
        let mut dr = DqRun::<E> { objs: vec![Some(first)], dead: false };
        tr.reset("deque", name, dq_reset_cfg(name, E::ACCT, tag));
        runs += 1;
        let mut nextval = 1u32;
        let limit = no_grow_limit(name);
        let mut it = steps.map(|s| s.into_iter());
        let mut held = false;
        for _ in 0..nsteps {
            let st = match &mut it {
                Some(i) => match i.next() {
                    Some(s) => s,
                    None => break,
                },
                None => {
                    let live: Vec<usize> = (1..=dr.objs.len()).filter(|&o| dr.objs[o - 1].is_some()).collect();
                    let o = *rng.pick(&live);
                    let s = dr.objs[o - 1].as_ref().unwrap();
                    let (len, cap) = (s.len(), s.cap());
                    let near_full = len + 2 >= cap;
                    let phase_fill = (rng.below(40) as usize) < 24;
                    let w = |op: &str| -> u64 {
                        match op {
                            "push_back" => if limit > 0 && len >= limit { 0 } else if phase_fill || near_full { 32 } else { 20 },
                            "push_back:push" => if limit > 0 && len >= limit { 0 } else { 8 },
                            "pop_front" => if len > 24 { 50 } else { 22 },
                            "pop_front:pop" => if len > 24 { 10 } else { 6 },
                            "push_bulk" => if len > 24 { 0 } else { 8 },
                            "pop_bulk" => 8,
                            "reserve" => 3,
                            "clear" => 2,
                            "clone" => if live.len() < 3 { 3 } else { 0 },
                            _ => 0,
                        }
                    };
                    let mut all: Vec<(&str, u64)> = s.ops().iter().map(|&op| (op, w(op))).collect();
                    if o > 1 {
                        all.push(("drop", 2));
                    }
                    let total: u64 = all.iter().map(|x| x.1).sum();
                    let mut t = rng.below(total.max(1));
                    let mut op = all[0].0;
                    for (n, wt) in &all {
                        if t < *wt {
                            op = n;
                            break;
                        }
                        t -= wt;
                    }
                    let mut st = Step { op: op.to_string(), o, ..Default::default() };
                    let mut fresh = |k: usize| -> Vec<u32> {
                        (0..k).map(|_| { let x = nextval; nextval += 1; x }).collect()
                    };
                    match op {
                        "push_back" | "push_back:push" => st.xv = fresh(1),
                        "push_bulk" => st.xv = fresh(rng.below(6) as usize),
                        "pop_bulk" => st.xv = fresh(rng.below(6) as usize),
                        "reserve" => st.n = rng.below(12) as usize,
                        _ => {}
                    }
                    st
                }
            };
            if !dr.supports(&st) {
                break;
            }
            let e = dr.exec(&st);
            if e["op"] == "panic" {
                panics += 1;
            }
            if e["ok"] == json!(false) {
                refused += 1;
            }
            let c = opcount.entry(st.op.clone()).or_insert(json!(0));
            *c = json!(c.as_u64().unwrap_or(0) + 1);
            if e["post"]["len"].as_u64().unwrap_or(0) > 0 {
                held = true;
            }
            tr.ev(e);
            nev += 1;
            if dr.dead {
                break;
            }
        }
        let mut tail = vec![];
        dr.finish(&mut tail);
        for e in tail {
            tr.ev(e);
            nev += 1;
        }
        if held {
            nontrivial_runs += 1;
        }
        tr.flush();
    };
    // random histories
    let cap_hint = match fam.as_str() {
        "fixedq" | "fixedq_zst" => fixed_cap(name),
        _ => 8,
    };
    let (nruns, steps) = if a.thorough() { (16, 60 + 12 * cap_hint) } else { (3, 30 + 5 * cap_hint) };
    for run in 0..nruns {
        let mut rng = rng0.derive(&format!("{name}/r/{run}"));
        run_steps(&mut tr, None, steps, &mut rng, json!({"kind": "random", "seed": a.seed}));
    }
    // fixed queues: the head at every residue, filled to the brim across the wrap point, one push too many, drained
    if fam == "fixedq" || fam == "fixedq_zst" {
        let n = fixed_cap(name);
        let mut nextval = 1u32;
        for h in 0..n {
            if !a.thorough() && n > 8 && h % 3 != 1 {
                continue;
            }
            let mut steps = vec![];
            let mut fresh = |k: usize| -> Vec<u32> {
                (0..k).map(|_| { let x = nextval; nextval += 1; x }).collect()
            };
            for i in 0..h {
                let alias = i % 2 == 1;
                steps.push(Step { op: if alias { "push_back:push" } else { "push_back" }.into(), o: 1, xv: fresh(1), ..Default::default() });
                steps.push(Step { op: if alias { "pop_front:pop" } else { "pop_front" }.into(), o: 1, ..Default::default() });
            }
            for _ in 0..n + 1 {
                steps.push(Step { op: "push_back".into(), o: 1, xv: fresh(1), ..Default::default() });
            }
            for i in 0..n + 1 {
                steps.push(Step { op: if i % 2 == 1 { "pop_front:pop" } else { "pop_front" }.into(), o: 1, ..Default::default() });
            }
            let k = steps.len();
            let mut rng = rng0.derive("unused");
            run_steps(&mut tr, Some(steps), k, &mut rng, json!({"kind": "rotate", "h": h}));
        }
    }
    // growth while wrapped at every head offset (growable queues)
    // (quick tier: only for the requested capacities that are not rounded up - cap_3 behaves as cap_4, cap_5..7 as cap_8)
    let c0 = if fam.starts_with("autogrow") { make_dq::<E>(name).map_or(0, |q| q.cap()) } else { 0 };
    let requested = variant_of(name).trim_start_matches("cap_").parse::<usize>().unwrap_or(c0);
    if fam.starts_with("autogrow") && (a.thorough() || requested == c0 || requested == 0) && c0 > 0 {
        let mut nextval = 1u32;
        let modes: Vec<usize> = if a.thorough() { vec![0, 1, 2, 3] } else { vec![0, 1, 2, 3] };
        for h in 0..c0 {
            for (mi, &mode) in modes.iter().enumerate() {
                // quick: each head offset with every growth mode, fill level alternating
                let ms: Vec<usize> = if a.thorough() { vec![c0.saturating_sub(2), c0 - 1] } else { vec![if (h + mi) % 2 == 0 { c0 - 1 } else { c0.saturating_sub(2) }] };
                for m in ms {
                    let steps = wrapgrow_steps(h, m, mode, &mut nextval);
                    let n = steps.len();
                    let mut rng = rng0.derive("unused");
                    run_steps(&mut tr, Some(steps), n, &mut rng, json!({"kind": "wrapgrow", "h": h, "m": m, "mode": mode}));
                }
            }
        }
    }
    tr.close();
    json!({"events": nev, "runs": runs, "nontrivial_runs": nontrivial_runs, "panics": panics, "refused": refused, "ops": opcount,
           "files": tr.files.iter().map(|p| p.display().to_string()).collect::<Vec<_>>()})
}

// ---------------------------------------------------------------- B2: TLC behaviours (queues)

/// a behaviour = JSON array of steps {op,o,n,xv, cap, ok, r, st (values per object), na}
fn replay_dq<E: QElem>(a: &Args, name: &str, behaviours: &[Value]) -> Value {
    let mut tr = Tracer::new(&a.out, &format!("dq-b2-{}", sanitize(name)));
    tr.max_events = 2500;
    let mut rng = Rng::new(a.seed).derive("b2sample").derive(name);
    let sample_every = a.get_u64("sample", 400);
    let max_mismatch = a.get_u64("max_mismatch", 60) as usize;
    let fcap = fixed_cap(name);
    let (mut executed, mut unsupported, mut mism, mut written, mut refused) = (0usize, 0usize, 0usize, 0usize, 0usize);
    // mismatching behaviours are written for TLC up to `per_key` per kind of difference (operation + what differed)
    let per_key = a.get_u64("per_key", 4) as usize;
    let mut by_key: std::collections::BTreeMap<String, (usize, usize)> = Default::default();
    let mut nontrivial = 0usize; // executed behaviours in which some step changes the content TLC expects
    for (bi, b) in behaviours.iter().enumerate() {
        let steps = match b.as_array() {
            Some(x) => x,
            None => continue,
        };
        // behaviours generated for a fixed capacity are for the queue of that capacity only
        if steps.first().map_or(0, |s| s["cap"].as_u64().unwrap_or(0) as usize) != fcap {
            continue;
        }
        reg_reset();
        let first = match guard(|| make_dq::<E>(name)) {
            Ok(Some(s)) => s,
            _ => break,
        };
        let mut dr = DqRun::<E> { objs: vec![Some(first)], dead: false };
        let mut evs: Vec<Value> = vec![];
        let mut differs = false;
        let mut key = String::new();
        // persistent differences are noted once: when an object's content starts to differ, when the surplus of
        // live elements changes
        let mut obj_bad: Vec<bool> = vec![false; 8];
        let mut live_off = 0i64;
        let mut skip = false;
        for sj in steps {
            let st = Step::from_json(sj);
            if !dr.supports(&st) {
                skip = true;
                break;
            }
            let e = dr.exec(&st);
            if dr.dead {
                differs = true;
                key = format!("{}:panic", st.op);
                evs.push(e);
                break;
            }
            // the key of a behaviour = the set of (operation, what differed) over all its steps
            let mut note = |what: &str, differs: &mut bool| {
                let k = format!("{}:{}", st.op, what);
                if !key.split('+').any(|x| x == k) {
                    if !key.is_empty() {
                        key.push('+');
                    }
                    key.push_str(&k);
                }
                *differs = true;
            };
            if let Some(ok) = e.get("ok").and_then(|x| x.as_bool()) {
                if !ok {
                    refused += 1;
                }
                if ok != sj["ok"].as_bool().unwrap_or(true) {
                    note("ok", &mut differs);
                }
            }
            if st.op == "pop_front" && vals_of(&e["r"]) != exp_vals(&sj["r"]) {
                note("result", &mut differs);
            }
            if st.op == "pop_bulk" && e["r"].as_i64() != sj["rn"].as_i64() {
                note("result", &mut differs);
            }
            let exp_st = sj["st"].as_array().cloned().unwrap_or_default();
            for (oi, ob) in dr.objs.iter().enumerate() {
                if let Some(s) = ob {
                    let _ = take_visit();
                    let _t = s.dbg();
                    let got: Vec<i64> = take_visit().iter().map(|p| p.0).collect();
                    let bad_len = exp_st.get(oi).map(|x| x.as_array().map_or(0, |y| y.len())) != Some(s.len());
                    let bad = bad_len || exp_st.get(oi).map(exp_vals) != Some(got);
                    if bad && !obj_bad[oi.min(7)] {
                        note(if bad_len { "len" } else { "content" }, &mut differs);
                    }
                    if bad {
                        differs = true;
                    }
                    obj_bad[oi.min(7)] = bad;
                }
            }
            {
                let off = reg_live() - sj["na"].as_i64().unwrap_or(-1);
                if off != live_off {
                    note("live", &mut differs);
                }
                if off != 0 {
                    differs = true;
                }
                live_off = off;
            }
            if reg_bad() != 0 {
                note("dead_drop", &mut differs);
            }
            evs.push(e);
        }
        if skip {
            for bx in dr.objs.drain(..) {
                drop(bx);
            }
            unsupported += 1;
            continue;
        }
        dr.finish(&mut evs);
        if !dr.dead && (reg_live() != 0 || reg_bad() != 0) {
            if reg_live() != live_off || reg_bad() != 0 {
                if !key.is_empty() {
                    key.push('+');
                }
                key.push_str("drop:live");
            }
            differs = true;
        }
        executed += 1;
        {
            let mut prev = json!(null);
            let mut changed = false;
            for (i, sj) in steps.iter().enumerate() {
                if i > 0 && sj["st"] != prev || i == 0 && sj["st"].as_array().map_or(false, |a| a.iter().any(|x| x.as_array().map_or(false, |y| !y.is_empty()))) {
                    changed = true;
                }
                prev = sj["st"].clone();
            }
            if changed {
                nontrivial += 1;
            }
        }
        if differs {
            mism += 1;
        }
        let sampled = rng.below(sample_every) == 0;
        let mut take = false;
        if differs {
            let k = by_key.entry(key.clone()).or_insert((0, 0));
            k.0 += 1;
            if k.1 < per_key && written < max_mismatch {
                k.1 += 1;
                take = true;
            }
        }
        if take || sampled {
            if take {
                written += 1;
            }
            tr.reset("deque", name, dq_reset_cfg(name, E::ACCT, json!({"b2": true, "behaviour": bi, "differs": differs})));
            for e in evs {
                tr.ev(e);
            }
            tr.flush();
        }
    }
    tr.close();
    let kinds: Map<String, Value> = by_key.iter().map(|(k, v)| (k.clone(), json!({"behaviours": v.0, "judged": v.1}))).collect();
    json!({"behaviours": executed, "nontrivial": nontrivial, "unsupported": unsupported, "mismatching": mism, "mismatch_traces_written": written, "refused": refused, "mismatch_kinds": kinds,
           "events": tr.total_events, "runs": tr.runs, "files": tr.files.iter().map(|p| p.display().to_string()).collect::<Vec<_>>()})
}

// ================================================================ string vector subjects

/// Uniform view of a string vector under test.
pub trait StrS {
    fn ops(&self) -> &'static [&'static str];
    /// Ok(Some(index)) / Ok(None) (no index returned) / Err(()) refused
    fn push(&mut self, s: &str) -> Result<Option<usize>, ()>;
    fn get(&self, i: usize) -> Option<Vec<u8>>;
    fn len(&self) -> usize;
    fn iter_all(&self) -> Option<Vec<Vec<u8>>> {
        None
    }
    fn sort(&mut self, _kind: &str) -> bool {
        unreachable!()
    }
    /// the sorted view, when the object offers one right now
    fn sorted_view(&self) -> Option<Vec<Vec<u8>>> {
        None
    }
    fn clear(&mut self) {
        unreachable!()
    }
    fn clone_obj(&self) -> Option<Box<dyn StrS>> {
        unreachable!()
    }
    fn find(&self, _s: &str) -> Option<usize> {
        unreachable!()
    }
    fn bsearch(&self, _s: &str) -> Result<usize, usize> {
        unreachable!()
    }
    fn maintenance(&mut self) {
        unreachable!()
    }
    fn count_prefix(&self, _p: &str) -> usize {
        unreachable!()
    }
    /// bulk push: the indices returned
    fn extend(&mut self, _xs: &[String]) -> Result<Vec<usize>, ()> {
        unreachable!()
    }
    /// the strings x with a <= x < b, in order
    fn range(&self, _a: &str, _b: &str) -> Vec<Vec<u8>> {
        unreachable!()
    }
    /// twins of get(i) over the whole content (get_by_id ...)
    fn views(&self) -> Vec<Vec<Vec<u8>>> {
        vec![]
    }
    fn alt_len(&self) -> Vec<usize> {
        vec![]
    }
}

struct TSortable(SortableStrVec);
impl StrS for TSortable {
    fn ops(&self) -> &'static [&'static str] {
        &["push", "sort", "clear", "clone", "bsearch", "maintenance"]
    }
    fn push(&mut self, s: &str) -> Result<Option<usize>, ()> {
        self.0.push_str(s).map(Some).map_err(|_| ())
    }
    fn get(&self, i: usize) -> Option<Vec<u8>> {
        self.0.get(i).map(|s| s.as_bytes().to_vec())
    }
    fn len(&self) -> usize {
        self.0.len()
    }
    fn iter_all(&self) -> Option<Vec<Vec<u8>>> {
        Some(self.0.iter().map(|s| s.as_bytes().to_vec()).collect())
    }
    fn sort(&mut self, kind: &str) -> bool {
        match kind {
            "lex" => self.0.sort_lexicographic().is_ok(),
            "radix" => self.0.radix_sort().is_ok(),
            "by" => self.0.sort_by(|a, b| a.cmp(b)).is_ok(),
            _ => self.0.sort_by_length().is_ok(),
        }
    }
    fn sorted_view(&self) -> Option<Vec<Vec<u8>>> {
        // get_sorted answers None while the object is not sorted (an empty object has no view to show)
        if self.0.len() == 0 || self.0.get_sorted(0).is_none() {
            return None;
        }
        Some(self.0.iter_sorted().map(|s| s.as_bytes().to_vec()).collect())
    }
    fn clear(&mut self) {
        self.0.clear()
    }
    fn clone_obj(&self) -> Option<Box<dyn StrS>> {
        Some(Box::new(TSortable(self.0.clone())))
    }
    fn bsearch(&self, s: &str) -> Result<usize, usize> {
        self.0.binary_search(s)
    }
    fn maintenance(&mut self) {
        self.0.reserve(3);
        self.0.shrink_to_fit();
        let _ = self.0.stats();
    }
    fn views(&self) -> Vec<Vec<Vec<u8>>> {
        vec![(0..self.0.len()).filter_map(|i| self.0.get_by_id(i).map(|s| s.as_bytes().to_vec())).collect()]
    }
    fn alt_len(&self) -> Vec<usize> {
        vec![empty_as_len(self.0.is_empty(), self.0.len())]
    }
}

struct TFixed<const N: usize>(FixedLenStrVec<N>);
impl<const N: usize> StrS for TFixed<N> {
    fn ops(&self) -> &'static [&'static str] {
        &["push", "find", "count_prefix"]
    }
    fn count_prefix(&self, p: &str) -> usize {
        self.0.count_prefix(p)
    }
    fn alt_len(&self) -> Vec<usize> {
        vec![empty_as_len(self.0.is_empty(), self.0.len())]
    }
    fn push(&mut self, s: &str) -> Result<Option<usize>, ()> {
        self.0.push(s).map(|_| None).map_err(|_| ())
    }
    fn get(&self, i: usize) -> Option<Vec<u8>> {
        let a = self.0.get(i).map(|s| s.as_bytes().to_vec());
        let b = self.0.get_bytes(i).map(|s| s.to_vec());
        if a == b { a } else { Some(b"<get and get_bytes differ>".to_vec()) }
    }
    fn len(&self) -> usize {
        self.0.len()
    }
    fn find(&self, s: &str) -> Option<usize> {
        self.0.find_exact(s)
    }
}

struct TZo(ZoSortedStrVec);
impl StrS for TZo {
    fn ops(&self) -> &'static [&'static str] {
        &["find", "bsearch", "range"]
    }
    fn range(&self, a: &str, b: &str) -> Vec<Vec<u8>> {
        self.0.range(a, b).map(|s| s.as_bytes().to_vec()).collect()
    }
    fn alt_len(&self) -> Vec<usize> {
        vec![empty_as_len(self.0.is_empty(), self.0.len())]
    }
    fn push(&mut self, _s: &str) -> Result<Option<usize>, ()> {
        Err(())
    }
    fn get(&self, i: usize) -> Option<Vec<u8>> {
        self.0.get(i).map(|s| s.as_bytes().to_vec())
    }
    fn len(&self) -> usize {
        self.0.len()
    }
    fn iter_all(&self) -> Option<Vec<Vec<u8>>> {
        Some(self.0.iter().map(|s| s.as_bytes().to_vec()).collect())
    }
    fn find(&self, s: &str) -> Option<usize> {
        // contains() and binary_search() must agree; the index comes from binary_search
        match (self.0.binary_search(s), self.0.contains(s)) {
            (Ok(i), true) => Some(i),
            (Err(_), false) => None,
            _ => Some(usize::MAX >> 40),
        }
    }
    fn bsearch(&self, s: &str) -> Result<usize, usize> {
        self.0.binary_search(s)
    }
}

struct TBit32(BitPackedStringVec32);
impl StrS for TBit32 {
    fn ops(&self) -> &'static [&'static str] {
        &["push", "extend", "find", "clone"]
    }
    fn extend(&mut self, xs: &[String]) -> Result<Vec<usize>, ()> {
        self.0.extend(xs.iter()).map_err(|_| ())
    }
    fn alt_len(&self) -> Vec<usize> {
        vec![empty_as_len(self.0.is_empty(), self.0.len()), self.0.stats().total_strings]
    }
    fn push(&mut self, s: &str) -> Result<Option<usize>, ()> {
        self.0.push(s).map(Some).map_err(|_| ())
    }
    fn get(&self, i: usize) -> Option<Vec<u8>> {
        let a = self.0.get(i).map(|s| s.as_bytes().to_vec());
        let b = self.0.get_bytes(i).map(|s| s.to_vec());
        if a == b { a } else { Some(b"<get and get_bytes differ>".to_vec()) }
    }
    fn len(&self) -> usize {
        self.0.len()
    }
    fn iter_all(&self) -> Option<Vec<Vec<u8>>> {
        Some(self.0.iter().map(|s| s.as_bytes().to_vec()).collect())
    }
    fn find(&self, s: &str) -> Option<usize> {
        self.0.find_simd(s)
    }
    fn clone_obj(&self) -> Option<Box<dyn StrS>> {
        Some(Box::new(TBit32(self.0.clone())))
    }
}
struct TBit64(BitPackedStringVec64);
impl StrS for TBit64 {
    fn ops(&self) -> &'static [&'static str] {
        &["push", "extend", "find", "clone"]
    }
    fn extend(&mut self, xs: &[String]) -> Result<Vec<usize>, ()> {
        self.0.extend(xs.iter()).map_err(|_| ())
    }
    fn alt_len(&self) -> Vec<usize> {
        vec![empty_as_len(self.0.is_empty(), self.0.len()), self.0.stats().total_strings]
    }
    fn push(&mut self, s: &str) -> Result<Option<usize>, ()> {
        self.0.push(s).map(Some).map_err(|_| ())
    }
    fn get(&self, i: usize) -> Option<Vec<u8>> {
        let a = self.0.get(i).map(|s| s.as_bytes().to_vec());
        let b = self.0.get_bytes(i).map(|s| s.to_vec());
        if a == b { a } else { Some(b"<get and get_bytes differ>".to_vec()) }
    }
    fn len(&self) -> usize {
        self.0.len()
    }
    fn iter_all(&self) -> Option<Vec<Vec<u8>>> {
        Some(self.0.iter().map(|s| s.as_bytes().to_vec()).collect())
    }
    fn find(&self, s: &str) -> Option<usize> {
        self.0.find_simd(s)
    }
    fn clone_obj(&self) -> Option<Box<dyn StrS>> {
        Some(Box::new(TBit64(self.0.clone())))
    }
}

struct TAdv(AdvancedStringVec);
impl StrS for TAdv {
    fn ops(&self) -> &'static [&'static str] {
        &["push", "clone"]
    }
    fn alt_len(&self) -> Vec<usize> {
        vec![empty_as_len(self.0.is_empty(), self.0.len())]
    }
    fn push(&mut self, s: &str) -> Result<Option<usize>, ()> {
        self.0.push(s).map(Some).map_err(|_| ())
    }
    fn get(&self, i: usize) -> Option<Vec<u8>> {
        self.0.get(i).map(|s| s.as_bytes().to_vec())
    }
    fn len(&self) -> usize {
        self.0.len()
    }
    fn iter_all(&self) -> Option<Vec<Vec<u8>>> {
        Some(self.0.iter().map(|s| s.as_bytes().to_vec()).collect())
    }
    fn clone_obj(&self) -> Option<Box<dyn StrS>> {
        Some(Box::new(TAdv(self.0.clone())))
    }
}

const STR_SUBJECTS: &[&str] = &[
    "sortable:new", "sortable:with_capacity_2", "fixedlen:4", "fixedlen:8", "fixedlen:16", "fixedlen:64", "fixedlen:300", "zo:from_strings",
    "zo:from_sorted", "zo:from_sortable", "bitpacked32:new", "bitpacked32:memory_optimized", "bitpacked32:performance_optimized", "bitpacked64:new",
    "bitpacked64:with_capacity_1", "bitpacked64:large_dataset", "advanced:level_0", "advanced:level_1", "advanced:level_2", "advanced:level_3",
    "advanced:performance_optimized", "advanced:balanced", "advanced:memory_optimized",
];
/// does this configuration of AdvancedStringVec de-duplicate (compression level >= 1)?
fn dedups(name: &str) -> bool {
    fam_of(name) == "advanced" && variant_of(name) != "level_0"
}

fn make_str(name: &str) -> Option<Box<dyn StrS>> {
    let adv = |level: u8| {
        let mut c = AdvancedStringConfig::default();
        c.compression_level = level;
        c.initial_arena_capacity = 16;
        c.initial_index_capacity = 2;
        Box::new(TAdv(AdvancedStringVec::with_config(c)))
    };
    Some(match name {
        "sortable:new" => Box::new(TSortable(SortableStrVec::new())),
        "sortable:with_capacity_2" => Box::new(TSortable(SortableStrVec::with_capacity(2))),
        "fixedlen:4" => Box::new(TFixed::<4>(FixedLenStrVec::new())),
        "fixedlen:8" => Box::new(TFixed::<8>(FixedLenStrVec::with_capacity(2))),
        "fixedlen:16" => Box::new(TFixed::<16>(FixedLenStrVec::new())),
        "fixedlen:64" => Box::new(TFixed::<64>(FixedLenStrVec::new())),
        "fixedlen:300" => Box::new(TFixed::<300>(FixedLenStrVec::new())),
        "bitpacked32:new" => Box::new(TBit32(BitPackedStringVec32::new())),
        "bitpacked32:memory_optimized" => Box::new(TBit32(BitPackedStringVec32::with_config(BitPackedConfig::memory_optimized()))),
        "bitpacked32:performance_optimized" => Box::new(TBit32(BitPackedStringVec32::with_config(BitPackedConfig::performance_optimized()))),
        "bitpacked64:new" => Box::new(TBit64(BitPackedStringVec64::new())),
        "bitpacked64:with_capacity_1" => Box::new(TBit64(BitPackedStringVec64::with_capacity(1))),
        "bitpacked64:large_dataset" => Box::new(TBit64(BitPackedStringVec64::with_config(BitPackedConfig::large_dataset()))),
        "advanced:level_0" => adv(0),
        "advanced:level_1" => adv(1),
        "advanced:level_2" => adv(2),
        "advanced:level_3" => adv(3),
        "advanced:performance_optimized" => Box::new(TAdv(AdvancedStringVec::with_config(AdvancedStringConfig::performance_optimized()))),
        "advanced:balanced" => Box::new(TAdv(AdvancedStringVec::with_config(AdvancedStringConfig::balanced()))),
        "advanced:memory_optimized" => Box::new(TAdv(AdvancedStringVec::with_config(AdvancedStringConfig::memory_optimized()))),
        _ => return None,
    })
}

/// profile "big": strings are megabytes long; every string of such a run is shown as its digest
/// ({"len":n,"h":[h1,h0]}, zv::digest) - equality of strings is then decided by TLC on the digests
static BIG: std::sync::atomic::AtomicBool = std::sync::atomic::AtomicBool::new(false);
fn bj(b: &[u8]) -> Value {
    if BIG.load(std::sync::atomic::Ordering::Relaxed) {
        digest(b)
    } else {
        bytes_json(b)
    }
}
fn bsj(v: &[Vec<u8>]) -> Value {
    Value::Array(v.iter().map(|b| bj(b)).collect())
}

fn obs_str(s: &dyn StrS) -> Value {
    let len = s.len();
    let mut c: Vec<Value> = vec![];
    let mut get_ok = true;
    for i in 0..len {
        match s.get(i) {
            Some(b) => c.push(bj(&b)),
            None => {
                // get(i) = None inside the range: shown as the impossible byte string [-1]
                get_ok = false;
                c.push(json!([-1]));
            }
        }
    }
    let oob = match s.get(len) {
        None => json!([]),
        Some(b) => json!([bj(&b)]),
    };
    let it = s.iter_all();
    let sv = s.sorted_view();
    let views: Vec<Value> = s.views().iter().map(|v| bsj(v)).collect();
    let alt: Vec<usize> = s.alt_len().iter().map(|&x| x.min(1 << 30)).collect();
    json!({"views": views, "alt_len": alt, "len": len, "c": c, "get_ok": get_ok, "oob": oob, "has_it": it.is_some(), "it": bsj(&it.unwrap_or_default()),
           "has_sorted": sv.is_some(), "sorted": bsj(&sv.unwrap_or_default())})
}

/// random string over an alphabet chosen to provoke shared prefixes, overlaps, multi-byte
/// characters and (profile nul) embedded NUL characters
fn rand_str(rng: &mut Rng, profile: &str) -> String {
    let alpha: &[&str] = match profile {
        "nul" => &["a", "b", "\0", "c"],
        "utf8" => &["a", "b", "\u{e9}", "\u{4e2d}", "c"],
        "long" => &["a", "b", "c", "d"],
        _ => &["a", "b", "c"],
    };
    if profile == "big" {
        // 3 bytes .. 1 MiB + 5 bytes, around the 20-bit boundary
        let n = *rng.pick(&[3usize, (1 << 20) - 1, 1 << 20, (1 << 20) + 5, 70_000]);
        let c = *rng.pick(&["x", "y", "z"]);
        return c.repeat(n);
    }
    if profile == "len255" {
        // around the 255-byte limit of the 8-bit length field
        let n = *rng.pick(&[0usize, 1, 200, 254, 255, 256, 257, 300]);
        let c = *rng.pick(&["p", "q"]);
        let mut s = c.repeat(n);
        if n > 2 && rng.chance(1, 2) {
            s.replace_range(n - 1..n, "z");
        }
        return s;
    }
    let n = match profile {
        "long" => rng.below(48) as usize,
        _ => {
            if rng.chance(1, 10) { 0 } else { rng.range(1, 9) as usize }
        }
    };
    let mut s = String::new();
    // frequently start with one of a few fixed stems so that strings overlap; the long profile shares stems of
    // 8 / 16 / 32 bytes, so that strings differ only behind a SIMD chunk boundary
    if profile == "long" && rng.chance(1, 2) {
        s.push_str(*rng.pick(&["abcdabcd", "abcdabcdabcdabcd", "abcdabcdabcdabcdabcdabcdabcdabcd"]));
    } else if rng.chance(1, 2) && n >= 3 {
        s.push_str(*rng.pick(&["abc", "abca", "bca", "abcabc"]));
    }
    while s.chars().count() < n {
        s.push_str(*rng.pick(alpha));
    }
    s
}

/// profile "overlap": strings derived from earlier ones of the same run - prefixes / suffixes / infixes at positions
/// 0, 1, 3, 4, len-k; strings that start at a LATER occurrence of an earlier string's own 3- or 4-byte stem (so they
/// share its first bytes and are contained in it, but not at its start); strings sharing 3-, 4-, 8-byte stems; the
/// same string again after unrelated ones; strings spanning the boundary of two consecutive earlier strings.  ASCII only.
fn rand_overlap(rng: &mut Rng, pool: &[String]) -> String {
    let tail = |rng: &mut Rng, n: usize| -> String { (0..n).map(|_| *rng.pick(&["a", "b", "X", "Y", "c", "d"])).collect() };
    let c = rng.below(100);
    let ascii: Vec<&String> = pool.iter().filter(|t| t.is_ascii() && !t.is_empty()).collect();
    if ascii.is_empty() || c < 30 {
        // a base string in which its own stem occurs again further in (twice or three times)
        let stem = *rng.pick(&["abc", "abcd", "aab", "aaba", "abcdabcd"]);
        let mut s = String::from(stem);
        for _ in 0..rng.range(1, 2) {
            let n = rng.range(1, 3) as usize;
            s.push_str(&tail(rng, n));
            s.push_str(stem);
        }
        let n = rng.range(1, 3) as usize;
        s.push_str(&tail(rng, n));
        return s;
    }
    let t: &str = rng.pick(&ascii).as_str();
    let len = t.len();
    if c < 55 {
        // from a later occurrence of t's own stem
        for k in [4usize, 3, 8] {
            if len > k {
                let hits: Vec<usize> = (1..len - k).filter(|&p| t[p..].starts_with(&t[..k])).collect();
                if !hits.is_empty() {
                    let p = *rng.pick(&hits);
                    let m = if rng.chance(1, 2) { len - p } else { rng.range(k as u64 + 1, (len - p) as u64) as usize };
                    return t[p..p + m].to_string();
                }
            }
        }
    }
    if c < 75 {
        let k = rng.range(1, 5) as usize;
        let pos = (*rng.pick(&[0usize, 1, 3, 4, len.saturating_sub(k)])).min(len - 1);
        let m = rng.range(1, (len - pos) as u64) as usize;
        return t[pos..pos + m].to_string();
    }
    if c < 83 {
        return t.to_string();
    }
    if c < 90 && ascii.len() >= 2 {
        let i = rng.below(ascii.len() as u64 - 1) as usize;
        let (x, y) = (ascii[i].as_str(), ascii[i + 1].as_str());
        let (p, q) = (rng.range(1, 4) as usize, rng.range(1, 4) as usize);
        return format!("{}{}", &x[x.len().saturating_sub(p)..], &y[..q.min(y.len())]);
    }
    if c < 95 {
        // shares a 3-, 4- or 8-byte stem with t, then goes its own way
        let k = (*rng.pick(&[3usize, 4, 8])).min(len);
        let n = rng.range(1, 4) as usize;
        return format!("{}{}", &t[..k], tail(rng, n));
    }
    let n = rng.range(3, 8) as usize;
    (0..n).map(|_| *rng.pick(&["a", "b"])).collect()
}
fn gen_str(rng: &mut Rng, profile: &str, pool: &[String]) -> String {
    if profile == "overlap" {
        rand_overlap(rng, pool)
    } else {
        rand_str(rng, profile)
    }
}

fn drive_str(a: &Args, name: &str) -> Value {
    let mut tr = Tracer::new(&a.out, &format!("str-{}", sanitize(name)));
    tr.max_events = 2500;
    let rng0 = Rng::new(a.seed);
    let fam = fam_of(name);
    let (mut nev, mut panics, mut refused, mut runs) = (0usize, 0usize, 0usize, 0usize);
    let mut nontrivial_runs = 0usize;
    let mut opcount: Map<String, Value> = Map::new();
    let profiles: &[&str] = if name == "fixedlen:300" { &["len255", "overlap", "long", "len255", "utf8", "overlap"] } else { &["abc", "overlap", "utf8", "nul", "long", "overlap"] };
    let (nruns, steps) = if a.thorough() { (30, 40) } else { (6, 22) };
    // batch runs (sortable, zo): many strings at once - radix sort takes its bucket path from 32 strings on, the
    // blocked binary search from 513 on, the rank/select index of zo has 256-bit blocks
    let batch_sizes: Vec<usize> = match (fam.as_str(), a.thorough()) {
        ("sortable", false) => if name == "sortable:new" { vec![40, 530] } else { vec![70] },
        ("sortable", true) => vec![33, 70, 300, 530, 700],
        ("zo", false) => vec![90],
        ("zo", true) => vec![40, 90, 200, 400],
        _ => vec![],
    };
    // one more run with strings around and above 1 MiB (length fields of 20 / 24 bits) for the arena types
    let big_run = matches!(name, "sortable:new" | "bitpacked32:new" | "bitpacked64:new" | "advanced:level_0" | "advanced:level_1");
    for run in 0..(nruns + big_run as usize + batch_sizes.len()) {
        let mut rng = rng0.derive(&format!("{name}/{run}"));
        let batch = if run >= nruns + big_run as usize { Some(batch_sizes[run - nruns - big_run as usize]) } else { None };
        let profile = if batch.is_some() { "batch" } else if run == nruns { "big" } else { profiles[run % profiles.len()] };
        BIG.store(profile == "big", std::sync::atomic::Ordering::Relaxed);
        let steps = if profile == "big" { 7 } else if batch.is_some() { 12 } else if profile == "overlap" { steps + 12 } else { steps };
        tr.reset("strseq", name, json!({"fam": fam, "variant": variant_of(name), "profile": profile, "dedup": dedups(name), "seed": a.seed}));
        runs += 1;
        let mut objs: Vec<Option<Box<dyn StrS>>> = vec![];
        let mut pool: Vec<String> = vec![]; // strings used so far (needles)
        let mut dead = false;
        let held = std::cell::Cell::new(false);
        let emit = |tr: &mut Tracer, e: Value, nev: &mut usize| {
            if e["post"]["len"].as_u64().unwrap_or(0) > 0 {
                held.set(true);
            }
            tr.ev(e);
            *nev += 1;
        };
        if fam == "zo" {
            // construction from a list, then reads
            let n = batch.unwrap_or(rng.below(if a.thorough() { 24 } else { 12 }) as usize);
            let mut input: Vec<String> = vec![];
            for _ in 0..n {
                let x = gen_str(&mut rng, if batch.is_some() { "abc" } else { profile }, &input);
                input.push(x);
            }
            if rng.chance(1, 2) && !input.is_empty() {
                let d = rng.pick(&input).clone();
                input.push(d); // a duplicate
            }
            let kind = variant_of(name);
            if kind == "from_sorted" && rng.chance(3, 4) {
                input.sort();
            }
            pool = input.clone();
            let inp_json = Value::Array(input.iter().map(|s| bj(s.as_bytes())).collect());
            let built = guard(|| match kind.as_str() {
                "from_strings" => ZoSortedStrVec::from_strings(input.clone()).ok(),
                "from_sorted" => ZoSortedStrVec::from_sorted_strings(input.clone()).ok(),
                _ => {
                    let mut sv = SortableStrVec::new();
                    for s in &input {
                        let _ = sv.push_str(s);
                    }
                    ZoSortedStrVec::from_sortable_str_vec(sv).ok()
                }
            });
            match built {
                Ok(Some(z)) => {
                    let b: Box<dyn StrS> = Box::new(TZo(z));
                    match guard(|| obs_str(b.as_ref())) {
                        Ok(p) => emit(&mut tr, json!({"op":"build","o":1,"kind":kind,"input":inp_json,"ok":true,"post":p}), &mut nev),
                        Err(m) => {
                            emit(&mut tr, json!({"op":"panic","in":"observe","o":1,"msg":m.chars().take(120).collect::<String>()}), &mut nev);
                            panics += 1;
                            dead = true;
                        }
                    }
                    objs.push(Some(b));
                }
                Ok(None) => {
                    refused += 1;
                    emit(&mut tr, json!({"op":"build","o":1,"kind":kind,"input":inp_json,"ok":false}), &mut nev);
                    continue;
                }
                Err(m) => {
                    panics += 1;
                    emit(&mut tr, json!({"op":"panic","in":"build","o":1,"msg":m.chars().take(120).collect::<String>()}), &mut nev);
                    continue;
                }
            }
        } else if let Some(n) = batch {
            // SortableStrVec::from_iter of n short strings (many duplicates), then sorts and searches
            let input: Vec<String> = (0..n).map(|_| {
                let k = rng.below(5) as usize;
                (0..k).map(|_| *rng.pick(&["a", "b", "c"])).collect::<String>()
            }).collect();
            pool = input.clone();
            let inp_json = Value::Array(input.iter().map(|s| bj(s.as_bytes())).collect());
            match guard(|| SortableStrVec::from_iter(input.iter()).ok()) {
                Ok(Some(v)) => {
                    let b: Box<dyn StrS> = Box::new(TSortable(v));
                    let p = obs_str(b.as_ref());
                    emit(&mut tr, json!({"op":"build","o":1,"kind":"from_iter","input":inp_json,"ok":true,"post":p}), &mut nev);
                    objs.push(Some(b));
                }
                Ok(None) => {
                    refused += 1;
                    emit(&mut tr, json!({"op":"build","o":1,"kind":"from_iter","input":inp_json,"ok":false}), &mut nev);
                    continue;
                }
                Err(m) => {
                    panics += 1;
                    emit(&mut tr, json!({"op":"panic","in":"build","o":1,"msg":m.chars().take(120).collect::<String>()}), &mut nev);
                    continue;
                }
            }
        } else {
            match guard(|| make_str(name)) {
                Ok(Some(s)) => objs.push(Some(s)),
                _ => return json!({"constructed": false}),
            }
        }
        let mut stepno = 0usize;
        for _ in 0..steps {
            stepno += 1;
            if dead || (fam == "zo" && pool.iter().any(|s| s.contains('\0'))) {
                // zo: a list holding NUL characters is only built and observed (C10-KF6)
                break;
            }
            let live: Vec<usize> = (1..=objs.len()).filter(|&o| objs[o - 1].is_some()).collect();
            let o = *rng.pick(&live);
            let ops = objs[o - 1].as_ref().unwrap().ops();
            let w = |op: &str| -> u64 {
                if profile == "big" {
                    return (op == "push") as u64;
                }
                if batch.is_some() && fam == "sortable" {
                    // sort, search, sort ... on the batch
                    return match op {
                        "sort" => if stepno % 3 == 1 { 100 } else { 0 },
                        "bsearch" => if stepno % 3 != 1 { 100 } else { 0 },
                        _ => 0,
                    };
                }
                match op {
                    "push" => if profile == "overlap" { 120 } else { 50 },
                    "extend" => 8,
                    "sort" => 8,
                    "clear" => 2,
                    "clone" => if live.len() < 3 { 3 } else { 0 },
                    "find" => 14,
                    "count_prefix" => 10,
                    "range" => 12,
                    "bsearch" => 10,
                    "maintenance" => 3,
                    _ => 0,
                }
            };
            let all: Vec<(&str, u64)> = ops.iter().map(|&op| (op, w(op))).collect();
            let total: u64 = all.iter().map(|x| x.1).sum();
            let mut t = rng.below(total.max(1));
            let mut op = all[0].0;
            for (n, wt) in &all {
                if t < *wt {
                    op = n;
                    break;
                }
                t -= wt;
            }
            let needle = if !pool.is_empty() && (batch.is_some() && rng.chance(5, 6) || rng.chance(2, 3)) {
                rng.pick(&pool).clone()
            } else {
                gen_str(&mut rng, if batch.is_some() { "abc" } else { profile }, &pool)
            };
            let nobj = objs.len();
            let r = guard(|| -> (Value, usize) {
                if op == "clone" {
                    let c = objs[o - 1].as_ref().unwrap().clone_obj().unwrap();
                    objs.push(Some(c));
                    return (json!({"op":"clone","o":o,"o2":nobj + 1}), nobj + 1);
                }
                let s = objs[o - 1].as_mut().unwrap();
                let ev = match op {
                    "push" => {
                        let st = if profile == "big" {
                            // lengths around the 20-bit boundary, in a fixed order
                            let n = [(1usize << 20) - 1, 1 << 20, 3, (1 << 20) + 5, 70_000, (1 << 24) - 1, (1 << 24) + 3][pool.len() % 7];
                            ["x", "y", "z"][pool.len() % 3].repeat(n)
                        } else if !pool.is_empty() && profile != "overlap" && rng.chance(1, 5) {
                            rng.pick(&pool).clone()
                        } else {
                            gen_str(&mut rng, profile, &pool)
                        };
                        pool.push(st.clone());
                        match s.push(&st) {
                            Ok(Some(i)) => json!({"op":"push","o":o,"s":bj(st.as_bytes()),"ok":true,"has_r":true,"r":i.min(1 << 30)}),
                            Ok(None) => json!({"op":"push","o":o,"s":bj(st.as_bytes()),"ok":true,"has_r":false,"r":0}),
                            Err(()) => json!({"op":"push","o":o,"s":bj(st.as_bytes()),"ok":false,"has_r":false,"r":0}),
                        }
                    }
                    "sort" => {
                        let kind = if batch.is_some() { ["radix", "lex", "len", "by"][(stepno / 3) % 4] } else { *rng.pick(&["lex", "radix", "by", "len"]) };
                        let ok = s.sort(kind);
                        json!({"op":"sort","o":o,"how":kind,"kind": if kind == "len" { "len" } else if kind == "by" { "custom" } else { "lex" },"ok":ok})
                    }
                    "clear" => {
                        s.clear();
                        json!({"op":"clear","o":o})
                    }
                    "find" => {
                        let r = s.find(&needle);
                        json!({"op":"find","o":o,"s":bj(needle.as_bytes()),"r":opt(r.map(|x| x.min(1 << 30)))})
                    }
                    "bsearch" => {
                        let r = s.bsearch(&needle);
                        let sv = s.sorted_view().or_else(|| s.iter_all()).unwrap_or_default();
                        json!({"op":"bsearch","o":o,"s":bj(needle.as_bytes()),"ok":r.is_ok(),"pos":r.unwrap_or_else(|e| e).min(1 << 30),"sv":bsj(&sv)})
                    }
                    "maintenance" => {
                        s.maintenance();
                        json!({"op":"maintenance","o":o})
                    }
                    "count_prefix" => {
                        // a prefix of a stored string (short, and >= 8 bytes when there is one), or a random one
                        let mut pfx = needle.clone();
                        let cut = rng.below(pfx.chars().count() as u64 + 1) as usize;
                        if !rng.chance(1, 3) {
                            pfx = pfx.chars().take(cut).collect();
                        }
                        let r = s.count_prefix(&pfx);
                        json!({"op":"count_prefix","o":o,"s":bj(pfx.as_bytes()),"r":r.min(1 << 30)})
                    }
                    "extend" => {
                        let k = rng.below(4) as usize;
                        let xs: Vec<String> = (0..k).map(|_| if !pool.is_empty() && rng.chance(1, 4) { rng.pick(&pool).clone() } else { gen_str(&mut rng, profile, &pool) }).collect();
                        pool.extend(xs.iter().cloned());
                        let r = s.extend(&xs);
                        let xj = Value::Array(xs.iter().map(|x| bj(x.as_bytes())).collect());
                        match r {
                            Ok(idx) => json!({"op":"extend","o":o,"xs":xj,"ok":true,"r":idx.iter().map(|&i| i.min(1 << 30)).collect::<Vec<_>>()}),
                            Err(()) => json!({"op":"extend","o":o,"xs":xj,"ok":false,"r":[]}),
                        }
                    }
                    "range" => {
                        let other = if !pool.is_empty() && rng.chance(2, 3) { rng.pick(&pool).clone() } else { gen_str(&mut rng, profile, &pool) };
                        let (lo, hi) = if rng.chance(1, 6) { (needle.clone(), other) } else if needle <= other { (needle.clone(), other) } else { (other, needle.clone()) };
                        let r = s.range(&lo, &hi);
                        json!({"op":"range","o":o,"a":bj(lo.as_bytes()),"b":bj(hi.as_bytes()),"r":bsj(&r)})
                    }
                    other => panic!("harness: unknown op {other}"),
                };
                (ev, o)
            });
            match r {
                Ok((mut ev, w)) => {
                    if ev["ok"] == json!(false) {
                        refused += 1;
                    }
                    match guard(|| obs_str(objs[w - 1].as_ref().unwrap().as_ref())) {
                        Ok(p) => ev["post"] = p,
                        Err(m) => {
                            ev = json!({"op":"panic","in":"observe","o":w,"msg":m.chars().take(120).collect::<String>()});
                            panics += 1;
                            dead = true;
                        }
                    }
                    let c = opcount.entry(op.to_string()).or_insert(json!(0));
                    *c = json!(c.as_u64().unwrap_or(0) + 1);
                    emit(&mut tr, ev, &mut nev);
                }
                Err(m) => {
                    panics += 1;
                    dead = true;
                    emit(&mut tr, json!({"op":"panic","in":op,"o":o,"msg":m.chars().take(120).collect::<String>()}), &mut nev);
                }
            }
        }
        if dead {
            for b in objs.drain(..) {
                std::mem::forget(b);
            }
        }
        if held.get() {
            nontrivial_runs += 1;
        }
        tr.flush();
    }
    tr.close();
    json!({"events": nev, "runs": runs, "nontrivial_runs": nontrivial_runs, "panics": panics, "refused": refused, "ops": opcount,
           "files": tr.files.iter().map(|p| p.display().to_string()).collect::<Vec<_>>()})
}

// ================================================================ several BumpVecs of different element types in ONE allocator

/// element types of different size / alignment (1, 2, 4, 8, 16, and a padded pair); the value is < 250
enum MixVec {
    A(zipora::memory::bump::BumpVec<'static, u8>),
    B(zipora::memory::bump::BumpVec<'static, u16>),
    C(zipora::memory::bump::BumpVec<'static, u32>),
    D(zipora::memory::bump::BumpVec<'static, u64>),
    E(zipora::memory::bump::BumpVec<'static, u128>),
    F(zipora::memory::bump::BumpVec<'static, (u8, u64)>),
}
const MIX_TYPES: &[&str] = &["u8", "u16", "u32", "u64", "u128", "(u8,u64)"];
impl MixVec {
    fn new(al: &'static BumpAllocator, ty: usize, cap: usize) -> Option<MixVec> {
        use zipora::memory::bump::BumpVec;
        Some(match ty {
            0 => MixVec::A(BumpVec::new_in(al, cap).ok()?),
            1 => MixVec::B(BumpVec::new_in(al, cap).ok()?),
            2 => MixVec::C(BumpVec::new_in(al, cap).ok()?),
            3 => MixVec::D(BumpVec::new_in(al, cap).ok()?),
            4 => MixVec::E(BumpVec::new_in(al, cap).ok()?),
            _ => MixVec::F(BumpVec::new_in(al, cap).ok()?),
        })
    }
    fn push(&mut self, v: u8) -> bool {
        match self {
            MixVec::A(x) => x.push(v).is_ok(),
            MixVec::B(x) => x.push(v as u16 * 257).is_ok(),
            MixVec::C(x) => x.push(v as u32 * 0x0101_0101).is_ok(),
            MixVec::D(x) => x.push(v as u64 * 0x0101_0101_0101_0101).is_ok(),
            MixVec::E(x) => x.push(v as u128 * 0x0101_0101_0101_0101_0101_0101_0101_0101).is_ok(),
            MixVec::F(x) => x.push((v, v as u64 * 0x0101_0101_0101_0101)).is_ok(),
        }
    }
    /// every byte of an element repeats the value: an element that was partly overwritten reads as -1
    fn content(&self) -> Vec<(i64, i64)> {
        fn p(ok: bool, v: u8) -> (i64, i64) {
            if ok { (v as i64, 0) } else { (-1, 0) }
        }
        match self {
            MixVec::A(x) => x.as_slice().iter().map(|&e| (e as i64, 0)).collect(),
            MixVec::B(x) => x.as_slice().iter().map(|&e| p(e == (e as u8) as u16 * 257, e as u8)).collect(),
            MixVec::C(x) => x.as_slice().iter().map(|&e| p(e == (e as u8) as u32 * 0x0101_0101, e as u8)).collect(),
            MixVec::D(x) => x.as_slice().iter().map(|&e| p(e == (e as u8) as u64 * 0x0101_0101_0101_0101, e as u8)).collect(),
            MixVec::E(x) => x.as_slice().iter().map(|&e| p(e == (e as u8) as u128 * 0x0101_0101_0101_0101_0101_0101_0101_0101, e as u8)).collect(),
            MixVec::F(x) => x.as_slice().iter().map(|&(a, b)| p(b == a as u64 * 0x0101_0101_0101_0101, a)).collect(),
        }
    }
    fn pop(&mut self) -> Option<(i64, i64)> {
        let last = self.content().last().copied();
        let got = match self {
            MixVec::A(x) => x.pop().is_some(),
            MixVec::B(x) => x.pop().is_some(),
            MixVec::C(x) => x.pop().is_some(),
            MixVec::D(x) => x.pop().is_some(),
            MixVec::E(x) => x.pop().is_some(),
            MixVec::F(x) => x.pop().is_some(),
        };
        if got { last } else { None }
    }
    fn len_cap(&self) -> (usize, usize) {
        match self {
            MixVec::A(x) => (x.len(), x.capacity()),
            MixVec::B(x) => (x.len(), x.capacity()),
            MixVec::C(x) => (x.len(), x.capacity()),
            MixVec::D(x) => (x.len(), x.capacity()),
            MixVec::E(x) => (x.len(), x.capacity()),
            MixVec::F(x) => (x.len(), x.capacity()),
        }
    }
    fn obs(&self) -> Value {
        let (len, cap) = self.len_cap();
        json!({"c": esj(&self.content()), "len": len, "cap": cap, "has_it": false, "it": [], "has_get": false, "gets": [],
               "view_names": [], "views": [], "alt_len": [], "alt_cap": []})
    }
}
const VEC_MIXED: &[&str] = &["bumpvec_mixed:one_allocator"];

/// 3 - 6 BumpVecs of different element types carved from one allocator in varying order with odd capacities (padding
/// is needed between them), pushes interleaved, and after EVERY mutation every vector is read back: the vectors are
/// independent sequences sharing an arena.  (BumpVec has a fixed capacity: there is no growth inside the arena.)
fn drive_bump_mixed(a: &Args, name: &str) -> Value {
    let mut tr = Tracer::new(&a.out, &format!("seq-{}", sanitize(name)));
    tr.max_events = 2500;
    let rng0 = Rng::new(a.seed);
    let (mut nev, mut runs) = (0usize, 0usize);
    let nruns = if a.thorough() { 150 } else { 14 };
    for run in 0..nruns {
        let mut rng = rng0.derive(&format!("{name}/{run}"));
        let k = if run % 4 == 3 { rng.range(4, 6) as usize } else { 3 };
        let mut order: Vec<usize> = (0..MIX_TYPES.len()).collect();
        rng.shuffle(&mut order);
        if run < 6 {
            // the small types first: the next, more strictly aligned one needs padding
            order = [vec![0, 3, run % 6], vec![1, 4, 0], vec![0, 5, 2]][run % 3].clone();
        }
        order.truncate(k);
        let ab = std::rc::Rc::new(AllocBox(Box::into_raw(Box::new(BumpAllocator::new(4096).expect("allocator")))));
        let al: &'static BumpAllocator = unsafe { &*ab.0 };
        let caps: Vec<usize> = (0..k).map(|_| *rng.pick(&[1usize, 3, 5, 7])).collect();
        let mut vecs: Vec<MixVec> = vec![];
        tr.reset("seq", name, json!({"fam": fam_of(name), "variant": variant_of(name), "acct": false, "readonly": false, "seed": a.seed,
                                     "types": order.iter().map(|&t| MIX_TYPES[t]).collect::<Vec<_>>(), "caps": caps}));
        runs += 1;
        let mut val = 1u8;
        let readback = |tr: &mut Tracer, vecs: &Vec<MixVec>, except: usize, nev: &mut usize| {
            for (j, v) in vecs.iter().enumerate() {
                if j != except {
                    tr.ev(json!({"op":"maintenance","what":"read_back","o":j + 1,"ok":true,"dropped":[],"born":[],"post":v.obs()}));
                    *nev += 1;
                }
            }
        };
        let mut dead = false;
        // create the first vector, push one element, then create the others one by one with a push in between
        for (j, &ty) in order.iter().enumerate() {
            let v = match MixVec::new(al, ty, caps[j]) {
                Some(v) => v,
                None => {
                    dead = true;
                    break;
                }
            };
            vecs.push(v);
            if j > 0 {
                tr.ev(json!({"op":"new_empty","o":1,"o2":j + 1,"ok":true,"dropped":[],"born":[],"post":vecs[j].obs(),"src":vecs[0].obs()}));
                nev += 1;
                readback(&mut tr, &vecs, j, &mut nev);
            }
            let ok = vecs[j].push(val);
            tr.ev(json!({"op":"push","o":j + 1,"x":[val, 0],"ok":ok,"dropped":[],"born":[],"post":vecs[j].obs()}));
            nev += 1;
            val = val % 240 + 1;
            readback(&mut tr, &vecs, j, &mut nev);
        }
        // interleaved pushes (and some pops) until every vector is full
        let mut guard_steps = 0;
        while !dead && guard_steps < 80 && vecs.iter().any(|v| { let (l, c) = v.len_cap(); l < c }) {
            guard_steps += 1;
            let j = rng.below(vecs.len() as u64) as usize;
            if rng.chance(1, 6) {
                let r = vecs[j].pop();
                tr.ev(json!({"op":"pop","o":j + 1,"r":oej(r),"dropped":[],"born":[],"post":vecs[j].obs()}));
            } else {
                let ok = vecs[j].push(val);
                tr.ev(json!({"op":"push","o":j + 1,"x":[val, 0],"ok":ok,"dropped":[],"born":[],"post":vecs[j].obs()}));
                val = val % 240 + 1;
            }
            nev += 1;
            readback(&mut tr, &vecs, j, &mut nev);
        }
        while let Some(v) = vecs.pop() {
            drop(v);
            tr.ev(json!({"op":"drop","o":vecs.len() + 1,"dropped":[],"born":[]}));
            nev += 1;
        }
        drop(ab);
        tr.flush();
    }
    tr.close();
    json!({"events": nev, "runs": runs, "nontrivial_runs": runs, "panics": 0, "refused": 0, "ops": {"push": nev},
           "files": tr.files.iter().map(|p| p.display().to_string()).collect::<Vec<_>>()})
}

// ================================================================ orchestration: one child per subject

fn all_subjects(kind: &str) -> Vec<String> {
    let v: Vec<&str> = match kind {
        "seq" => VEC_EL.iter().chain(VEC_U64.iter()).chain(VEC_U8.iter()).chain(VEC_ZST.iter()).chain(VEC_MIXED.iter()).copied().collect(),
        "deque" => DQ_FIXED.iter().chain(DQ_GROW.iter()).chain(DQ_ZST.iter()).copied().collect(),
        "dqfixed" => DQ_FIXED.to_vec(),
        "dqgrow" => DQ_GROW.iter().copied().collect(),
        "str" => STR_SUBJECTS.to_vec(),
        "witness" => WITNESSES.to_vec(),
        _ => VEC_EL.iter().chain(VEC_U64.iter()).chain(VEC_U8.iter()).chain(VEC_ZST.iter()).chain(VEC_MIXED.iter()).chain(DQ_FIXED.iter()).chain(DQ_GROW.iter()).chain(DQ_ZST.iter()).chain(STR_SUBJECTS.iter()).copied().collect(),
    };
    v.into_iter().map(|s| s.to_string()).collect()
}
fn domain_of(name: &str) -> &'static str {
    if WITNESSES.contains(&name) || VEC_MIXED.contains(&name) || VEC_EL.contains(&name) || VEC_U64.contains(&name) || VEC_U8.contains(&name) || VEC_ZST.contains(&name) {
        "seq"
    } else if STR_SUBJECTS.contains(&name) {
        "strseq"
    } else {
        "deque"
    }
}

/// cut a trace file back to its last complete line (a child that died may leave half a line)
fn sanitize_file(p: &std::path::Path) {
    if let Ok(s) = std::fs::read(p) {
        if let Some(pos) = s.iter().rposition(|&b| b == b'\n') {
            if pos + 1 != s.len() {
                let _ = std::fs::write(p, &s[..pos + 1]);
            }
        } else if !s.is_empty() {
            let _ = std::fs::write(p, b"");
        }
    }
}

fn parent(a: &Args, child_mode: &str) {
    let kind = a.get("kind").unwrap_or("all").to_string();
    let subs: Vec<String> = all_subjects(&kind).into_iter().filter(|s| a.wants(s)).collect();
    std::fs::create_dir_all(&a.out).expect("out dir");
    let next = std::sync::atomic::AtomicUsize::new(0);
    let spawn_failed = std::sync::atomic::AtomicBool::new(false);
    let results = std::sync::Mutex::new(Vec::<(String, Value)>::new());
    let nthreads = a.get_u64("threads", 8) as usize;
    std::thread::scope(|sc| {
        for _ in 0..nthreads {
            sc.spawn(|| loop {
                let i = next.fetch_add(1, std::sync::atomic::Ordering::SeqCst);
                if i >= subs.len() {
                    break;
                }
                let name = &subs[i];
                let mut args: Vec<String> = vec![
                    "--mode".into(), child_mode.into(), "--seed".into(), a.seed.to_string(), "--tier".into(), a.tier.clone(),
                    "--out".into(), a.out.display().to_string(), "--subject".into(), name.clone(),
                ];
                if let Some(p) = &a.input {
                    args.push("--in".into());
                    args.push(p.display().to_string());
                }
                for (k, v) in &a.extra {
                    args.push(format!("--{k}"));
                    args.push(v.clone());
                }
                let outcome = run_child(&args, a.get_u64("child_secs", 900), 0, true);
                let sp = a.out.join(format!("sum-{}.json", sanitize(name)));
                let mut summ: Value = std::fs::read(&sp).ok().and_then(|b| serde_json::from_slice(&b).ok()).unwrap_or(json!({}));
                // 126 / 127: the child could not even be started - a problem of the machinery, never a verdict
                if matches!(outcome, ChildOutcome::Exit(126) | ChildOutcome::Exit(127)) {
                    spawn_failed.store(true, std::sync::atomic::Ordering::SeqCst);
                    results.lock().unwrap().push((name.clone(), json!({"tool_error": "child process could not be started"})));
                    continue;
                }
                let crashed = match outcome {
                    ChildOutcome::Exit(0) => None,
                    ChildOutcome::Exit(c) => Some(json!({"op":"crash","how":"exit","code":c})),
                    ChildOutcome::Signal(s) => Some(json!({"op":"crash","how":"signal","code":s})),
                    ChildOutcome::Timeout => Some(json!({"op":"crash","how":"timeout","code":0})),
                };
                if let Some(ev) = crashed {
                    // what the child had written stays (cut to whole lines); the crash itself is one more run
                    if let Ok(rd) = std::fs::read_dir(&a.out) {
                        for f in rd.flatten() {
                            let p = f.path();
                            if p.extension().map_or(false, |e| e == "ndjson") && p.file_name().unwrap().to_string_lossy().contains(&sanitize(name)) {
                                sanitize_file(&p);
                            }
                        }
                    }
                    let stem = match domain_of(name) {
                        "seq" => "seq",
                        "strseq" => "str",
                        _ => "dq",
                    };
                    let mut tr = Tracer::new(&a.out, &format!("{stem}-crash-{}", sanitize(name)));
                    tr.reset(domain_of(name), name, json!({"fam": fam_of(name), "variant": variant_of(name), "acct": true, "readonly": false, "fixedcap": fixed_cap(name), "crash": true}));
                    tr.ev(ev.clone());
                    tr.close();
                    summ["crash"] = ev;
                    summ["crash_files"] = json!(tr.files.iter().map(|p| p.display().to_string()).collect::<Vec<_>>());
                }
                results.lock().unwrap().push((name.clone(), summ));
            });
        }
    });
    let mut per = Map::new();
    let (mut events, mut runs, mut execs, mut crashes) = (0u64, 0u64, 0u64, 0u64);
    for (name, v) in results.into_inner().unwrap() {
        events += v["events"].as_u64().unwrap_or(0);
        runs += v["runs"].as_u64().unwrap_or(0);
        execs += v["behaviours"].as_u64().unwrap_or(0);
        if v.get("crash").is_some() {
            crashes += 1;
            runs += 1;
            events += 2;
        }
        per.insert(name, v);
    }
    write_summary(&a.out, &json!({"mode": child_mode, "events": events, "runs": runs, "executions": execs, "crashes": crashes, "subjects": per}));
    if spawn_failed.load(std::sync::atomic::Ordering::SeqCst) {
        eprintln!("c10: a child process could not be started (tool error)");
        std::process::exit(3);
    }
}

fn child_summary(a: &Args, name: &str, v: &Value) {
    let sp = a.out.join(format!("sum-{}.json", sanitize(name)));
    std::fs::write(sp, serde_json::to_vec(v).unwrap()).expect("write child summary");
}

fn child_drive(a: &Args) {
    let name = a.subject.clone().expect("--subject");
    let v = if VEC_MIXED.contains(&name.as_str()) {
        drive_bump_mixed(a, &name)
    } else if VEC_EL.contains(&name.as_str()) {
        drive_vec::<El>(a, &name, &make_vec_el)
    } else if VEC_U64.contains(&name.as_str()) {
        drive_vec::<u64>(a, &name, &make_vec_u64)
    } else if VEC_U8.contains(&name.as_str()) {
        drive_vec::<u8>(a, &name, &make_vec_u8)
    } else if VEC_ZST.contains(&name.as_str()) {
        drive_vec::<Z>(a, &name, &make_vec_zst)
    } else if STR_SUBJECTS.contains(&name.as_str()) {
        drive_str(a, &name)
    } else if DQ_ZST.contains(&name.as_str()) {
        drive_dq::<Z>(a, &name)
    } else {
        drive_dq::<El>(a, &name)
    };
    child_summary(a, &name, &v);
    // self-test of the crash path (--test_crash <subject>): the child dies by a signal after its work
    if a.get("test_crash") == Some(name.as_str()) {
        std::process::abort();
    }
}

fn child_replay(a: &Args) {
    let name = a.subject.clone().expect("--subject");
    let input = a.input.clone().expect("--in");
    let text = std::fs::read_to_string(&input).expect("read behaviours");
    let behaviours: Vec<Value> = text.lines().filter(|l| !l.trim().is_empty()).map(|l| serde_json::from_str(l).expect("behaviour json")).collect();
    let v = if VEC_MIXED.contains(&name.as_str()) {
        json!({"behaviours": 0, "unsupported": behaviours.len(), "events": 0, "runs": 0})
    } else if VEC_EL.contains(&name.as_str()) {
        replay_vec::<El>(a, &name, &behaviours, &make_vec_el)
    } else if VEC_U64.contains(&name.as_str()) {
        replay_vec::<u64>(a, &name, &behaviours, &make_vec_u64)
    } else if VEC_U8.contains(&name.as_str()) {
        replay_vec::<u8>(a, &name, &behaviours, &make_vec_u8)
    } else if VEC_ZST.contains(&name.as_str()) {
        replay_vec::<Z>(a, &name, &behaviours, &make_vec_zst)
    } else {
        replay_dq::<El>(a, &name, &behaviours)
    };
    child_summary(a, &name, &v);
}

const WITNESSES: &[&str] = &["fastvec_u64:witness_copy_from_shorter"];

/// recorded witnesses of findings that end the process: executed in a child of their own
fn child_witness(a: &Args) {
    let name = a.subject.clone().expect("--subject");
    let mut tr = Tracer::new(&a.out, &format!("seq-witness-{}", sanitize(&name)));
    reg_reset();
    let first = make_vec_u64(&name).expect("witness subject");
    let mut vr = VecRun::<u64> { objs: vec![Some(first)], dead: false, nev: 0 };
    tr.reset("seq", &name, json!({"fam": fam_of(&name), "variant": variant_of(&name), "acct": false, "readonly": false, "kind": "witness"}));
    let steps = [
        Step { op: "push".into(), o: 1, xv: vec![1], ..Default::default() },
        Step { op: "push".into(), o: 1, xv: vec![2], ..Default::default() },
        Step { op: "push".into(), o: 1, xv: vec![3], ..Default::default() },
        // C10-KF8: a source of one element, the vector holds three
        Step { op: "copy_from".into(), o: 1, xv: vec![9], ..Default::default() },
    ];
    let mut n = 0;
    for st in &steps {
        tr.flush();
        let e = vr.exec(st);
        tr.ev(e);
        n += 1;
    }
    let mut tail = vec![];
    vr.finish(&mut tail);
    for e in tail {
        tr.ev(e);
        n += 1;
    }
    tr.close();
    child_summary(a, &name, &json!({"events": n + 1, "runs": 1, "files": tr.files.iter().map(|p| p.display().to_string()).collect::<Vec<_>>()}));
}

fn main() {
    let a = Args::parse();
    quiet_panics();
    // MmapVec::with_capacity_simd creates its file in the system temporary directory
    let _ = std::fs::create_dir_all("/verif/work/C10-tmp");
    std::env::set_var("TMPDIR", "/verif/work/C10-tmp");
    match a.mode.as_str() {
        "drive" => parent(&a, "drive1"),
        "replay" => parent(&a, "replay1"),
        "witness" => parent(&a, "witness1"),
        "witness1" => child_witness(&a),
        "drive1" => child_drive(&a),
        "replay1" => child_replay(&a),
        "subjects" => {
            for s in all_subjects("all") {
                println!("{s}");
            }
        }
        m => {
            eprintln!("c10: unknown mode {m}");
            std::process::exit(2)
        }
    }
}
