//! C06 — hash maps behave as maps.  Runs real zipora maps, logs every public call as one
//! NDJSON event; TLC judges the events against spec/Map.tla (Trace_Map.tla).
//!
//! modes:
//!   drive   seeded random histories (B1)
//!   replay  execute TLC-generated behaviours (B2): --in <file of REPLAY json lines>; the expected
//!           result of every operation and the expected abstract state after it were computed by
//!           TLC; the harness compares for equality only; behaviours that differ (and a seeded
//!           sample of all) are written as traces for TLC to judge.
use serde_json::{json, Value};
use std::collections::hash_map::RandomState;
use std::hash::{BuildHasher, Hash, Hasher};
use std::sync::Arc;
use zipora::containers::specialized::{EasyHashMap, GoldHashIdx, HashStrMap, SmallMap};
use zipora::hash_map::{GoldHashMap, GoldHashMapConfig, IterationStrategy, ZiporaHashMap, ZiporaHashMapConfig};
use zv::*;

// ---------------------------------------------------------------- keys with a chosen hash

/// A key whose `Hash` feeds a chosen 64-bit value to the hasher; equality is by id.
#[derive(Clone, Debug)]
struct HK {
    id: u32,
    h: u64,
}
impl PartialEq for HK {
    fn eq(&self, o: &HK) -> bool {
        self.id == o.id
    }
}
impl Eq for HK {}
impl Hash for HK {
    fn hash<H: Hasher>(&self, s: &mut H) {
        s.write_u64(self.h)
    }
}

/// BuildHasher whose hash *is* the value the key wrote ("any hash function the caller supplies").
#[derive(Clone, Default)]
struct PassThrough;
struct PassHasher(u64);
impl Hasher for PassHasher {
    fn finish(&self) -> u64 {
        self.0
    }
    fn write(&mut self, b: &[u8]) {
        for &x in b {
            self.0 = (self.0 << 8) | x as u64;
        }
    }
    fn write_u64(&mut self, x: u64) {
        self.0 = x
    }
}
impl BuildHasher for PassThrough {
    type Hasher = PassHasher;
    fn build_hasher(&self) -> PassHasher {
        PassHasher(0)
    }
}

/// hash profiles: how abstract key ids are mapped to hash values
const PROFILES: &[&str] = &["ident", "zero", "max", "collide", "low2", "random", "zeromax"];
fn hash_of(profile: &str, id: u32) -> u64 {
    let mix = |x: u64| {
        let mut r = Rng::new(x);
        r.next()
    };
    match profile {
        "ident" => id as u64 + 1,
        "zero" => {
            if id == 0 {
                0
            } else {
                mix(id as u64)
            }
        }
        "max" => {
            if id == 1 {
                u64::MAX
            } else {
                mix(id as u64)
            }
        }
        "zeromax" => match id % 4 {
            0 => 0,
            1 => u64::MAX,
            _ => mix(id as u64),
        },
        "collide" => 7,
        "low2" => (id as u64 % 4) + 1,
        _ => mix(id as u64),
    }
}

// ---------------------------------------------------------------- subjects

/// Uniform view of a map under test.  Every method is a thin call-through; `None` for an
/// operation the type does not offer.
trait Subj {
    fn insert(&mut self, k: u32, v: u32) -> Option<Result<Option<u32>, ()>>;
    fn put(&mut self, _k: u32, _v: u32) -> Option<()> {
        None
    }
    fn get(&self, k: u32) -> Option<u32>;
    fn get_mut(&mut self, k: u32, newv: u32) -> Option<Option<u32>>;
    fn remove(&mut self, k: u32) -> Result<Option<u32>, ()>;
    fn contains(&self, k: u32) -> bool;
    fn len(&self) -> usize;
    fn iter(&self) -> Option<Vec<(u32, u32)>>;
    fn clear(&mut self) -> bool;
    fn extra(&mut self) {}
}

struct Zhm<S: BuildHasher> {
    m: ZiporaHashMap<HK, u32, S>,
    p: String,
}
impl<S: BuildHasher> Zhm<S> {
    fn k(&self, id: u32) -> HK {
        HK { id, h: hash_of(&self.p, id) }
    }
}
impl<S: BuildHasher> Subj for Zhm<S> {
    fn insert(&mut self, k: u32, v: u32) -> Option<Result<Option<u32>, ()>> {
        let k = self.k(k);
        Some(self.m.insert(k, v).map_err(|_| ()))
    }
    fn get(&self, k: u32) -> Option<u32> {
        self.m.get(&self.k(k)).copied()
    }
    fn get_mut(&mut self, k: u32, newv: u32) -> Option<Option<u32>> {
        let k = self.k(k);
        Some(self.m.get_mut(&k).map(|r| std::mem::replace(r, newv)))
    }
    fn remove(&mut self, k: u32) -> Result<Option<u32>, ()> {
        let k = self.k(k);
        Ok(self.m.remove(&k))
    }
    fn contains(&self, k: u32) -> bool {
        self.m.contains_key(&self.k(k))
    }
    fn len(&self) -> usize {
        self.m.len()
    }
    fn iter(&self) -> Option<Vec<(u32, u32)>> {
        Some(self.m.iter().map(|(k, v)| (k.id, *v)).collect())
    }
    fn clear(&mut self) -> bool {
        self.m.clear();
        true
    }
}

struct Gold<L: zipora::hash_map::LinkType> {
    m: GoldHashMap<HK, u32, L>,
    p: String,
    strat: Option<IterationStrategy>,
    revoke: bool,
}
impl<L: zipora::hash_map::LinkType> Gold<L> {
    fn k(&self, id: u32) -> HK {
        HK { id, h: hash_of(&self.p, id) }
    }
}
impl<L: zipora::hash_map::LinkType> Subj for Gold<L> {
    fn insert(&mut self, k: u32, v: u32) -> Option<Result<Option<u32>, ()>> {
        let k = self.k(k);
        Some(self.m.insert(k, v).map_err(|_| ()))
    }
    fn get(&self, k: u32) -> Option<u32> {
        self.m.get(&self.k(k)).copied()
    }
    fn get_mut(&mut self, k: u32, newv: u32) -> Option<Option<u32>> {
        let k = self.k(k);
        Some(self.m.get_mut(&k).map(|r| std::mem::replace(r, newv)))
    }
    fn remove(&mut self, k: u32) -> Result<Option<u32>, ()> {
        let k = self.k(k);
        self.m.remove(&k).map_err(|_| ())
    }
    fn contains(&self, k: u32) -> bool {
        self.m.contains_key(&self.k(k))
    }
    fn len(&self) -> usize {
        self.m.len()
    }
    fn iter(&self) -> Option<Vec<(u32, u32)>> {
        Some(match self.strat {
            None => self.m.iter().map(|(k, v)| (k.id, *v)).collect(),
            Some(s) => self.m.iter_with_strategy(s).map(|(k, v)| (k.id, *v)).collect(),
        })
    }
    fn clear(&mut self) -> bool {
        self.m.clear();
        true
    }
    fn extra(&mut self) {
        if self.revoke {
            let _ = self.m.revoke_deleted();
        }
    }
}

struct Idx {
    m: GoldHashIdx<HK, u32>,
    p: String,
}
impl Idx {
    fn k(&self, id: u32) -> HK {
        HK { id, h: hash_of(&self.p, id) }
    }
}
impl Subj for Idx {
    fn insert(&mut self, k: u32, v: u32) -> Option<Result<Option<u32>, ()>> {
        let k = self.k(k);
        Some(self.m.insert(k, v).map_err(|_| ()))
    }
    fn get(&self, k: u32) -> Option<u32> {
        self.m.get(&self.k(k)).copied()
    }
    fn get_mut(&mut self, k: u32, newv: u32) -> Option<Option<u32>> {
        let k = self.k(k);
        Some(self.m.get_mut(&k).map(|r| std::mem::replace(r, newv)))
    }
    fn remove(&mut self, k: u32) -> Result<Option<u32>, ()> {
        let k = self.k(k);
        Ok(self.m.remove(&k))
    }
    fn contains(&self, k: u32) -> bool {
        self.m.contains_key(&self.k(k))
    }
    fn len(&self) -> usize {
        self.m.len()
    }
    fn iter(&self) -> Option<Vec<(u32, u32)>> {
        None
    }
    fn clear(&mut self) -> bool {
        false
    }
    fn extra(&mut self) {
        self.m.shrink_to_fit();
    }
}

struct Small<K: Copy + From<u8> + Hash + Eq + 'static> {
    m: SmallMap<K, u32>,
    conv: fn(u32) -> K,
    back: fn(&K) -> u32,
}
impl<K: Copy + From<u8> + Hash + Eq + 'static> Subj for Small<K> {
    fn insert(&mut self, k: u32, v: u32) -> Option<Result<Option<u32>, ()>> {
        Some(self.m.insert((self.conv)(k), v).map_err(|_| ()))
    }
    fn get(&self, k: u32) -> Option<u32> {
        self.m.get(&(self.conv)(k)).copied()
    }
    fn get_mut(&mut self, k: u32, newv: u32) -> Option<Option<u32>> {
        Some(self.m.get_mut(&(self.conv)(k)).map(|r| std::mem::replace(r, newv)))
    }
    fn remove(&mut self, k: u32) -> Result<Option<u32>, ()> {
        Ok(self.m.remove(&(self.conv)(k)))
    }
    fn contains(&self, k: u32) -> bool {
        self.m.contains_key(&(self.conv)(k))
    }
    fn len(&self) -> usize {
        self.m.len()
    }
    fn iter(&self) -> Option<Vec<(u32, u32)>> {
        Some(self.m.iter().map(|(k, v)| ((self.back)(k), *v)).collect())
    }
    fn clear(&mut self) -> bool {
        self.m.clear();
        true
    }
}

struct Easy {
    m: EasyHashMap<HK, u32>,
    p: String,
}
impl Easy {
    fn k(&self, id: u32) -> HK {
        HK { id, h: hash_of(&self.p, id) }
    }
}
impl Subj for Easy {
    fn insert(&mut self, _k: u32, _v: u32) -> Option<Result<Option<u32>, ()>> {
        None
    }
    fn put(&mut self, k: u32, v: u32) -> Option<()> {
        let k = self.k(k);
        self.m.put(k, v);
        Some(())
    }
    fn get(&self, k: u32) -> Option<u32> {
        self.m.get(&self.k(k)).copied()
    }
    fn get_mut(&mut self, _k: u32, _newv: u32) -> Option<Option<u32>> {
        None
    }
    fn remove(&mut self, k: u32) -> Result<Option<u32>, ()> {
        let k = self.k(k);
        Ok(self.m.remove(&k))
    }
    fn contains(&self, k: u32) -> bool {
        self.m.contains_key(&self.k(k))
    }
    fn len(&self) -> usize {
        self.m.len()
    }
    fn iter(&self) -> Option<Vec<(u32, u32)>> {
        None
    }
    fn clear(&mut self) -> bool {
        self.m.clear();
        true
    }
}

struct StrMap {
    m: HashStrMap<u32>,
}
fn skey(id: u32) -> String {
    match id % 5 {
        0 => format!("k{id}"),
        1 => format!("a-rather-long-shared-prefix-for-interning/{id}"),
        2 => format!("{id}"),
        3 => format!("\u{00e9}\u{4e2d}{id}"),
        _ => format!("{}{}", "x".repeat((id % 40) as usize), id),
    }
}
impl Subj for StrMap {
    fn insert(&mut self, k: u32, v: u32) -> Option<Result<Option<u32>, ()>> {
        Some(self.m.insert(&skey(k), v).map_err(|_| ()))
    }
    fn get(&self, k: u32) -> Option<u32> {
        self.m.get(&skey(k)).copied()
    }
    fn get_mut(&mut self, k: u32, newv: u32) -> Option<Option<u32>> {
        Some(self.m.get_mut(&skey(k)).map(|r| std::mem::replace(r, newv)))
    }
    fn remove(&mut self, k: u32) -> Result<Option<u32>, ()> {
        Ok(self.m.remove(&skey(k)))
    }
    fn contains(&self, k: u32) -> bool {
        self.m.contains_key(&skey(k))
    }
    fn len(&self) -> usize {
        self.m.len()
    }
    fn iter(&self) -> Option<Vec<(u32, u32)>> {
        // keys are projected back to ids through the (injective) skey table of this run
        None
    }
    fn clear(&mut self) -> bool {
        self.m.clear();
        true
    }
}

/// string keys for ZiporaHashMap::string_optimized
struct ZhmStr {
    m: ZiporaHashMap<String, u32, RandomState>,
}
impl Subj for ZhmStr {
    fn insert(&mut self, k: u32, v: u32) -> Option<Result<Option<u32>, ()>> {
        Some(self.m.insert(skey(k), v).map_err(|_| ()))
    }
    fn get(&self, k: u32) -> Option<u32> {
        self.m.get(&skey(k)).copied()
    }
    fn get_mut(&mut self, k: u32, newv: u32) -> Option<Option<u32>> {
        Some(self.m.get_mut(&skey(k)).map(|r| std::mem::replace(r, newv)))
    }
    fn remove(&mut self, k: u32) -> Result<Option<u32>, ()> {
        Ok(self.m.remove(&skey(k)))
    }
    fn contains(&self, k: u32) -> bool {
        self.m.contains_key(&skey(k))
    }
    fn len(&self) -> usize {
        self.m.len()
    }
    fn iter(&self) -> Option<Vec<(u32, u32)>> {
        None
    }
    fn clear(&mut self) -> bool {
        self.m.clear();
        true
    }
}

/// all subject names; `<family>:<variant>[@profile]`
fn subjects() -> Vec<String> {
    let mut v = vec![];
    for p in PROFILES {
        v.push(format!("zhm:default@{p}"));
    }
    v.push("zhm:default_random_state@ident".into());
    v.push("zhm:with_capacity_4@random".into());
    for p in ["ident", "zeromax"] {
        v.push(format!("zhm:cache_optimized@{p}"));
        v.push(format!("zhm:small_inline_4@{p}"));
        v.push(format!("zhm:small_inline_16@{p}"));
        v.push(format!("zhm:concurrent_pool@{p}"));
    }
    v.push("zhm:string_optimized".into());
    for p in ["ident", "collide", "random"] {
        for c in ["default", "small", "large", "high_churn"] {
            v.push(format!("gold32:{c}@{p}"));
        }
    }
    v.push("gold64:default@random".into());
    v.push("gold64:small@collide".into());
    v.push("gold32:toggle_hash_cache@random".into());
    v.push("gold32:safe_strategy@random".into());
    v.push("gold32:revoke_deleted@random".into());
    v.push("gold32:tiny_no_freelist@low2".into());
    for p in ["ident", "collide", "random"] {
        v.push(format!("idx:new@{p}"));
    }
    v.push("idx:with_pool@random".into());
    v.push("small:u32".into());
    v.push("small:u8".into());
    v.push("small:u64".into());
    v.push("small:i32".into());
    for p in ["ident", "zeromax"] {
        v.push(format!("easy:new@{p}"));
    }
    v.push("easy:builder_cap2@random".into());
    v.push("hashstr:new".into());
    v.push("hashstr:with_capacity_1".into());
    v
}

fn fam_of(name: &str) -> String {
    name.split(':').next().unwrap_or("").to_string()
}
fn variant_of(name: &str) -> String {
    name.split(':').nth(1).unwrap_or("").split('@').next().unwrap_or("").to_string()
}

fn make(name: &str) -> Option<Box<dyn Subj>> {
    let (base, prof) = match name.split_once('@') {
        Some((b, p)) => (b, p.to_string()),
        None => (name, "ident".to_string()),
    };
    let (fam, var) = base.split_once(':')?;
    let pool = || {
        zipora::memory::SecureMemoryPool::new(zipora::memory::SecurePoolConfig::small_secure()).ok()
    };
    Some(match fam {
        "zhm" => match var {
            "default" => Box::new(Zhm { m: ZiporaHashMap::<HK, u32, PassThrough>::with_config_and_hasher(ZiporaHashMapConfig::default(), PassThrough).ok()?, p: prof }),
            "default_random_state" => Box::new(Zhm { m: ZiporaHashMap::<HK, u32, RandomState>::new().ok()?, p: prof }),
            "with_capacity_4" => Box::new(Zhm { m: ZiporaHashMap::<HK, u32, PassThrough>::with_capacity(4).ok()?, p: prof }),
            "cache_optimized" => Box::new(Zhm { m: ZiporaHashMap::<HK, u32, PassThrough>::with_config_and_hasher(ZiporaHashMapConfig::cache_optimized(), PassThrough).ok()?, p: prof }),
            "small_inline_4" => Box::new(Zhm { m: ZiporaHashMap::<HK, u32, PassThrough>::with_config_and_hasher(ZiporaHashMapConfig::small_inline(4), PassThrough).ok()?, p: prof }),
            "small_inline_16" => Box::new(Zhm { m: ZiporaHashMap::<HK, u32, PassThrough>::with_config_and_hasher(ZiporaHashMapConfig::small_inline(16), PassThrough).ok()?, p: prof }),
            "concurrent_pool" => Box::new(Zhm { m: ZiporaHashMap::<HK, u32, PassThrough>::with_config_and_hasher(ZiporaHashMapConfig::concurrent_pool(pool()?), PassThrough).ok()?, p: prof }),
            "string_optimized" => Box::new(ZhmStr { m: ZiporaHashMap::with_config(ZiporaHashMapConfig::string_optimized()).ok()? }),
            _ => return None,
        },
        "gold32" | "gold64" => {
            let mut strat = None;
            let mut revoke = false;
            let cfg = match var {
                "default" => GoldHashMapConfig::default(),
                "small" => GoldHashMapConfig::small(),
                "large" => GoldHashMapConfig::large(),
                "high_churn" => GoldHashMapConfig::high_churn(),
                "toggle_hash_cache" => GoldHashMapConfig::default(),
                "safe_strategy" => {
                    strat = Some(IterationStrategy::Safe);
                    GoldHashMapConfig::default()
                }
                "revoke_deleted" => {
                    revoke = true;
                    GoldHashMapConfig::high_churn()
                }
                "tiny_no_freelist" => {
                    let mut c = GoldHashMapConfig::small();
                    c.initial_capacity = 1;
                    c.enable_freelist_reuse = false;
                    c.load_factor = 0.95;
                    c
                }
                _ => return None,
            };
            if fam == "gold32" {
                let mut m = GoldHashMap::<HK, u32, u32>::with_config(cfg);
                if var == "toggle_hash_cache" {
                    m.set_hash_caching(true);
                }
                Box::new(Gold { m, p: prof, strat, revoke })
            } else {
                Box::new(Gold { m: GoldHashMap::<HK, u32, u64>::with_config(cfg), p: prof, strat, revoke })
            }
        }
        "idx" => match var {
            "new" => Box::new(Idx { m: GoldHashIdx::new(), p: prof }),
            "with_pool" => Box::new(Idx { m: GoldHashIdx::with_pool(4, Arc::clone(&pool()?)), p: prof }),
            _ => return None,
        },
        "small" => match var {
            "u32" => Box::new(Small::<u32> { m: SmallMap::new(), conv: |x| x, back: |k| *k }),
            "u8" => Box::new(Small::<u8> { m: SmallMap::new(), conv: |x| x as u8, back: |k| *k as u32 }),
            "u64" => Box::new(Small::<u64> { m: SmallMap::new(), conv: |x| (x as u64) << 33 | x as u64, back: |k| *k as u32 }),
            "i32" => Box::new(Small::<i32> { m: SmallMap::new(), conv: |x| -(x as i32), back: |k| (-*k) as u32 }),
            _ => return None,
        },
        "easy" => match var {
            "new" => Box::new(Easy { m: EasyHashMap::new(), p: prof }),
            "builder_cap2" => Box::new(Easy { m: EasyHashMap::<HK, u32>::initial_capacity(2).auto_grow(true).max_load_factor(0.5).build(), p: prof }),
            _ => return None,
        },
        "hashstr" => match var {
            "new" => Box::new(StrMap { m: HashStrMap::new() }),
            "with_capacity_1" => Box::new(StrMap { m: HashStrMap::with_capacity(1) }),
            _ => return None,
        },
        _ => return None,
    })
}

// ---------------------------------------------------------------- executing operations

fn o(x: Option<u32>) -> Value {
    opt(x)
}
fn pairs(v: &[(u32, u32)]) -> Value {
    Value::Array(v.iter().map(|(k, x)| json!([k, x])).collect())
}

/// Execute one operation on the subject and return the event to log.  A panic is data.
fn exec(s: &mut Box<dyn Subj>, op: &str, k: u32, v: u32, universe: &[u32]) -> Option<Value> {
    let r = guard(|| -> Option<Value> {
        Some(match op {
            "insert" => match s.insert(k, v) {
                Some(Ok(r)) => json!({"op":"insert","k":k,"v":v,"ok":true,"r":o(r)}),
                Some(Err(())) => json!({"op":"insert","k":k,"v":v,"ok":false,"r":[]}),
                None => {
                    s.put(k, v)?;
                    json!({"op":"put","k":k,"v":v})
                }
            },
            "get" => json!({"op":"get","k":k,"r":o(s.get(k))}),
            "get_mut" => match s.get_mut(k, v) {
                Some(r) => json!({"op":"get_mut","k":k,"v":v,"r":o(r)}),
                None => return None,
            },
            "remove" => match s.remove(k) {
                Ok(r) => json!({"op":"remove","k":k,"ok":true,"r":o(r)}),
                Err(()) => json!({"op":"remove","k":k,"ok":false,"r":[]}),
            },
            "contains" => json!({"op":"contains","k":k,"r":s.contains(k)}),
            "len" => json!({"op":"len","r":s.len()}),
            "iter" => match s.iter() {
                Some(it) => json!({"op":"iter","r":pairs(&it)}),
                None => return None,
            },
            "clear" => {
                if s.clear() {
                    json!({"op":"clear"})
                } else {
                    return None;
                }
            }
            "extra" => {
                s.extra();
                json!({"op":"maintenance"})
            }
            "probe" => {
                // full observable projection: get and contains of every key of the universe, len, iter
                let gets: Vec<Value> = universe.iter().map(|&x| json!([x, o(s.get(x)), s.contains(x)])).collect();
                let it = s.iter();
                json!({"op":"probe","get":gets,"len":s.len(),"has_iter":it.is_some(),"iter":pairs(&it.unwrap_or_default())})
            }
            _ => return None,
        })
    });
    match r {
        Ok(x) => x,
        Err(msg) => Some(json!({"op":"panic","in":op,"k":k,"v":v,"msg":msg.chars().take(120).collect::<String>()})),
    }
}

// ---------------------------------------------------------------- B1: random driver

fn drive(a: &Args) {
    let mut tr = Tracer::new(&a.out, "map");
    let rng0 = Rng::new(a.seed);
    let subs: Vec<String> = subjects().into_iter().filter(|s| a.wants(s)).collect();
    let mut per_subject = serde_json::Map::new();
    // (universe size, steps, runs) regimes: tiny key spaces force re-insertion after delete;
    // the large one forces growth / rehash.
    let regimes: Vec<(u32, usize, usize)> = if a.thorough() {
        vec![(4, 60, 40), (12, 300, 20), (40, 600, 10), (3000, 9000, 2)]
    } else {
        vec![(4, 40, 6), (12, 150, 4), (40, 300, 2), (1500, 2500, 1)]
    };
    for name in &subs {
        let mut nev = 0usize;
        let mut panics = 0usize;
        let mut refused = 0usize;
        for (ri, &(uni, steps, runs)) in regimes.iter().enumerate() {
            for run in 0..runs {
                let mut rng = rng0.derive(&format!("{name}/{ri}/{run}"));
                let mut s = match guard(|| make(name)) {
                    Ok(Some(s)) => s,
                    _ => {
                        per_subject.insert(name.clone(), json!({"constructed": false}));
                        continue;
                    }
                };
                // u8-keyed subject: ids must stay below 256
                let uni = if name == "small:u8" { uni.min(200) } else { uni };
                let universe: Vec<u32> = (0..uni).collect();
                let small_uni: Vec<u32> = if uni <= 40 { universe.clone() } else { vec![] };
                tr.reset("map", name, json!({"universe": uni, "regime": ri, "seed": a.seed, "fam": fam_of(name), "variant": variant_of(name)}));
                let mut dead = false;
                for step in 0..steps {
                    let k = rng.below(uni as u64) as u32;
                    let v = rng.below(1000) as u32;
                    let c = rng.below(100);
                    let op = match c {
                        0..=39 => "insert",
                        40..=59 => "remove",
                        60..=69 => "get",
                        70..=76 => "get_mut",
                        77..=81 => "contains",
                        82..=86 => "len",
                        87..=90 => "iter",
                        91 => "clear",
                        92..=94 => "extra",
                        _ => "probe",
                    };
                    // iteration / probes of the big regime are expensive for TLC: do them rarely
                    if uni > 40 && (op == "iter" || op == "probe" || op == "clear") && step % 500 != 499 {
                        continue;
                    }
                    if let Some(e) = exec(&mut s, op, k, v, &small_uni) {
                        if e["op"] == "panic" {
                            panics += 1;
                            // an explicit "not yet implemented" panic of a read-only call leaves the
                            // object intact; any other panic may not
                            let benign = e["msg"].as_str().map_or(false, |m| m.contains("not yet implemented")) && matches!(op, "iter" | "probe");
                            dead = !benign;
                        }
                        if e["ok"] == json!(false) {
                            refused += 1;
                        }
                        tr.ev(e);
                        nev += 1;
                    }
                    if dead {
                        break; // the object may be inconsistent after a panic
                    }
                }
                if !dead {
                    if let Some(e) = exec(&mut s, "len", 0, 0, &small_uni) {
                        tr.ev(e);
                    }
                    if uni <= 3000 {
                        if let Some(e) = exec(&mut s, "iter", 0, 0, &small_uni) {
                            tr.ev(e);
                        }
                    }
                }
                // dropping a map after a panic may itself be unsound; leak it
                if dead {
                    std::mem::forget(s);
                }
            }
        }
        per_subject.insert(name.clone(), json!({"events": nev, "panics": panics, "refused": refused}));
    }
    tr.close();
    write_summary(&a.out, &json!({"mode":"drive","events":tr.total_events,"runs":tr.runs,
        "files":tr.files.iter().map(|p|p.display().to_string()).collect::<Vec<_>>(),"subjects":per_subject}));
}

// ---------------------------------------------------------------- B2: TLC behaviours

/// a behaviour = JSON array of steps {op,k,v,r,st} with abstract keys "k1".. and values "v1"..
fn replay(a: &Args) {
    let input = a.input.clone().expect("--in");
    let text = std::fs::read_to_string(&input).expect("read behaviours");
    let behaviours: Vec<Value> = text.lines().filter(|l| !l.trim().is_empty()).map(|l| serde_json::from_str(l).expect("behaviour json")).collect();
    let subs: Vec<String> = subjects().into_iter().filter(|s| a.wants(s)).collect();
    let next = std::sync::atomic::AtomicUsize::new(0);
    let results = std::sync::Mutex::new(Vec::<(String, Value, usize, usize, usize, Vec<String>)>::new());
    let nthreads = a.get_u64("threads", 14) as usize;
    std::thread::scope(|sc| {
        for _ in 0..nthreads {
            sc.spawn(|| loop {
                let i = next.fetch_add(1, std::sync::atomic::Ordering::SeqCst);
                if i >= subs.len() {
                    break;
                }
                let r = replay_subject(a, &subs[i], i, &behaviours);
                results.lock().unwrap().push(r);
            });
        }
    });
    let mut per_subject = serde_json::Map::new();
    let (mut total_exec, mut events, mut runs) = (0usize, 0usize, 0usize);
    let mut files = vec![];
    for (name, v, ex, ev, ru, f) in results.into_inner().unwrap() {
        per_subject.insert(name, v);
        total_exec += ex;
        events += ev;
        runs += ru;
        files.extend(f);
    }
    write_summary(&a.out, &json!({"mode":"replay","behaviours":behaviours.len(),"executions":total_exec,"events":events,"runs":runs,
        "files":files,"subjects":per_subject}));
}

fn replay_subject(a: &Args, name: &str, idx: usize, behaviours: &[Value]) -> (String, Value, usize, usize, usize, Vec<String>) {
    let mut tr = Tracer::new(&a.out, &format!("mapb2-{idx:03}"));
    tr.max_events = 4000;
    let mut rng = Rng::new(a.seed).derive("b2sample").derive(name);
    let sample_every = a.get_u64("sample", 200);
    let max_mismatch_traces = a.get_u64("max_mismatch", 150) as usize;
    let kid = |s: &Value| -> u32 { s.as_str().map(|x| x[1..].parse::<u32>().unwrap_or(1) - 1).unwrap_or(0) };
    let vid = |s: &Value| -> u32 { s.as_str().map(|x| x[1..].parse::<u32>().unwrap_or(1) * 10).unwrap_or(0) };
    let nkeys = a.get_u64("keys", 3) as u32;
    let universe: Vec<u32> = (0..nkeys).collect();
    let mut total_exec = 0usize;
    {
        let mut mism = 0usize;
        let mut written = 0usize;
        let mut unsupported = 0usize;
        let mut executed = 0usize;
        for (bi, b) in behaviours.iter().enumerate() {
            let steps = match b.as_array() {
                Some(x) => x,
                None => continue,
            };
            let mut s = match guard(|| make(name)) {
                Ok(Some(s)) => s,
                _ => break,
            };
            let mut evs: Vec<Value> = vec![];
            let mut differs = false;
            let mut dead = false;
            let mut skip = false;
            for st in steps {
                let op = st["op"].as_str().unwrap_or("");
                let (k, v) = (kid(&st["k"]), vid(&st["v"]));
                let e = match exec(&mut s, op, k, v, &universe) {
                    Some(e) => e,
                    None => {
                        skip = true; // operation not offered by this subject
                        break;
                    }
                };
                if e["op"] == "panic" {
                    dead = true;
                    differs = true;
                    evs.push(e);
                    break;
                }
                // expected result computed by TLC (equality only)
                if e["op"] != "put" && op != "clear" {
                    let exp: Value = match st["r"].as_array() {
                        Some(x) if x.is_empty() => json!([]),
                        Some(x) => json!([vid(&x[0])]),
                        None => json!(null),
                    };
                    if e["ok"] == json!(false) || (e.get("r").is_some() && e["r"] != exp) {
                        differs = true;
                    }
                }
                evs.push(e);
                // expected abstract state after the step, computed by TLC
                let p = exec(&mut s, "probe", 0, 0, &universe).unwrap();
                if p["op"] == "panic" {
                    dead = true;
                    differs = true;
                    evs.push(p);
                    break;
                }
                let mut exp_pairs: Vec<(u32, u32)> = st["st"].as_array().map(|x| x.iter().map(|q| (kid(&q[0]), vid(&q[1]))).collect()).unwrap_or_default();
                exp_pairs.sort();
                let mut got: Vec<(u32, u32)> = p["get"].as_array().unwrap().iter().filter(|g| !g[1].as_array().unwrap().is_empty()).map(|g| (g[0].as_u64().unwrap() as u32, g[1][0].as_u64().unwrap() as u32)).collect();
                got.sort();
                let contains_ok = p["get"].as_array().unwrap().iter().all(|g| g[2].as_bool().unwrap() == !g[1].as_array().unwrap().is_empty());
                let mut it: Vec<(u32, u32)> = p["iter"].as_array().unwrap().iter().map(|q| (q[0].as_u64().unwrap() as u32, q[1].as_u64().unwrap() as u32)).collect();
                it.sort();
                let has_iter = p["has_iter"].as_bool().unwrap();
                if got != exp_pairs || !contains_ok || p["len"].as_u64().unwrap() as usize != exp_pairs.len() || (has_iter && it != exp_pairs) {
                    differs = true;
                }
                evs.push(p);
            }
            if dead {
                std::mem::forget(s);
            }
            if skip {
                unsupported += 1;
                continue;
            }
            executed += 1;
            total_exec += 1;
            let sampled = rng.below(sample_every) == 0;
            if differs {
                mism += 1;
            }
            if (differs && written < max_mismatch_traces) || sampled {
                if differs {
                    written += 1;
                }
                tr.reset("map", name, json!({"universe": nkeys, "behaviour": bi, "b2": true, "differs": differs, "fam": fam_of(name), "variant": variant_of(name)}));
                for e in evs {
                    tr.ev(e);
                }
            }
        }
        tr.close();
        let v = json!({"behaviours": executed, "unsupported": unsupported, "mismatching": mism, "mismatch_traces_written": written});
        let files = tr.files.iter().map(|p| p.display().to_string()).collect();
        (name.to_string(), v, total_exec, tr.total_events, tr.runs, files)
    }
}

fn main() {
    let a = Args::parse();
    quiet_panics();
    match a.mode.as_str() {
        "drive" => drive(&a),
        "replay" => replay(&a),
        "subjects" => {
            for s in subjects() {
                println!("{s}");
            }
        }
        m => {
            eprintln!("c06: unknown mode {m}");
            std::process::exit(2)
        }
    }
}
