//! C06 — hash maps behave as maps.  Runs real zipora maps, logs every public call as one
//! NDJSON event; TLC judges the events against spec/Map.tla (Trace_Map.tla).
//!
//! modes:
//!   drive   seeded random histories (B1)
//!   replay  execute TLC-generated behaviours (B2): --in <file of REPLAY json lines>; the expected
//!           result of every operation and the expected abstract state after it were computed by
//!           TLC; the harness compares for equality only; behaviours that differ (and a seeded
//!           sample of all) are written as traces for TLC to judge.
use serde_json::{json, Value};
use std::collections::hash_map::RandomState;
use std::hash::{BuildHasher, Hash, Hasher};
use std::sync::Arc;
use std::cell::Cell;
use zipora::containers::specialized::{EasyHashMap, EasyHashMapBuilder, GoldHashIdx, HashStrMap, SmallMap};
use zipora::hash_map::{
    advanced_hash_combine, bmi2_hash_combine_u32, bmi2_hash_combine_u64, golden_ratio_next_size, optimal_bucket_count, extract_bucket_with_bmi2, extract_hash_bucket_bmi2, fabo_hash_combine_u32, fabo_hash_combine_u64,
    fast_string_hash_bmi2, get_global_bmi2_dispatcher, hash_combine_with_bmi2, hash_with_bmi2, specialized, CombineStrategy, GoldHashMap,
    GoldHashMapConfig, HashCombinable, HashFunctionBuilder, HashStrategy, IterationStrategy, OptimizationStrategy, StorageStrategy, ZiporaHashMap,
    ZiporaHashMapConfig,
};
use zipora::string::FastStr;
use zv::*;

// ---------------------------------------------------------------- keys with a chosen hash

/// A key whose `Hash` feeds a chosen 64-bit value to the hasher; equality is by id.
#[derive(Clone, Debug)]
struct HK {
    id: u32,
    h: u64,
}
impl PartialEq for HK {
    fn eq(&self, o: &HK) -> bool {
        self.id == o.id
    }
}
impl Eq for HK {}
impl Hash for HK {
    fn hash<H: Hasher>(&self, s: &mut H) {
        s.write_u64(self.h)
    }
}

/// BuildHasher whose hash *is* the value the key wrote ("any hash function the caller supplies").
#[derive(Clone, Default)]
struct PassThrough;
struct PassHasher(u64);
impl Hasher for PassHasher {
    fn finish(&self) -> u64 {
        self.0
    }
    fn write(&mut self, b: &[u8]) {
        for &x in b {
            self.0 = (self.0 << 8) | x as u64;
        }
    }
    fn write_u64(&mut self, x: u64) {
        self.0 = x
    }
}
impl BuildHasher for PassThrough {
    type Hasher = PassHasher;
    fn build_hasher(&self) -> PassHasher {
        PassHasher(0)
    }
}

/// hash profiles: how abstract key ids are mapped to hash values
const PROFILES: &[&str] = &["ident", "zero", "max", "collide", "low2", "random", "zeromax"];
/// The library's own hash functions (src/hash_map/hash_functions.rs, FastStr::hash_fast) used as "the hash
/// function the caller supplies".  Computed afresh for every call: a map only works if they are functions.
fn lib_hash(id: u32) -> u64 {
    let x = id as u64;
    match id % 16 {
        0 => fabo_hash_combine_u64(x.wrapping_mul(0x9E3779B97F4A7C15), x),
        1 => bmi2_hash_combine_u64(0, x),
        2 => advanced_hash_combine(&[x, x ^ 0x5555, 3]),
        3 => specialized::hash_complex_key_bmi2(&[x, 7]),
        4 => HashFunctionBuilder::new().with_rotation(13).with_strategy(CombineStrategy::Xor).build_u64()(x, 1),
        5 => hash_with_bmi2(format!("key-{id}-padding")),
        6 => hash_combine_with_bmi2(x, 3),
        7 => specialized::hash_integer_bmi2(id),
        8 => specialized::hash_tuple_bmi2(id, 5u32),
        9 => fast_string_hash_bmi2(&format!("k{id}"), 0),
        10 => (HashFunctionBuilder::new().with_strategy(CombineStrategy::Advanced).build_u32()(id, 9) as u64) << 7 | fabo_hash_combine_u32(id, 1) as u64,
        11 => x.fabo_combine(specialized::hash_float_bmi2(id as f64)) ^ specialized::hash_string_bmi2(&format!("s{id}")),
        12 => {
            let d = get_global_bmi2_dispatcher();
            d.hash_with_acceleration(id.to_le_bytes()) ^ ((d.extract_bucket_optimal(x.wrapping_mul(0x9E37), 20) as u64) << 32)
        }
        13 => (bmi2_hash_combine_u32(id, 77) as u64) << 32 | id.fabo_combine(3) as u64,
        14 => HashFunctionBuilder::default().with_strategy(CombineStrategy::Bmi2).build_u64()(x, x) ^ HashFunctionBuilder::new().with_strategy(CombineStrategy::Fabo).build_u64()(1, x),
        _ => HashFunctionBuilder::new().with_rotation(63).with_strategy(CombineStrategy::Addition).build_u64()(x, 2),
    }
}
fn hash_of(profile: &str, id: u32) -> u64 {
    let mix = |x: u64| {
        let mut r = Rng::new(x);
        r.next()
    };
    match profile {
        "libmix" => lib_hash(id),
        // bucket extraction: 8 distinct hash values including 0 (mass collisions on the slot marker)
        "libbucket" => {
            let h = get_global_bmi2_dispatcher().hash_combine_optimal(id as u64, 11);
            if id % 2 == 0 {
                extract_bucket_with_bmi2(h, 3) as u64
            } else {
                extract_hash_bucket_bmi2(h, 3) as u64
            }
        }
        "libfaststr" => FastStr::from_string(&skey(id)).hash_fast(),
        "ident" => id as u64 + 1,
        "zero" => {
            if id == 0 {
                0
            } else {
                mix(id as u64)
            }
        }
        "max" => {
            if id == 1 {
                u64::MAX
            } else {
                mix(id as u64)
            }
        }
        "zeromax" => match id % 4 {
            0 => 0,
            1 => u64::MAX,
            _ => mix(id as u64),
        },
        "collide" => 7,
        "low2" => (id as u64 % 4) + 1,
        _ => mix(id as u64),
    }
}


// ---------------------------------------------------------------- subjects

/// arguments drawn by the driver for the additional operations of a subject
#[derive(Clone, Default)]
struct XArgs {
    k: u32,
    v: u32,
    w: u32,
    ks: Vec<u32>,
    kv: Vec<(u32, u32)>,
    n: usize,
}

/// Uniform view of a map under test.  Every method is a thin call-through; `None` for an
/// operation the type does not offer.
trait Subj {
    fn insert(&mut self, k: u32, v: u32) -> Option<Result<Option<u32>, ()>>;
    fn put(&mut self, _k: u32, _v: u32) -> Option<()> {
        None
    }
    fn get(&self, k: u32) -> Option<u32>;
    /// the getter the `get` operation uses (a twin of get where the type has one); probes use `get`
    fn get_op(&self, k: u32) -> Option<u32> {
        self.get(k)
    }
    fn get_mut(&mut self, k: u32, newv: u32) -> Option<Option<u32>>;
    fn remove(&mut self, k: u32) -> Result<Option<u32>, ()>;
    fn contains(&self, k: u32) -> bool;
    fn len(&self) -> usize;
    fn is_empty(&self) -> Option<bool> {
        None
    }
    fn iter(&self) -> Option<Vec<(u32, u32)>>;
    fn clear(&mut self) -> bool;
    /// which entry point the last insert/get/contains/clear went through (twins)
    fn via(&self) -> Option<&'static str> {
        None
    }
    /// event describing what the constructor already put into the map (from_iter)
    fn initial(&self) -> Option<Value> {
        None
    }
    /// names of the additional operations this subject offers
    fn extras(&self) -> Vec<&'static str> {
        vec![]
    }
    /// the subset of `extras` whose contract is "content unchanged" (injected between the steps
    /// of TLC-generated histories and of the scripted scenarios)
    fn maint(&self) -> Vec<&'static str> {
        vec![]
    }
    /// execute one additional operation and return its complete event
    fn extra(&mut self, _name: &str, _x: &XArgs) -> Option<Value> {
        None
    }
}

fn o(x: Option<u32>) -> Value {
    opt(x)
}
fn pairs(v: &[(u32, u32)]) -> Value {
    Value::Array(v.iter().map(|(k, x)| json!([k, x])).collect())
}
fn maint_ev(what: &str, x: Value) -> Value {
    let mut e = json!({"op":"maintenance","what":what});
    if let (Some(o), Some(c)) = (e.as_object_mut(), x.as_object()) {
        for (k, v) in c {
            o.insert(k.clone(), v.clone());
        }
    }
    e
}

struct Zhm<S: BuildHasher> {
    m: ZiporaHashMap<HK, u32, S>,
    p: String,
    cloner: Option<fn(&ZiporaHashMap<HK, u32, S>) -> ZiporaHashMap<HK, u32, S>>,
}
impl<S: BuildHasher> Zhm<S> {
    fn k(&self, id: u32) -> HK {
        HK { id, h: hash_of(&self.p, id) }
    }
}
impl<S: BuildHasher> Subj for Zhm<S> {
    fn insert(&mut self, k: u32, v: u32) -> Option<Result<Option<u32>, ()>> {
        let k = self.k(k);
        Some(self.m.insert(k, v).map_err(|_| ()))
    }
    fn get(&self, k: u32) -> Option<u32> {
        self.m.get(&self.k(k)).copied()
    }
    fn get_mut(&mut self, k: u32, newv: u32) -> Option<Option<u32>> {
        let k = self.k(k);
        Some(self.m.get_mut(&k).map(|r| std::mem::replace(r, newv)))
    }
    fn remove(&mut self, k: u32) -> Result<Option<u32>, ()> {
        let k = self.k(k);
        Ok(self.m.remove(&k))
    }
    fn contains(&self, k: u32) -> bool {
        self.m.contains_key(&self.k(k))
    }
    fn len(&self) -> usize {
        self.m.len()
    }
    fn is_empty(&self) -> Option<bool> {
        Some(self.m.is_empty())
    }
    fn iter(&self) -> Option<Vec<(u32, u32)>> {
        Some(self.m.iter().map(|(k, v)| (k.id, *v)).collect())
    }
    fn clear(&mut self) -> bool {
        self.m.clear();
        true
    }
    fn extras(&self) -> Vec<&'static str> {
        if self.cloner.is_some() {
            vec!["clone"]
        } else {
            vec![]
        }
    }
    fn maint(&self) -> Vec<&'static str> {
        self.extras()
    }
    fn extra(&mut self, name: &str, _x: &XArgs) -> Option<Value> {
        match name {
            "clone" => {
                let c = (self.cloner?)(&self.m);
                self.m = c;
                Some(json!({"op":"clone","eq":[]}))
            }
            _ => None,
        }
    }
}

struct Gold<L: zipora::hash_map::LinkType> {
    m: GoldHashMap<HK, u32, L>,
    p: String,
    strat: Option<IterationStrategy>,
    revoke: bool,
    /// the configured default iteration strategy is Fast: iter() is the fast iteration
    fast_default: bool,
    /// offers the configuration-changing calls too
    toggle: bool,
}
impl<L: zipora::hash_map::LinkType> Gold<L> {
    fn k(&self, id: u32) -> HK {
        HK { id, h: hash_of(&self.p, id) }
    }
}
impl<L: zipora::hash_map::LinkType> Subj for Gold<L> {
    fn insert(&mut self, k: u32, v: u32) -> Option<Result<Option<u32>, ()>> {
        let k = self.k(k);
        Some(self.m.insert(k, v).map_err(|_| ()))
    }
    fn get(&self, k: u32) -> Option<u32> {
        self.m.get(&self.k(k)).copied()
    }
    fn get_mut(&mut self, k: u32, newv: u32) -> Option<Option<u32>> {
        let k = self.k(k);
        Some(self.m.get_mut(&k).map(|r| std::mem::replace(r, newv)))
    }
    fn remove(&mut self, k: u32) -> Result<Option<u32>, ()> {
        let k = self.k(k);
        self.m.remove(&k).map_err(|_| ())
    }
    fn contains(&self, k: u32) -> bool {
        self.m.contains_key(&self.k(k))
    }
    fn len(&self) -> usize {
        self.m.len()
    }
    fn is_empty(&self) -> Option<bool> {
        Some(self.m.is_empty())
    }
    fn iter(&self) -> Option<Vec<(u32, u32)>> {
        if self.fast_default {
            return None; // iter() is the fast iteration: offered as the extra "iter_default"
        }
        Some(match self.strat {
            None => self.m.iter().map(|(k, v)| (k.id, *v)).collect(),
            Some(s) => self.m.iter_with_strategy(s).map(|(k, v)| (k.id, *v)).collect(),
        })
    }
    fn clear(&mut self) -> bool {
        self.m.clear();
        true
    }
    fn extras(&self) -> Vec<&'static str> {
        let mut v = vec!["reserve", "iter_fast", "iter_safe"];
        if self.fast_default {
            v.push("iter_default");
        }
        if self.revoke || self.toggle {
            v.push("revoke_deleted");
        }
        if self.toggle {
            v.push("hash_cache_on");
            v.push("hash_cache_off");
        }
        v
    }
    fn maint(&self) -> Vec<&'static str> {
        self.extras().into_iter().filter(|n| !n.starts_with("iter")).collect()
    }
    fn extra(&mut self, name: &str, x: &XArgs) -> Option<Value> {
        Some(match name {
            "reserve" => {
                // the library's own sizing functions supply every second argument
                let n = match x.n % 3 {
                    0 => x.n,
                    1 => golden_ratio_next_size(x.n).min(100_000),
                    _ => optimal_bucket_count(x.n).min(100_000),
                };
                let ok = self.m.reserve(n).is_ok();
                maint_ev("reserve", json!({"n": n, "ok": ok}))
            }
            "revoke_deleted" => {
                let ok = self.m.revoke_deleted().is_ok();
                maint_ev("revoke_deleted", json!({"ok": ok}))
            }
            "hash_cache_on" => {
                self.m.set_hash_caching(true);
                maint_ev("set_hash_caching", json!({"on": true}))
            }
            "hash_cache_off" => {
                self.m.set_hash_caching(false);
                maint_ev("set_hash_caching", json!({"on": false}))
            }
            "iter_fast" => {
                let it: Vec<(u32, u32)> = self.m.iter_fast().map(|(k, v)| (k.id, *v)).collect();
                json!({"op":"iter_fast","via":"iter_fast","r":pairs(&it)})
            }
            "iter_default" => {
                let it: Vec<(u32, u32)> = self.m.iter().map(|(k, v)| (k.id, *v)).collect();
                json!({"op":"iter_fast","via":"iter","r":pairs(&it)})
            }
            "iter_safe" => {
                let it: Vec<(u32, u32)> = self.m.iter_with_strategy(IterationStrategy::Safe).map(|(k, v)| (k.id, *v)).collect();
                json!({"op":"iter","via":"iter_with_strategy(Safe)","r":pairs(&it)})
            }
            _ => return None,
        })
    }
}

struct Idx {
    m: GoldHashIdx<HK, u32>,
    p: String,
}
impl Idx {
    fn k(&self, id: u32) -> HK {
        HK { id, h: hash_of(&self.p, id) }
    }
}
impl Subj for Idx {
    fn insert(&mut self, k: u32, v: u32) -> Option<Result<Option<u32>, ()>> {
        let k = self.k(k);
        Some(self.m.insert(k, v).map_err(|_| ()))
    }
    fn get(&self, k: u32) -> Option<u32> {
        self.m.get(&self.k(k)).copied()
    }
    fn get_mut(&mut self, k: u32, newv: u32) -> Option<Option<u32>> {
        let k = self.k(k);
        Some(self.m.get_mut(&k).map(|r| std::mem::replace(r, newv)))
    }
    fn remove(&mut self, k: u32) -> Result<Option<u32>, ()> {
        let k = self.k(k);
        Ok(self.m.remove(&k))
    }
    fn contains(&self, k: u32) -> bool {
        self.m.contains_key(&self.k(k))
    }
    fn len(&self) -> usize {
        self.m.len()
    }
    fn is_empty(&self) -> Option<bool> {
        Some(self.m.is_empty())
    }
    fn iter(&self) -> Option<Vec<(u32, u32)>> {
        None
    }
    fn clear(&mut self) -> bool {
        false
    }
    fn extras(&self) -> Vec<&'static str> {
        vec!["shrink_to_fit", "insert_batch", "get_batch", "shrink_to_fit"]
    }
    fn maint(&self) -> Vec<&'static str> {
        vec!["shrink_to_fit"]
    }
    fn extra(&mut self, name: &str, x: &XArgs) -> Option<Value> {
        Some(match name {
            "shrink_to_fit" => {
                self.m.shrink_to_fit();
                maint_ev("shrink_to_fit", json!({}))
            }
            "insert_batch" => {
                let items: Vec<(HK, u32)> = x.kv.iter().map(|&(k, v)| (self.k(k), v)).collect();
                let ok = self.m.insert_batch(items).is_ok();
                json!({"op":"insert_batch","kv":pairs(&x.kv),"ok":ok})
            }
            "get_batch" => {
                let keys: Vec<HK> = x.ks.iter().map(|&k| self.k(k)).collect();
                let r: Vec<Value> = self.m.get_batch(&keys).into_iter().map(|v| o(v.copied())).collect();
                json!({"op":"get_batch","ks":x.ks,"r":r})
            }
            _ => return None,
        })
    }
}

struct Small<K: Copy + From<u8> + Hash + Eq + 'static> {
    m: SmallMap<K, u32>,
    conv: fn(u32) -> K,
    back: fn(&K) -> u32,
    /// twin getter (SmallMap<u8,_>::get_fast)
    fast: Option<fn(&SmallMap<K, u32>, &K) -> Option<u32>>,
}
impl<K: Copy + From<u8> + Hash + Eq + 'static> Subj for Small<K> {
    fn insert(&mut self, k: u32, v: u32) -> Option<Result<Option<u32>, ()>> {
        Some(self.m.insert((self.conv)(k), v).map_err(|_| ()))
    }
    fn get(&self, k: u32) -> Option<u32> {
        self.m.get(&(self.conv)(k)).copied()
    }
    fn get_op(&self, k: u32) -> Option<u32> {
        match self.fast {
            Some(f) => f(&self.m, &(self.conv)(k)),
            None => self.get(k),
        }
    }
    fn via(&self) -> Option<&'static str> {
        self.fast.map(|_| "get_fast")
    }
    fn get_mut(&mut self, k: u32, newv: u32) -> Option<Option<u32>> {
        Some(self.m.get_mut(&(self.conv)(k)).map(|r| std::mem::replace(r, newv)))
    }
    fn remove(&mut self, k: u32) -> Result<Option<u32>, ()> {
        Ok(self.m.remove(&(self.conv)(k)))
    }
    fn contains(&self, k: u32) -> bool {
        self.m.contains_key(&(self.conv)(k))
    }
    fn len(&self) -> usize {
        self.m.len()
    }
    fn is_empty(&self) -> Option<bool> {
        Some(self.m.is_empty())
    }
    fn iter(&self) -> Option<Vec<(u32, u32)>> {
        Some(self.m.iter().map(|(k, v)| ((self.back)(k), *v)).collect())
    }
    fn clear(&mut self) -> bool {
        self.m.clear();
        true
    }
    fn extras(&self) -> Vec<&'static str> {
        vec!["clone"]
    }
    fn maint(&self) -> Vec<&'static str> {
        vec!["clone"]
    }
    fn extra(&mut self, name: &str, _x: &XArgs) -> Option<Value> {
        match name {
            "clone" => {
                let c = self.m.clone();
                let eq = self.m == c;
                self.m = c;
                Some(json!({"op":"clone","eq":[eq]}))
            }
            _ => None,
        }
    }
}

struct Easy {
    m: EasyHashMap<HK, u32>,
    p: String,
    default: Option<u32>,
    init: Vec<(u32, u32)>,
}
impl Easy {
    fn k(&self, id: u32) -> HK {
        HK { id, h: hash_of(&self.p, id) }
    }
    /// retain with a predicate named in the event; `seen` = what the predicate was shown
    fn retain(&mut self, pk: &str, a: u32, b: u32, mutate: bool) -> Value {
        let mut seen: Vec<(u32, u32)> = vec![];
        let pk_s = pk.to_string();
        self.m.retain(|k, v| {
            seen.push((k.id, *v));
            let keep = match pk_s.as_str() {
                "kmod" => k.id % a != b,
                "vlt" => *v < a,
                "all" => true,
                _ => false,
            };
            if keep && mutate {
                *v += 1;
            }
            keep
        });
        json!({"op":"retain","pk":pk,"a":a,"b":b,"mut":mutate,"seen":pairs(&seen)})
    }
}
const LOAD_FACTORS: &[f64] = &[0.0, 0.1, 0.5, 0.75, 0.95, 1.0, 7.0, -1.0];
impl Subj for Easy {
    fn insert(&mut self, _k: u32, _v: u32) -> Option<Result<Option<u32>, ()>> {
        None
    }
    fn put(&mut self, k: u32, v: u32) -> Option<()> {
        let k = self.k(k);
        self.m.put(k, v);
        Some(())
    }
    fn get(&self, k: u32) -> Option<u32> {
        self.m.get(&self.k(k)).copied()
    }
    fn get_mut(&mut self, _k: u32, _newv: u32) -> Option<Option<u32>> {
        None
    }
    fn remove(&mut self, k: u32) -> Result<Option<u32>, ()> {
        let k = self.k(k);
        Ok(self.m.remove(&k))
    }
    fn contains(&self, k: u32) -> bool {
        self.m.contains_key(&self.k(k))
    }
    fn len(&self) -> usize {
        self.m.len()
    }
    fn is_empty(&self) -> Option<bool> {
        Some(self.m.is_empty())
    }
    fn iter(&self) -> Option<Vec<(u32, u32)>> {
        None
    }
    fn clear(&mut self) -> bool {
        self.m.clear();
        true
    }
    fn initial(&self) -> Option<Value> {
        if self.init.is_empty() {
            None
        } else {
            Some(json!({"op":"extend","via":"from_iter","kv":pairs(&self.init)}))
        }
    }
    fn extras(&self) -> Vec<&'static str> {
        let mut v = vec![
            "get_or_insert",
            "get_or_insert_with",
            "retain_kmod",
            "retain_vlt",
            "retain_mut",
            "extend",
            "reserve",
            "try_reserve",
            "shrink_to_fit",
            "set_auto_grow",
            "set_max_load_factor",
            "retain_all",
        ];
        if self.default.is_some() {
            v.push("get_or_default");
        }
        v
    }
    fn maint(&self) -> Vec<&'static str> {
        vec!["reserve", "try_reserve", "shrink_to_fit", "set_auto_grow", "set_max_load_factor", "retain_all"]
    }
    fn extra(&mut self, name: &str, x: &XArgs) -> Option<Value> {
        Some(match name {
            "get_or_default" => {
                let d = self.default?;
                let r = *self.m.get_or_default(&self.k(x.k));
                json!({"op":"get_or_default","k":x.k,"d":d,"r":r})
            }
            "get_or_insert" => {
                let k = self.k(x.k);
                match self.m.get_or_insert(k, x.v) {
                    Ok(r) => {
                        let seen = *r;
                        // every second call only looks through the reference
                        let w = if x.n % 2 == 0 { x.w } else { seen };
                        *r = w;
                        json!({"op":"get_or_insert","via":"get_or_insert","k":x.k,"v":x.v,"w":w,"ok":true,"r":seen,"called":[]})
                    }
                    Err(_) => json!({"op":"get_or_insert","via":"get_or_insert","k":x.k,"v":x.v,"w":x.w,"ok":false,"r":0,"called":[]}),
                }
            }
            "get_or_insert_with" => {
                let k = self.k(x.k);
                let called = Cell::new(false);
                let v = x.v;
                match self.m.get_or_insert_with(k, || {
                    called.set(true);
                    v
                }) {
                    Ok(r) => {
                        let seen = *r;
                        let w = if x.n % 2 == 0 { x.w } else { seen };
                        *r = w;
                        json!({"op":"get_or_insert","via":"get_or_insert_with","k":x.k,"v":x.v,"w":w,"ok":true,"r":seen,"called":[called.get()]})
                    }
                    Err(_) => json!({"op":"get_or_insert","via":"get_or_insert_with","k":x.k,"v":x.v,"w":x.w,"ok":false,"r":0,"called":[called.get()]}),
                }
            }
            "retain_kmod" => {
                let a = 2 + (x.n % 4) as u32;
                self.retain("kmod", a, x.k % a, false)
            }
            "retain_vlt" => self.retain("vlt", x.v, 0, false),
            "retain_mut" => {
                let a = 2 + (x.n % 3) as u32;
                self.retain("kmod", a, x.k % a, true)
            }
            "retain_all" => self.retain("all", 0, 0, false),
            "extend" => {
                let items: Vec<(HK, u32)> = x.kv.iter().map(|&(k, v)| (self.k(k), v)).collect();
                if x.n % 2 == 0 {
                    self.m.extend(items);
                    json!({"op":"extend","via":"extend","kv":pairs(&x.kv)})
                } else {
                    std::iter::Extend::extend(&mut self.m, items);
                    json!({"op":"extend","via":"Extend::extend","kv":pairs(&x.kv)})
                }
            }
            "reserve" => {
                self.m.reserve(x.n);
                maint_ev("reserve", json!({"n": x.n}))
            }
            "try_reserve" => {
                let ok = self.m.try_reserve(x.n).is_ok();
                maint_ev("try_reserve", json!({"n": x.n, "ok": ok}))
            }
            "shrink_to_fit" => {
                self.m.shrink_to_fit();
                maint_ev("shrink_to_fit", json!({}))
            }
            "set_auto_grow" => {
                let on = x.n % 2 == 0;
                self.m.set_auto_grow(on);
                maint_ev("set_auto_grow", json!({"on": on}))
            }
            "set_max_load_factor" => {
                let f = LOAD_FACTORS[x.n % LOAD_FACTORS.len()];
                self.m.set_max_load_factor(f);
                maint_ev("set_max_load_factor", json!({"permille": (f * 1000.0) as i64}))
            }
            _ => return None,
        })
    }
}

fn skey(id: u32) -> String {
    match id % 5 {
        0 => format!("k{id}"),
        1 => format!("a-rather-long-shared-prefix-for-interning/{id}"),
        2 => format!("{id}"),
        3 => format!("\u{00e9}\u{4e2d}{id}"),
        _ => format!("{}{}", "x".repeat((id % 40) as usize), id),
    }
}
/// projection of a string key back to its id through the (injective) skey table: the id is the
/// trailing decimal number; a string that is not in the table projects to a key no run uses
fn skey_id(s: &str) -> u32 {
    let digits: String = s.chars().rev().take_while(|c| c.is_ascii_digit()).collect::<Vec<_>>().into_iter().rev().collect();
    match digits.parse::<u32>() {
        Ok(id) if skey(id) == s => id,
        _ => 999_999_999,
    }
}

/// byte-string keys for the FastStr entry points of HashStrMap: every third key is not valid UTF-8;
/// the lossy images of the keys are pairwise distinct
fn bkey(id: u32) -> Vec<u8> {
    match id % 3 {
        0 => format!("b{id}").into_bytes(),
        1 => format!("\u{00fc}\u{00df}/{id}").into_bytes(),
        _ => {
            let mut v = vec![0xff, 0xc0];
            v.extend_from_slice(format!("{id}").as_bytes());
            v
        }
    }
}

struct StrMap {
    m: HashStrMap<u32>,
    /// keys are byte strings (bkey) given as FastStr; the &str entry points get the lossy image
    bytes: bool,
    /// go through the twins of insert / get / contains_key / clear
    twins: bool,
    n: Cell<u32>,
    last: Cell<Option<&'static str>>,
}
impl StrMap {
    fn tick(&self) -> u32 {
        let n = self.n.get();
        self.n.set(n + 1);
        n
    }
}
impl StrMap {
    fn key(&self, k: u32) -> String {
        if self.bytes {
            String::from_utf8_lossy(&bkey(k)).into_owned()
        } else {
            skey(k)
        }
    }
    fn key_id(&self, s: &str) -> u32 {
        if !self.bytes {
            return skey_id(s);
        }
        let digits: String = s.chars().rev().take_while(|c| c.is_ascii_digit()).collect::<Vec<_>>().into_iter().rev().collect();
        match digits.parse::<u32>() {
            Ok(id) if String::from_utf8_lossy(&bkey(id)) == s => id,
            _ => 999_999_999,
        }
    }
}
impl Subj for StrMap {
    fn insert(&mut self, k: u32, v: u32) -> Option<Result<Option<u32>, ()>> {
        if self.bytes {
            self.last.set(Some("insert_fast_str"));
            return Some(self.m.insert_fast_str(FastStr::new(&bkey(k)), v).map_err(|_| ()));
        }
        let key = skey(k);
        if !self.twins {
            return Some(self.m.insert(&key, v).map_err(|_| ()));
        }
        Some(match self.tick() % 3 {
            0 => {
                self.last.set(Some("insert_string"));
                self.m.insert_string(key, v).map_err(|_| ())
            }
            1 => {
                self.last.set(Some("insert_fast_str"));
                self.m.insert_fast_str(FastStr::from_string(&key), v).map_err(|_| ())
            }
            _ => {
                self.last.set(Some("insert"));
                self.m.insert(&key, v).map_err(|_| ())
            }
        })
    }
    fn get(&self, k: u32) -> Option<u32> {
        let key = self.key(k);
        if self.twins && !self.bytes {
            self.last.set(Some("get_by_fast_str"));
            self.m.get_by_fast_str(&FastStr::from_string(&key)).copied()
        } else {
            self.last.set(None);
            self.m.get(&key).copied()
        }
    }
    fn get_op(&self, k: u32) -> Option<u32> {
        if self.bytes {
            self.last.set(Some("get_by_fast_str"));
            self.m.get_by_fast_str(&FastStr::new(&bkey(k))).copied()
        } else {
            self.get(k)
        }
    }
    fn get_mut(&mut self, k: u32, newv: u32) -> Option<Option<u32>> {
        self.last.set(None);
        Some(self.m.get_mut(&self.key(k)).map(|r| std::mem::replace(r, newv)))
    }
    fn remove(&mut self, k: u32) -> Result<Option<u32>, ()> {
        self.last.set(None);
        Ok(self.m.remove(&self.key(k)))
    }
    fn contains(&self, k: u32) -> bool {
        if self.twins {
            self.last.set(Some("is_interned"));
            self.m.is_interned(&self.key(k))
        } else {
            self.m.contains_key(&self.key(k))
        }
    }
    fn len(&self) -> usize {
        self.m.len()
    }
    fn is_empty(&self) -> Option<bool> {
        Some(self.m.is_empty())
    }
    fn iter(&self) -> Option<Vec<(u32, u32)>> {
        Some(self.m.iter().map(|(k, v)| (self.key_id(k), *v)).collect())
    }
    fn clear(&mut self) -> bool {
        if self.twins {
            self.last.set(Some("clear_all"));
            self.m.clear_all();
        } else {
            self.m.clear();
        }
        true
    }
    fn via(&self) -> Option<&'static str> {
        self.last.get()
    }
    fn extras(&self) -> Vec<&'static str> {
        vec!["shrink_to_fit", "keys", "values"]
    }
    fn maint(&self) -> Vec<&'static str> {
        vec!["shrink_to_fit"]
    }
    fn extra(&mut self, name: &str, _x: &XArgs) -> Option<Value> {
        Some(match name {
            "shrink_to_fit" => {
                self.m.shrink_to_fit();
                maint_ev("shrink_to_fit", json!({}))
            }
            "keys" => json!({"op":"keys","r":self.m.keys().map(|k| self.key_id(k)).collect::<Vec<u32>>()}),
            "values" => json!({"op":"values","r":self.m.values().copied().collect::<Vec<u32>>()}),
            _ => return None,
        })
    }
}

/// string keys for ZiporaHashMap (string_optimized preset; default preset)
struct ZhmStr {
    m: ZiporaHashMap<String, u32, RandomState>,
}
impl Subj for ZhmStr {
    fn insert(&mut self, k: u32, v: u32) -> Option<Result<Option<u32>, ()>> {
        Some(self.m.insert(skey(k), v).map_err(|_| ()))
    }
    fn get(&self, k: u32) -> Option<u32> {
        self.m.get(&skey(k)).copied()
    }
    fn get_mut(&mut self, k: u32, newv: u32) -> Option<Option<u32>> {
        Some(self.m.get_mut(&skey(k)).map(|r| std::mem::replace(r, newv)))
    }
    fn remove(&mut self, k: u32) -> Result<Option<u32>, ()> {
        Ok(self.m.remove(&skey(k)))
    }
    fn contains(&self, k: u32) -> bool {
        self.m.contains_key(&skey(k))
    }
    fn len(&self) -> usize {
        self.m.len()
    }
    fn is_empty(&self) -> Option<bool> {
        Some(self.m.is_empty())
    }
    fn iter(&self) -> Option<Vec<(u32, u32)>> {
        Some(self.m.iter().map(|(k, v)| (skey_id(k), *v)).collect())
    }
    fn clear(&mut self) -> bool {
        self.m.clear();
        true
    }
}

/// all subject names; `<family>:<variant>[@profile]`
fn subjects() -> Vec<String> {
    let mut v = vec![];
    for p in PROFILES {
        v.push(format!("zhm:default@{p}"));
    }
    v.push("zhm:default_random_state@ident".into());
    v.push("zhm:with_capacity_4@random".into());
    for p in ["ident", "zeromax"] {
        v.push(format!("zhm:cache_optimized@{p}"));
        v.push(format!("zhm:small_inline_4@{p}"));
        v.push(format!("zhm:small_inline_16@{p}"));
        v.push(format!("zhm:concurrent_pool@{p}"));
    }
    v.push("zhm:string_optimized".into());
    for p in ["ident", "collide", "random"] {
        for c in ["default", "small", "large", "high_churn"] {
            v.push(format!("gold32:{c}@{p}"));
        }
    }
    v.push("gold64:default@random".into());
    v.push("gold64:small@collide".into());
    v.push("gold32:toggle_hash_cache@random".into());
    v.push("gold32:safe_strategy@random".into());
    v.push("gold32:revoke_deleted@random".into());
    v.push("gold32:tiny_no_freelist@low2".into());
    for p in ["ident", "collide", "random"] {
        v.push(format!("idx:new@{p}"));
    }
    v.push("idx:with_pool@random".into());
    v.push("small:u32".into());
    v.push("small:u8".into());
    v.push("small:u64".into());
    v.push("small:i32".into());
    for p in ["ident", "zeromax"] {
        v.push(format!("easy:new@{p}"));
    }
    v.push("easy:builder_cap2@random".into());
    v.push("hashstr:new".into());
    v.push("hashstr:with_capacity_1".into());
    // ---- coverage round: library hash functions as the caller's hash, every public config field at
    // its extremes, non-power-of-two capacities, twins, constructors
    v.push("zhm:default@libmix".into());
    v.push("zhm:default@libbucket".into());
    v.push("zhm:default@libfaststr".into());
    v.push("zhm:default_str".into());
    v.push("zhm:std_cap0_chain@zeromax".into());
    v.push("zhm:std_cap17_cuckoo@low2".into());
    v.push("zhm:std_cap24_hopscotch@collide".into());
    v.push("zhm:std_cap100_linear@random".into());
    v.push("zhm:robin_extreme@ident".into());
    v.push("zhm:pool_cap1@max".into());
    v.push("zhm:with_capacity_0@random".into());
    v.push("zhm:with_capacity_100@zeromax".into());
    v.push("zhm:default_clone@random".into());
    v.push("zhm:with_capacity_100_clone@collide".into());
    v.push("gold32:lf_low_cap0@random".into());
    v.push("gold32:lf_high_cap1@low2".into());
    v.push("gold32:lf_nan_cap1000@random".into());
    v.push("gold32:fast_default@random".into());
    v.push("gold64:gc_nofreelist@collide".into());
    v.push("gold32:toggle_all@random".into());
    v.push("idx:with_capacity_0@random".into());
    v.push("idx:with_capacity_100@low2".into());
    v.push("small:u8_fast".into());
    v.push("easy:with_default@random".into());
    v.push("easy:builder_default_lf95_nogrow@collide".into());
    v.push("easy:builder_cap100_lf10@random".into());
    v.push("easy:from_iter@random".into());
    v.push("hashstr:twins".into());
    v.push("hashstr:faststr_bytes".into());
    v
}

/// subjects of the coverage round that share their code path with an older subject: they skip the
/// large-universe regime of the random driver and take every 4th TLC-generated history
fn is_light(name: &str) -> bool {
    const LIGHT: &[&str] = &[
        "zhm:default@libmix",
        "zhm:default@libbucket",
        "zhm:default@libfaststr",
        "zhm:std_cap0_chain@zeromax",
        "zhm:std_cap17_cuckoo@low2",
        "zhm:std_cap24_hopscotch@collide",
        "zhm:robin_extreme@ident",
        "zhm:pool_cap1@max",
        "zhm:with_capacity_0@random",
        "zhm:default_clone@random",
        "zhm:with_capacity_100_clone@collide",
        "gold32:lf_low_cap0@random",
        "gold32:lf_high_cap1@low2",
        "gold32:lf_nan_cap1000@random",
        "gold64:gc_nofreelist@collide",
        "idx:with_capacity_0@random",
        "easy:builder_default_lf95_nogrow@collide",
        "easy:builder_cap100_lf10@random",
        "easy:from_iter@random",
        "zhm:default_str",
        "zhm:std_cap100_linear@random",
        "gold32:fast_default@random",
        "idx:with_capacity_100@low2",
        "small:u8_fast",
        "easy:with_default@random",
        "hashstr:faststr_bytes",
    ];
    LIGHT.contains(&name)
}

fn fam_of(name: &str) -> String {
    name.split(':').next().unwrap_or("").to_string()
}
fn variant_of(name: &str) -> String {
    name.split(':').nth(1).unwrap_or("").split('@').next().unwrap_or("").to_string()
}

fn zhm_cfg(storage_cap: usize, growth: f64, hs: HashStrategy, os: OptimizationStrategy, cap: usize, lf: f64) -> ZiporaHashMapConfig {
    ZiporaHashMapConfig {
        hash_strategy: hs,
        storage_strategy: StorageStrategy::Standard { initial_capacity: storage_cap, growth_factor: growth },
        optimization_strategy: os,
        initial_capacity: cap,
        load_factor: lf,
    }
}

fn make(name: &str) -> Option<Box<dyn Subj>> {
    let (base, prof) = match name.split_once('@') {
        Some((b, p)) => (b, p.to_string()),
        None => (name, "ident".to_string()),
    };
    let (fam, var) = base.split_once(':')?;
    let pool = || zipora::memory::SecureMemoryPool::new(zipora::memory::SecurePoolConfig::small_secure()).ok();
    let zp = |cfg: ZiporaHashMapConfig, prof: String, clone: bool| -> Option<Box<dyn Subj>> {
        let cloner: Option<fn(&ZiporaHashMap<HK, u32, PassThrough>) -> ZiporaHashMap<HK, u32, PassThrough>> = if clone { Some(|m| m.clone()) } else { None };
        Some(Box::new(Zhm { m: ZiporaHashMap::<HK, u32, PassThrough>::with_config_and_hasher(cfg, PassThrough).ok()?, p: prof, cloner }))
    };
    Some(match fam {
        "zhm" => match var {
            "default" => return zp(ZiporaHashMapConfig::default(), prof, false),
            "default_clone" => Box::new(Zhm { m: ZiporaHashMap::<HK, u32, PassThrough>::default(), p: prof, cloner: Some(|m| m.clone()) }),
            "default_random_state" => Box::new(Zhm { m: ZiporaHashMap::<HK, u32, RandomState>::new().ok()?, p: prof, cloner: None }),
            "with_capacity_4" => Box::new(Zhm { m: ZiporaHashMap::<HK, u32, PassThrough>::with_capacity(4).ok()?, p: prof, cloner: None }),
            "with_capacity_0" => Box::new(Zhm { m: ZiporaHashMap::<HK, u32, PassThrough>::with_capacity(0).ok()?, p: prof, cloner: None }),
            "with_capacity_100" => Box::new(Zhm { m: ZiporaHashMap::<HK, u32, PassThrough>::with_capacity(100).ok()?, p: prof, cloner: None }),
            "with_capacity_100_clone" => Box::new(Zhm { m: ZiporaHashMap::<HK, u32, PassThrough>::with_capacity(100).ok()?, p: prof, cloner: Some(|m| m.clone()) }),
            "cache_optimized" => return zp(ZiporaHashMapConfig::cache_optimized(), prof, false),
            "small_inline_4" => return zp(ZiporaHashMapConfig::small_inline(4), prof, false),
            "small_inline_16" => return zp(ZiporaHashMapConfig::small_inline(16), prof, false),
            "concurrent_pool" => return zp(ZiporaHashMapConfig::concurrent_pool(pool()?), prof, false),
            "pool_cap1" => {
                let mut c = ZiporaHashMapConfig::concurrent_pool(pool()?);
                c.initial_capacity = 1;
                c.load_factor = 1.0;
                if let StorageStrategy::PoolAllocated { chunk_size, .. } = &mut c.storage_strategy {
                    *chunk_size = 1;
                }
                c.hash_strategy = HashStrategy::Hopscotch { neighborhood_size: 0, displacement_threshold: 0 };
                return zp(c, prof, false);
            }
            "std_cap0_chain" => {
                return zp(
                    zhm_cfg(0, 1.0, HashStrategy::Chaining { load_factor: 0.01, hash_cache: true, compact_links: true }, OptimizationStrategy::Standard, 0, 0.01),
                    prof,
                    false,
                )
            }
            "std_cap17_cuckoo" => {
                return zp(
                    zhm_cfg(
                        17,
                        16.0,
                        HashStrategy::Cuckoo { num_hash_functions: 255, max_evictions: 0 },
                        OptimizationStrategy::SimdAccelerated { string_ops: false, bulk_ops: false, hash_computation: false },
                        17,
                        0.99,
                    ),
                    prof,
                    false,
                )
            }
            "std_cap24_hopscotch" => {
                return zp(
                    zhm_cfg(
                        24,
                        1.5,
                        HashStrategy::Hopscotch { neighborhood_size: 1, displacement_threshold: u16::MAX },
                        OptimizationStrategy::HighPerformance { simd_enabled: false, cache_optimized: false, prefetch_enabled: false, numa_aware: false },
                        24,
                        0.5,
                    ),
                    prof,
                    false,
                )
            }
            "std_cap100_linear" => {
                return zp(
                    zhm_cfg(
                        100,
                        2.0,
                        HashStrategy::LinearProbing { max_probe_distance: 0, cache_aligned: false },
                        OptimizationStrategy::CacheAware { prefetch_distance: 0, hot_cold_separation: false, access_pattern_tracking: false },
                        100,
                        0.5,
                    ),
                    prof,
                    false,
                )
            }
            "robin_extreme" => {
                return zp(
                    zhm_cfg(
                        16,
                        2.0,
                        HashStrategy::RobinHood { max_probe_distance: 0, variance_reduction: false, backward_shift: false },
                        OptimizationStrategy::SimdAccelerated { string_ops: true, bulk_ops: true, hash_computation: true },
                        usize::MAX / 2,
                        f64::NAN,
                    ),
                    prof,
                    false,
                )
            }
            "string_optimized" => Box::new(ZhmStr { m: ZiporaHashMap::with_config(ZiporaHashMapConfig::string_optimized()).ok()? }),
            "default_str" => Box::new(ZhmStr { m: ZiporaHashMap::new().ok()? }),
            _ => return None,
        },
        "gold32" | "gold64" => {
            let mut strat = None;
            let mut revoke = false;
            let mut fast_default = false;
            let mut toggle = false;
            let cfg = match var {
                "default" => GoldHashMapConfig::default(),
                "small" => GoldHashMapConfig::small(),
                "large" => GoldHashMapConfig::large(),
                "high_churn" => GoldHashMapConfig::high_churn(),
                "toggle_hash_cache" => GoldHashMapConfig::default(),
                "safe_strategy" => {
                    strat = Some(IterationStrategy::Safe);
                    GoldHashMapConfig::default()
                }
                "revoke_deleted" => {
                    revoke = true;
                    GoldHashMapConfig::high_churn()
                }
                "tiny_no_freelist" => {
                    let mut c = GoldHashMapConfig::small();
                    c.initial_capacity = 1;
                    c.enable_freelist_reuse = false;
                    c.load_factor = 0.95;
                    c
                }
                "lf_low_cap0" => GoldHashMapConfig {
                    initial_capacity: 0,
                    load_factor: 0.05,
                    enable_hash_cache: true,
                    enable_auto_gc: true,
                    enable_freelist_reuse: false,
                    default_iteration_strategy: IterationStrategy::Safe,
                },
                "lf_high_cap1" => GoldHashMapConfig {
                    initial_capacity: 1,
                    load_factor: 0.999,
                    enable_hash_cache: false,
                    enable_auto_gc: false,
                    enable_freelist_reuse: true,
                    default_iteration_strategy: IterationStrategy::Safe,
                },
                "lf_nan_cap1000" => GoldHashMapConfig {
                    initial_capacity: 1000,
                    load_factor: f32::NAN,
                    enable_hash_cache: true,
                    enable_auto_gc: false,
                    enable_freelist_reuse: true,
                    default_iteration_strategy: IterationStrategy::Safe,
                },
                "fast_default" => {
                    fast_default = true;
                    GoldHashMapConfig { default_iteration_strategy: IterationStrategy::Fast, ..GoldHashMapConfig::default() }
                }
                "gc_nofreelist" => GoldHashMapConfig {
                    initial_capacity: 5,
                    load_factor: 0.7,
                    enable_hash_cache: true,
                    enable_auto_gc: true,
                    enable_freelist_reuse: false,
                    default_iteration_strategy: IterationStrategy::Safe,
                },
                "toggle_all" => {
                    toggle = true;
                    GoldHashMapConfig::default()
                }
                _ => return None,
            };
            if var == "toggle_all" {
                Box::new(Gold { m: GoldHashMap::<HK, u32, u32>::new(), p: prof, strat, revoke, fast_default, toggle })
            } else if fam == "gold32" {
                let mut m = GoldHashMap::<HK, u32, u32>::with_config(cfg);
                if var == "toggle_hash_cache" {
                    m.set_hash_caching(true);
                }
                Box::new(Gold { m, p: prof, strat, revoke, fast_default, toggle })
            } else {
                Box::new(Gold { m: GoldHashMap::<HK, u32, u64>::with_config(cfg), p: prof, strat, revoke, fast_default, toggle })
            }
        }
        "idx" => match var {
            "new" => Box::new(Idx { m: GoldHashIdx::new(), p: prof }),
            "with_pool" => Box::new(Idx { m: GoldHashIdx::with_pool(4, Arc::clone(&pool()?)), p: prof }),
            "with_capacity_0" => Box::new(Idx { m: GoldHashIdx::with_capacity(0), p: prof }),
            "with_capacity_100" => Box::new(Idx { m: GoldHashIdx::with_capacity(100), p: prof }),
            _ => return None,
        },
        "small" => match var {
            "u32" => Box::new(Small::<u32> { m: SmallMap::new(), conv: |x| x, back: |k| *k, fast: None }),
            "u8" => Box::new(Small::<u8> { m: SmallMap::new(), conv: |x| x as u8, back: |k| *k as u32, fast: None }),
            "u8_fast" => Box::new(Small::<u8> { m: SmallMap::default(), conv: |x| x as u8, back: |k| *k as u32, fast: Some(|m, k| m.get_fast(k).copied()) }),
            "u64" => Box::new(Small::<u64> { m: SmallMap::new(), conv: |x| (x as u64) << 33 | x as u64, back: |k| *k as u32, fast: None }),
            "i32" => Box::new(Small::<i32> { m: SmallMap::new(), conv: |x| -(x as i32), back: |k| (-*k) as u32, fast: None }),
            _ => return None,
        },
        "easy" => {
            let (m, default, init): (EasyHashMap<HK, u32>, Option<u32>, Vec<(u32, u32)>) = match var {
                "new" => (EasyHashMap::new(), None, vec![]),
                "builder_cap2" => (EasyHashMap::<HK, u32>::initial_capacity(2).auto_grow(true).max_load_factor(0.5).build(), None, vec![]),
                "with_default" => (EasyHashMap::with_default(77_777), Some(77_777), vec![]),
                "builder_default_lf95_nogrow" => {
                    (EasyHashMap::<HK, u32>::with_default_value(5).with_capacity(16).auto_grow(false).max_load_factor(7.0).build(), Some(5), vec![])
                }
                "builder_cap100_lf10" => (EasyHashMapBuilder::<HK, u32>::default().with_capacity(100).max_load_factor(0.0).build(), None, vec![]),
                "from_iter" => {
                    let init = vec![(0u32, 1u32), (1, 2), (0, 3), (2, 4)];
                    let p = prof.clone();
                    let m: EasyHashMap<HK, u32> = init.iter().map(|&(k, v)| (HK { id: k, h: hash_of(&p, k) }, v)).collect();
                    (m, None, init)
                }
                _ => return None,
            };
            Box::new(Easy { m, p: prof, default, init })
        }
        "hashstr" => match var {
            "new" => Box::new(StrMap { m: HashStrMap::new(), bytes: false, twins: false, n: Cell::new(0), last: Cell::new(None) }),
            "with_capacity_1" => Box::new(StrMap { m: HashStrMap::with_capacity(1), bytes: false, twins: false, n: Cell::new(0), last: Cell::new(None) }),
            "twins" => Box::new(StrMap { m: HashStrMap::default(), bytes: false, twins: true, n: Cell::new(0), last: Cell::new(None) }),
            "faststr_bytes" => Box::new(StrMap { m: HashStrMap::new(), bytes: true, twins: true, n: Cell::new(0), last: Cell::new(None) }),
            _ => return None,
        },
        _ => return None,
    })
}

// ---------------------------------------------------------------- executing operations

/// Execute one operation on the subject and return the event to log.  A panic is data.
/// `op` is one of the listed operations or `x:<name>` for an additional operation of the subject.
fn exec(s: &mut Box<dyn Subj>, op: &str, x: &XArgs, universe: &[u32]) -> Option<Value> {
    let (k, v) = (x.k, x.v);
    let r = guard(|| -> Option<Value> {
        let mut e = match op {
            "insert" => match s.insert(k, v) {
                Some(Ok(r)) => json!({"op":"insert","k":k,"v":v,"ok":true,"r":o(r)}),
                Some(Err(())) => json!({"op":"insert","k":k,"v":v,"ok":false,"r":[]}),
                None => {
                    s.put(k, v)?;
                    json!({"op":"put","k":k,"v":v})
                }
            },
            "get" => json!({"op":"get","k":k,"r":o(s.get_op(k))}),
            "get_mut" => match s.get_mut(k, v) {
                Some(r) => json!({"op":"get_mut","k":k,"v":v,"r":o(r)}),
                None => return None,
            },
            "remove" => match s.remove(k) {
                Ok(r) => json!({"op":"remove","k":k,"ok":true,"r":o(r)}),
                Err(()) => json!({"op":"remove","k":k,"ok":false,"r":[]}),
            },
            "contains" => json!({"op":"contains","k":k,"r":s.contains(k)}),
            "len" => json!({"op":"len","r":s.len()}),
            "is_empty" => json!({"op":"is_empty","r":s.is_empty()?}),
            "iter" => match s.iter() {
                Some(it) => json!({"op":"iter","r":pairs(&it)}),
                None => return None,
            },
            "clear" => {
                if s.clear() {
                    json!({"op":"clear"})
                } else {
                    return None;
                }
            }
            "probe" => {
                // full observable projection: get and contains of every key of the universe, len, iter
                let gets: Vec<Value> = universe.iter().map(|&x| json!([x, o(s.get(x)), s.contains(x)])).collect();
                let it = s.iter();
                let mut p = json!({"op":"probe","get":gets,"len":s.len(),"has_iter":it.is_some(),"iter":pairs(&it.unwrap_or_default())});
                if let Some(b) = s.is_empty() {
                    p["empty"] = json!(b);
                }
                return Some(p);
            }
            _ => match op.strip_prefix("x:") {
                Some(name) => return s.extra(name, x),
                None => return None,
            },
        };
        if matches!(op, "insert" | "get" | "contains" | "clear") {
            if let Some(via) = s.via() {
                e["via"] = json!(via);
            }
        }
        Some(e)
    });
    match r {
        Ok(x) => x,
        Err(msg) => Some(json!({"op":"panic","in":op.strip_prefix("x:").unwrap_or(op),"k":k,"v":v,"msg":msg.chars().take(120).collect::<String>()})),
    }
}

/// an explicit "not yet implemented" panic of a read-only call leaves the object intact
fn benign_panic(e: &Value, op: &str) -> bool {
    e["msg"].as_str().map_or(false, |m| m.contains("not yet implemented")) && matches!(op, "iter" | "probe" | "x:clone")
}

fn draw(rng: &mut Rng, uni: u32) -> XArgs {
    let k = rng.below(uni as u64) as u32;
    let v = rng.below(1000) as u32;
    let w = rng.below(1000) as u32;
    let nks = rng.range(1, 6) as usize;
    let ks = (0..nks).map(|_| rng.below(uni as u64) as u32).collect();
    let nkv = rng.below(7) as usize;
    // a small key window so that batches hit the same key twice
    let base = rng.below(uni as u64) as u32;
    let kv = (0..nkv).map(|_| ((base + rng.below(4) as u32) % uni, rng.below(1000) as u32)).collect();
    let n = *rng.pick(&[0usize, 1, 2, 3, 5, 7, 16, 17, 33, 100, 1000]);
    XArgs { k, v, w, ks, kv, n }
}

/// additional operations whose events grow with the map: done rarely on the large key universe
fn is_bulky(name: &str) -> bool {
    name.starts_with("iter") || name.starts_with("retain") || matches!(name, "keys" | "values" | "clone")
}

struct Counters {
    nev: usize,
    panics: usize,
    refused: usize,
}

/// log one event; returns false when the run must stop (the object may be inconsistent after a panic)
fn emit(tr: &mut Tracer, c: &mut Counters, op: &str, e: Value) -> bool {
    let mut alive = true;
    if e["op"] == "panic" {
        c.panics += 1;
        alive = benign_panic(&e, op);
    }
    if e["ok"] == json!(false) {
        c.refused += 1;
    }
    tr.ev(e);
    c.nev += 1;
    alive
}

// ---------------------------------------------------------------- B1: random driver

fn drive(a: &Args) {
    let mut tr = Tracer::new(&a.out, "map");
    let rng0 = Rng::new(a.seed);
    let subs: Vec<String> = subjects().into_iter().filter(|s| a.wants(s)).collect();
    let mut per_subject = serde_json::Map::new();
    // (universe size, steps, runs) regimes: tiny key spaces force re-insertion after delete;
    // the large one forces growth / rehash.
    let regimes: Vec<(u32, usize, usize)> = if a.thorough() {
        vec![(4, 60, 40), (12, 300, 20), (40, 600, 10), (3000, 9000, 2)]
    } else {
        vec![(4, 40, 6), (12, 150, 4), (40, 300, 2), (1500, 2500, 1)]
    };
    for name in &subs {
        let mut c = Counters { nev: 0, panics: 0, refused: 0 };
        let mut extras_done = std::collections::BTreeSet::new();
        // every subject starts a new trace file: a subject with a known finding is re-validated alone
        tr.max_events = 0;
        for (ri, &(uni, steps, runs)) in regimes.iter().enumerate() {
            if uni > 40 && is_light(name) {
                continue;
            }
            for run in 0..runs {
                let mut rng = rng0.derive(&format!("{name}/{ri}/{run}"));
                let mut s = match guard(|| make(name)) {
                    Ok(Some(s)) => s,
                    _ => {
                        per_subject.insert(name.clone(), json!({"constructed": false}));
                        continue;
                    }
                };
                // u8-keyed subject: ids must stay below 256
                let uni = if name.starts_with("small:u8") { uni.min(200) } else { uni };
                let universe: Vec<u32> = (0..uni).collect();
                let small_uni: Vec<u32> = if uni <= 40 { universe.clone() } else { vec![] };
                tr.reset("map", name, json!({"universe": uni, "regime": ri, "seed": a.seed, "fam": fam_of(name), "variant": variant_of(name)}));
                tr.max_events = 6000;
                if let Some(e) = s.initial() {
                    tr.ev(e);
                }
                let extras = s.extras();
                let mut dead = false;
                for step in 0..steps {
                    let x = draw(&mut rng, uni);
                    let cc = rng.below(100);
                    let pick = rng.below(1 << 20) as usize;
                    let mut op = match cc {
                        0..=36 => "insert",
                        37..=56 => "remove",
                        57..=66 => "get",
                        67..=73 => "get_mut",
                        74..=78 => "contains",
                        79..=82 => "len",
                        83 => "is_empty",
                        84..=87 => "iter",
                        88 => "clear",
                        89..=95 => "extra",
                        _ => "probe",
                    }
                    .to_string();
                    if op == "extra" {
                        if extras.is_empty() {
                            continue;
                        }
                        let n = extras[pick % extras.len()];
                        if uni > 40 && is_bulky(n) && step % 250 != 249 {
                            continue;
                        }
                        op = format!("x:{n}");
                    }
                    // iteration / probes of the big regime are expensive for TLC: do them rarely
                    if uni > 40 && (op == "iter" || op == "probe" || op == "clear") && step % 500 != 499 {
                        continue;
                    }
                    if let Some(e) = exec(&mut s, &op, &x, &small_uni) {
                        if let Some(n) = op.strip_prefix("x:") {
                            extras_done.insert(n.to_string());
                        }
                        if !emit(&mut tr, &mut c, &op, e) {
                            dead = true;
                            break;
                        }
                    }
                }
                if !dead {
                    let x = XArgs::default();
                    if let Some(e) = exec(&mut s, "len", &x, &small_uni) {
                        tr.ev(e);
                    }
                    if uni <= 3000 {
                        if let Some(e) = exec(&mut s, "iter", &x, &small_uni) {
                            tr.ev(e);
                        }
                    }
                }
                // dropping a map after a panic may itself be unsound; leak it
                if dead {
                    std::mem::forget(s);
                }
            }
        }
        // scripted histories: thresholds of every storage, delete-everything-and-refill, tombstone chains
        let sc = scenarios(a, name, &mut tr, &mut c);
        per_subject.insert(name.clone(), json!({"events": c.nev, "panics": c.panics, "refused": c.refused, "scenario_runs": sc,
            "extras_exercised": extras_done.into_iter().collect::<Vec<_>>()}));
    }
    tr.close();
    write_summary(&a.out, &json!({"mode":"drive","events":tr.total_events,"runs":tr.runs,
        "files":tr.files.iter().map(|p|p.display().to_string()).collect::<Vec<_>>(),"subjects":per_subject}));
}

// ---------------------------------------------------------------- scripted scenarios (input classes)

/// map sizes at which the scripted histories take a full probe: one below / at / one above every
/// growth trigger of the storages (ZiporaHashMap standard 16/32/64/128 and 2/4/8 for the masks of
/// non-power-of-two capacities, GoldHashMap max_load 4/10/16/21/32/44/58/67/139, GoldHashIdx 12/24/48/96,
/// SmallMap 8, EasyHashMap 12/48/96 and 8/32/64, std HashMap 3/7/14/28/56/112)
const PROBE_SIZES: &[usize] = &[
    1, 2, 3, 4, 5, 7, 8, 9, 10, 11, 12, 13, 14, 15, 16, 17, 18, 21, 22, 23, 24, 25, 28, 29, 31, 32, 33, 34, 44, 45, 46, 47, 48, 49, 56, 57, 58, 59, 63, 64, 65, 66, 67, 68, 95,
    96, 97, 98, 112, 113, 127, 128, 129, 138, 139, 140, 141,
];

struct Script<'a> {
    s: Box<dyn Subj>,
    tr: &'a mut Tracer,
    c: &'a mut Counters,
    maint: Vec<&'static str>,
    mi: usize,
    dead: bool,
}
impl<'a> Script<'a> {
    fn op(&mut self, op: &str, k: u32, v: u32, universe: &[u32]) {
        if self.dead {
            return;
        }
        let x = XArgs { k, v, w: v + 1, ks: vec![k], kv: vec![(k, v)], n: (k as usize) % 41 };
        if let Some(e) = exec(&mut self.s, op, &x, universe) {
            if !emit(self.tr, self.c, op, e) {
                self.dead = true;
            }
        }
    }
    /// the next maintenance-like call of the subject (reserve, shrink_to_fit, revoke_deleted, clone, ...)
    fn maintain(&mut self, k: u32) {
        if self.maint.is_empty() {
            return;
        }
        let name = format!("x:{}", self.maint[self.mi % self.maint.len()]);
        self.mi += 1;
        self.op(&name, k, 0, &[]);
    }
    fn probe(&mut self, lo: u32, hi: u32) {
        let u: Vec<u32> = (lo..hi).collect();
        self.op("probe", 0, 0, &u);
    }
}

fn scenarios(a: &Args, name: &str, tr: &mut Tracer, c: &mut Counters) -> usize {
    let val = |k: u32, round: u32| (k * 7 + round * 1000 + (a.seed as u32 % 97)) % 100_000;
    let big = name.contains(":large");
    let u8keys = name.starts_with("small:u8"); // ids must stay below 256
    let n_fill: u32 = if a.thorough() && !u8keys { 300 } else { 141 };
    let mut runs = 0;
    let mut start = |tr: &mut Tracer, what: &str, uni: u32| -> Option<Box<dyn Subj>> {
        let s = match guard(|| make(name)) {
            Ok(Some(s)) => s,
            _ => return None,
        };
        tr.reset("map", name, json!({"universe": uni, "scenario": what, "seed": a.seed, "fam": fam_of(name), "variant": variant_of(name)}));
        if let Some(e) = s.initial() {
            tr.ev(e);
        }
        runs += 1;
        Some(s)
    };
    // ---- A: fill through every threshold, delete everything, refill, with maintenance calls in between
    if let Some(s) = start(tr, "fill_drain_refill", n_fill + 2) {
        let maint = s.maint();
        let mut sc = Script { s, tr: &mut *tr, c: &mut *c, maint, mi: 0, dead: false };
        let from_iter = sc.s.initial().is_some();
        if from_iter {
            for k in 0..3 {
                sc.op("remove", k, 0, &[]);
            }
        }
        for k in 0..n_fill {
            sc.op("insert", k, val(k, 0), &[]);
            if PROBE_SIZES.contains(&((k + 1) as usize)) {
                sc.op("len", 0, 0, &[]);
                sc.probe(0, k + 2);
                sc.maintain(k);
                sc.op("get", k, 0, &[]);
                sc.op("get", 0, 0, &[]);
            }
        }
        sc.maintain(0);
        sc.probe(0, n_fill + 2);
        for k in 0..n_fill {
            sc.op("remove", k, 0, &[]);
            let left = (n_fill - k - 1) as usize;
            if PROBE_SIZES.contains(&left) && left % 2 == 0 {
                sc.op("len", 0, 0, &[]);
                sc.probe(k.saturating_sub(1), n_fill + 1);
                sc.maintain(k);
            }
        }
        sc.op("len", 0, 0, &[]);
        sc.op("is_empty", 0, 0, &[]);
        sc.probe(0, n_fill + 2);
        sc.maintain(1);
        for k in (0..n_fill).rev() {
            sc.op("insert", k, val(k, 1), &[]);
            let have = (n_fill - k) as usize;
            if PROBE_SIZES.contains(&have) && have % 2 == 1 {
                sc.op("len", 0, 0, &[]);
                sc.probe(k.saturating_sub(1), n_fill + 1);
            }
        }
        sc.probe(0, n_fill + 2);
        for k in (0..n_fill).rev() {
            sc.op("remove", k, 0, &[]);
        }
        sc.probe(0, n_fill + 2);
        sc.op("clear", 0, 0, &[]);
        for k in 0..20 {
            sc.op("insert", k, val(k, 2), &[]);
        }
        sc.probe(0, 22);
        if sc.dead {
            std::mem::forget(sc.s);
        }
    }
    // ---- B: sliding window at a growth trigger: every insert follows a delete (tombstone-saturated tables)
    if let Some(s) = start(tr, "sliding_window", 200) {
        let maint = s.maint();
        let mut sc = Script { s, tr: &mut *tr, c: &mut *c, maint, mi: 0, dead: false };
        let mut base = 0u32;
        let windows: &[u32] = if u8keys || !a.thorough() { &[11, 16, 31] } else { &[11, 15, 16, 31, 47] };
        for &w in windows {
            for k in 0..w {
                sc.op("insert", base + k, val(k, 3), &[]);
            }
            for t in 0..3 * w {
                sc.op("remove", base + t, 0, &[]);
                sc.op("insert", base + w + t, val(t, 4), &[]);
                if t % (w / 2) == 0 {
                    sc.op("len", 0, 0, &[]);
                    sc.probe((base + t).saturating_sub(2), base + w + t + 3);
                    if t % w == 0 {
                        sc.maintain(t);
                    }
                }
            }
            // drain the window completely and go on with fresh keys
            for t in 3 * w..4 * w {
                sc.op("remove", base + t, 0, &[]);
            }
            sc.op("len", 0, 0, &[]);
            base += 4 * w;
        }
        sc.probe(0, base.min(200));
        if sc.dead {
            std::mem::forget(sc.s);
        }
    }
    // ---- C: a long chain of deleted entries in front of a live one, then reinsertion
    if let Some(s) = start(tr, "tombstone_chain", 42) {
        let maint = s.maint();
        let mut sc = Script { s, tr: &mut *tr, c: &mut *c, maint, mi: 0, dead: false };
        let n = 40u32;
        for k in 0..n {
            sc.op("insert", k, val(k, 5), &[]);
        }
        for k in 0..n - 1 {
            sc.op("remove", k, 0, &[]);
        }
        sc.op("get", n - 1, 0, &[]);
        sc.op("get_mut", n - 1, 4242, &[]);
        sc.op("contains", 0, 0, &[]);
        sc.probe(0, n + 2);
        for k in 0..n - 1 {
            sc.op("insert", k, val(k, 6), &[]);
            if k % 8 == 0 {
                sc.op("get", n - 1, 0, &[]);
            }
        }
        sc.probe(0, n + 2);
        sc.maintain(3);
        for k in (0..n).step_by(2) {
            sc.op("remove", k, 0, &[]);
        }
        sc.maintain(4);
        sc.probe(0, n + 2);
        for k in 0..n {
            sc.op("insert", k, val(k, 7), &[]);
        }
        sc.probe(0, n + 2);
        if sc.dead {
            std::mem::forget(sc.s);
        }
    }
    // ---- D: GoldHashMapConfig::large() grows at 1218 entries (1741 buckets x 0.7): fill across it
    if big {
        if let Some(s) = start(tr, "large_threshold", 1300) {
            let maint = s.maint();
            let mut sc = Script { s, tr: &mut *tr, c: &mut *c, maint, mi: 0, dead: false };
            for k in 0..1240u32 {
                sc.op("insert", k, val(k, 8), &[]);
                if k % 64 == 0 || (1214..1224).contains(&k) {
                    sc.op("len", 0, 0, &[]);
                    sc.op("get", k, 0, &[]);
                    sc.op("get", k / 2, 0, &[]);
                    sc.op("get", k + 1, 0, &[]);
                }
            }
            sc.op("iter", 0, 0, &[]);
            for k in (0..1240u32).step_by(3) {
                sc.op("remove", k, 0, &[]);
            }
            sc.maintain(1000);
            sc.op("len", 0, 0, &[]);
            sc.op("iter", 0, 0, &[]);
            if sc.dead {
                std::mem::forget(sc.s);
            }
        }
    }
    runs
}

// ---------------------------------------------------------------- B2: TLC behaviours

/// a behaviour = JSON array of steps {op,k,v,r,st} with abstract keys "k1".. and values "v1"..
fn replay(a: &Args) {
    let input = a.input.clone().expect("--in");
    let text = std::fs::read_to_string(&input).expect("read behaviours");
    let behaviours: Vec<Value> = text.lines().filter(|l| !l.trim().is_empty()).map(|l| serde_json::from_str(l).expect("behaviour json")).collect();
    let subs: Vec<String> = subjects().into_iter().filter(|s| a.wants(s)).collect();
    let next = std::sync::atomic::AtomicUsize::new(0);
    let results = std::sync::Mutex::new(Vec::<(String, Value, usize, usize, usize, Vec<String>)>::new());
    let nthreads = a.get_u64("threads", 14) as usize;
    std::thread::scope(|sc| {
        for _ in 0..nthreads {
            sc.spawn(|| loop {
                let i = next.fetch_add(1, std::sync::atomic::Ordering::SeqCst);
                if i >= subs.len() {
                    break;
                }
                let r = replay_subject(a, &subs[i], i, &behaviours);
                results.lock().unwrap().push(r);
            });
        }
    });
    let mut per_subject = serde_json::Map::new();
    let (mut total_exec, mut events, mut runs) = (0usize, 0usize, 0usize);
    let mut files = vec![];
    // The sampled traces of subjects on which every history matched TLC's values are pooled into few
    // files (TLC's start-up dominates small files); a subject with mismatching histories keeps its own
    // files, so that it can be re-validated alone.
    let mut res = results.into_inner().unwrap();
    res.sort_by(|x, y| x.0.cmp(&y.0));
    let mut pool: Option<std::fs::File> = None;
    let (mut pooled_lines, mut pool_no) = (0usize, 0usize);
    for (name, v, ex, ev, ru, f) in res {
        let clean = v["mismatching"] == json!(0);
        per_subject.insert(name, v);
        total_exec += ex;
        events += ev;
        runs += ru;
        if !clean {
            files.extend(f);
            continue;
        }
        for path in f {
            let text = std::fs::read_to_string(&path).unwrap_or_default();
            if pool.is_none() || pooled_lines >= 9000 {
                let p = a.out.join(format!("mapb2-pool-{pool_no:04}.ndjson"));
                pool_no += 1;
                pooled_lines = 0;
                pool = Some(std::fs::File::create(&p).expect("create pool file"));
                files.push(p.display().to_string());
            }
            use std::io::Write;
            pool.as_mut().unwrap().write_all(text.as_bytes()).expect("write pool file");
            pooled_lines += text.lines().count();
            let _ = std::fs::remove_file(&path);
        }
    }
    drop(pool);
    write_summary(&a.out, &json!({"mode":"replay","behaviours":behaviours.len(),"executions":total_exec,"events":events,"runs":runs,
        "files":files,"subjects":per_subject}));
}

fn replay_subject(a: &Args, name: &str, idx: usize, behaviours: &[Value]) -> (String, Value, usize, usize, usize, Vec<String>) {
    let mut tr = Tracer::new(&a.out, &format!("mapb2-{idx:03}"));
    tr.max_events = 4000;
    let mut rng = Rng::new(a.seed).derive("b2sample").derive(name);
    let stride = if is_light(name) { 4 } else { 1 };
    let sample_every = (a.get_u64("sample", 200) / stride as u64).max(1);
    let max_mismatch_traces = a.get_u64("max_mismatch", 150) as usize;
    let kid = |s: &Value| -> u32 { s.as_str().map(|x| x[1..].parse::<u32>().unwrap_or(1) - 1).unwrap_or(0) };
    let vid = |s: &Value| -> u32 { s.as_str().map(|x| x[1..].parse::<u32>().unwrap_or(1) * 10).unwrap_or(0) };
    let nkeys = a.get_u64("keys", 3) as u32;
    let universe: Vec<u32> = (0..nkeys).collect();
    let mut total_exec = 0usize;
    {
        let mut mism = 0usize;
        let mut written = 0usize;
        let mut unsupported = 0usize;
        let mut executed = 0usize;
        let mut injected = 0usize;
        for (bi, b) in behaviours.iter().enumerate() {
            // light subjects take every 4th history, the offset moves with the seed
            if (bi + a.seed as usize) % stride != 0 {
                continue;
            }
            let steps = match b.as_array() {
                Some(x) => x,
                None => continue,
            };
            let mut s = match guard(|| make(name)) {
                Ok(Some(s)) => s,
                _ => break,
            };
            if s.initial().is_some() {
                // the constructor filled the map: TLC's histories start from the empty map
                s.clear();
            }
            // one maintenance-like call of the subject (content must not change) is injected before
            // step `pos` of the history (pos = number of steps: none); kind and position rotate
            let maint = s.maint();
            let bq = bi / stride;
            let pos = bq % (steps.len() + 1);
            let kind = if maint.is_empty() { None } else { Some(maint[(bq / (steps.len() + 1)) % maint.len()]) };
            let mut evs: Vec<Value> = vec![];
            let mut differs = false;
            let mut dead = false;
            let mut skip = false;
            for (si, st) in steps.iter().enumerate() {
                let op = st["op"].as_str().unwrap_or("");
                let (k, v) = (kid(&st["k"]), vid(&st["v"]));
                let x = XArgs { k, v, w: v, ks: vec![k], kv: vec![], n: bq % 23 };
                if let (Some(kind), true) = (kind, si == pos) {
                    if let Some(e) = exec(&mut s, &format!("x:{kind}"), &x, &universe) {
                        injected += 1;
                        let p = e["op"] == "panic";
                        evs.push(e);
                        if p {
                            dead = true;
                            differs = true;
                            break;
                        }
                    }
                }
                let e = match exec(&mut s, op, &x, &universe) {
                    Some(e) => e,
                    None => {
                        skip = true; // operation not offered by this subject
                        break;
                    }
                };
                if e["op"] == "panic" {
                    dead = true;
                    differs = true;
                    evs.push(e);
                    break;
                }
                // expected result computed by TLC (equality only)
                if e["op"] != "put" && op != "clear" {
                    let exp: Value = match st["r"].as_array() {
                        Some(x) if x.is_empty() => json!([]),
                        Some(x) => json!([vid(&x[0])]),
                        None => json!(null),
                    };
                    if e["ok"] == json!(false) || (e.get("r").is_some() && e["r"] != exp) {
                        differs = true;
                    }
                }
                evs.push(e);
                // expected abstract state after the step, computed by TLC
                let p = exec(&mut s, "probe", &x, &universe).unwrap();
                if p["op"] == "panic" {
                    dead = true;
                    differs = true;
                    evs.push(p);
                    break;
                }
                let mut exp_pairs: Vec<(u32, u32)> = st["st"].as_array().map(|x| x.iter().map(|q| (kid(&q[0]), vid(&q[1]))).collect()).unwrap_or_default();
                exp_pairs.sort();
                let mut got: Vec<(u32, u32)> = p["get"].as_array().unwrap().iter().filter(|g| !g[1].as_array().unwrap().is_empty()).map(|g| (g[0].as_u64().unwrap() as u32, g[1][0].as_u64().unwrap() as u32)).collect();
                got.sort();
                let contains_ok = p["get"].as_array().unwrap().iter().all(|g| g[2].as_bool().unwrap() == !g[1].as_array().unwrap().is_empty());
                let mut it: Vec<(u32, u32)> = p["iter"].as_array().unwrap().iter().map(|q| (q[0].as_u64().unwrap() as u32, q[1].as_u64().unwrap() as u32)).collect();
                it.sort();
                let has_iter = p["has_iter"].as_bool().unwrap();
                let empty_ok = p.get("empty").and_then(|b| b.as_bool()).map_or(true, |b| b == exp_pairs.is_empty());
                if got != exp_pairs || !contains_ok || !empty_ok || p["len"].as_u64().unwrap() as usize != exp_pairs.len() || (has_iter && it != exp_pairs) {
                    differs = true;
                }
                evs.push(p);
            }
            if dead {
                std::mem::forget(s);
            }
            if skip {
                unsupported += 1;
                continue;
            }
            executed += 1;
            total_exec += 1;
            let sampled = rng.below(sample_every) == 0;
            if differs {
                mism += 1;
            }
            if (differs && written < max_mismatch_traces) || sampled {
                if differs {
                    written += 1;
                }
                tr.reset("map", name, json!({"universe": nkeys, "behaviour": bi, "b2": true, "differs": differs, "fam": fam_of(name), "variant": variant_of(name)}));
                for e in evs {
                    tr.ev(e);
                }
            }
        }
        tr.close();
        let v = json!({"behaviours": executed, "unsupported": unsupported, "mismatching": mism, "mismatch_traces_written": written, "maintenance_injected": injected});
        let files = tr.files.iter().map(|p| p.display().to_string()).collect();
        (name.to_string(), v, total_exec, tr.total_events, tr.runs, files)
    }
}

fn main() {
    let a = Args::parse();
    quiet_panics();
    match a.mode.as_str() {
        "drive" => drive(&a),
        "replay" => replay(&a),
        "subjects" => {
            for s in subjects() {
                println!("{s}");
            }
        }
        m => {
            eprintln!("c06: unknown mode {m}");
            std::process::exit(2)
        }
    }
}
