//! C02 — compressor layer and PA-Zip round-trip whatever algorithm is chosen.
//!
//! Runs the real zipora compressors, logs every compress / decompress call as one NDJSON event
//! (payload and frame are projected to (len, digest)); TLC judges the events against
//! spec/CompressorFraming.tla (Trace_Compressor.tla).  The harness holds no model of any codec: it never
//! compares input with output.
//!
//! modes:
//!   drive     parent: one child process per subject group (a crash / timeout of a child is an event)
//!   child     one subject group (--subject <group>)
//!   replay    B2: execute TLC-generated PA-Zip match sequences (--in <file of REPLAY json lines>):
//!             encode_matches -> decode_matches, encode_match / decode_match, and the two interpreters of the
//!             match stream (SimdLz77Compressor::decompress, PaZipCompressor::decompress); the values TLC
//!             computed travel with the item and are compared for equality only (drift counters); every
//!             execution is logged and judged by TLC.
//!   census    developer aid: prints per subject how many frames came back with another digest (not used
//!             by the check)
//!   witness   developer aid: prints what the small witnesses quoted in known_findings.json do
use serde_json::{json, Map, Value};
use std::sync::Arc;
use std::time::{Duration, Instant};
use zipora::compression::dict_zip::compression_types::{
    apply_fse_compression, decode_match, decode_matches, encode_match, encode_matches, fse_unzip_reference, fse_zip_reference,
    remove_fse_compression, BitReader, BitWriter, FseCompressor, FseConfig, Match,
};
use zipora::compression::dict_zip::{
    DictionaryBuilder, DictionaryBuilderConfig, PaZipCompressor, PaZipCompressorConfig, SuffixArrayDictionary, SuffixArrayDictionaryConfig,
};
use zipora::compression::{
    compress_with_simd_lz77, decompress_with_simd_lz77, AdaptiveCompressor, AdaptiveConfig, Algorithm, CompressionMode, Compressor,
    CompressorFactory, DictCompressor, HuffmanCompressor, HybridCompressor, NoCompressor, PerformanceRequirements, RansCompressor,
    RealtimeCompressor, RealtimeConfig, SimdLz77Compressor, SimdLz77CompressorX1, SimdLz77CompressorX2, SimdLz77CompressorX4,
    SimdLz77CompressorX8, SimdLz77Config, ZstdCompressor,
};
use zipora::compression::{get_global_simd_lz77_compressor, CompressionParallelMode, CompressionTier};
use zipora::memory::{SecureMemoryPool, SecurePoolConfig};
use zv::*;

// ---------------------------------------------------------------- payload families

#[derive(Clone)]
struct Payload {
    cls: String,
    data: Vec<u8>,
}

const WORDS: &[&str] = &[
    "the", "quick", "brown", "fox", "jumps", "over", "lazy", "dog", "compression", "dictionary", "suffix", "array", "pattern",
    "match", "literal", "global", "distance", "length", "stream", "block", "record", "value", "index", "key", "store", "blob",
    "memory", "pool", "cache", "line", "and", "of", "to", "in", "is", "that", "for", "with", "as", "on", "at", "by", "from",
    "zipora", "entropy", "huffman", "rans", "frame", "header", "table", "symbol", "frequency", "encode", "decode",
];

fn text(rng: &mut Rng, n: usize) -> Vec<u8> {
    let mut v = Vec::with_capacity(n + 16);
    let mut first = true;
    while v.len() < n {
        let w = *rng.pick(WORDS);
        if first {
            let mut c = w.as_bytes().to_vec();
            c[0] = c[0].to_ascii_uppercase();
            v.extend_from_slice(&c);
            first = false;
        } else {
            v.extend_from_slice(w.as_bytes());
        }
        match rng.below(12) {
            0 => {
                v.extend_from_slice(b". ");
                first = true;
            }
            1 => v.extend_from_slice(b", "),
            2 => v.extend_from_slice(b"\n"),
            _ => v.push(b' '),
        }
    }
    v.truncate(n);
    v
}

/// few symbols, geometric frequencies, with repeated phrases
fn skewed(rng: &mut Rng, n: usize) -> Vec<u8> {
    let mut v = Vec::with_capacity(n);
    while v.len() < n {
        let mut s = 0u8;
        while rng.chance(1, 2) && s < 11 {
            s += 1;
        }
        v.push(b'a' + s);
    }
    v
}

fn periodic(rng: &mut Rng, p: usize, n: usize) -> Vec<u8> {
    let unit = rng.bytes(p);
    (0..n).map(|i| unit[i % p]).collect()
}

/// block, gap of unrelated bytes, the same block again
fn far_repeat(rng: &mut Rng, block: usize, gap: usize) -> Vec<u8> {
    let b = rng.bytes(block);
    let mut v = b.clone();
    v.extend(rng.bytes(gap));
    v.extend_from_slice(&b);
    v
}

/// training corpora, by name
fn corpus(seed: u64, name: &str) -> Vec<u8> {
    let mut r = Rng::new(seed).derive(name);
    match name {
        "text" => text(&mut r, 6000),
        // a dictionary larger than 64 KiB (dictionary positions that need more than 16 bits); starts with the "text" corpus
        "bigtext" => {
            let mut v = corpus(seed, "text");
            v.extend(text(&mut r, 90_000));
            v
        }
        "other" => {
            // unrelated to every text payload: upper-case hex lines
            let mut v = Vec::new();
            while v.len() < 6000 {
                let x = r.next();
                v.extend_from_slice(format!("{:016X};", x).as_bytes());
            }
            v
        }
        "all256" => {
            let mut v: Vec<u8> = (0..=255u8).collect();
            v.extend(r.bytes(4096));
            v
        }
        "skew" => skewed(&mut r, 4096),
        "one" => vec![b'z'; 64],
        _ => vec![],
    }
}

/// payload list; `maxlen` bounds the size for slow subjects, `dict` is the content of the subject's
/// dictionary / training corpus (payloads containing it exercise global matches)
fn payloads(a: &Args, maxlen: usize, dict: &[u8]) -> Vec<Payload> {
    let mut r = Rng::new(a.seed).derive("payloads");
    let mut v: Vec<Payload> = vec![];
    let mut add = |cls: String, data: Vec<u8>| {
        if data.len() <= maxlen {
            v.push(Payload { cls, data });
        }
    };
    add("empty".into(), vec![]);
    for b in [0u8, 0x41, 0xff] {
        add(format!("one:{b}"), vec![b]);
    }
    add("two".into(), vec![7, 7]);
    add("two_distinct".into(), vec![7, 8]);
    for n in [2usize, 3, 33, 34, 35, 63, 64, 65, 255, 256, 257, 1000, 4096, 65536] {
        add(format!("zeros:{n}"), vec![0u8; n]);
    }
    for n in [5usize, 34, 300, 5000, 65536] {
        let s = r.next() as u8 | 1;
        add(format!("run:{n}"), vec![s; n]);
    }
    for p in 1..=40usize {
        let n = if p % 3 == 0 { 1000 } else { p * 7 + 3 };
        add(format!("periodic:{p}:{n}"), periodic(&mut r, p, n));
    }
    for (blk, gap) in [(40usize, 100usize), (300, 700), (33, 258), (34, 65535), (100, 70000), (500, 20000)] {
        add(format!("far:{blk}:{gap}"), far_repeat(&mut r, blk, gap));
    }
    for n in [20usize, 100, 1000, 10000, 65536] {
        add(format!("text:{n}"), text(&mut r, n));
    }
    for n in [2usize, 16, 100, 1000, 4096, 65536] {
        add(format!("random:{n}"), r.bytes(n));
    }
    // around the stored-form thresholds of the FSE layer (32, 100) and the real-time bypass (64)
    for n in [31usize, 32, 33, 99, 100, 101] {
        add(format!("ramp:{n}"), (0..n).map(|i| (i % 251) as u8).collect());
    }
    add("alphabet256".into(), (0..=255u8).collect());
    add("alphabet256x4".into(), (0..1024).map(|i| (i % 256) as u8).collect());
    for n in [100usize, 4096, 65536] {
        add(format!("skew:{n}"), skewed(&mut r, n));
    }
    // highly compressible 64 KiB: a phrase repeated
    add("phrase:65536".into(), b"zipora pa-zip dictionary compression; ".iter().cycle().take(65536).copied().collect());
    // beyond 64 KiB and shrunk by far more than any fixed ratio (output buffers sized from the frame)
    add("zeros:65537".into(), vec![0u8; 65537]);
    add("zeros:262144".into(), vec![0u8; 262144]);
    add("phrase:300000".into(), b"2026-10-02T00:00:00Z INFO zipora blob store: request served in 12us\n".iter().cycle().take(300000).copied().collect());
    if !dict.is_empty() {
        add("dict:whole".into(), dict.to_vec());
        add("dict:prefix".into(), dict[..dict.len().min(100)].to_vec());
        let m = dict.len() / 2;
        add("dict:middle".into(), dict[m..(m + 300).min(dict.len())].to_vec());
        let mut mix = r.bytes(50);
        mix.extend_from_slice(&dict[dict.len() / 3..(dict.len() / 3 + 200).min(dict.len())]);
        mix.extend(r.bytes(50));
        mix.extend_from_slice(&dict[..dict.len().min(64)]);
        add("dict:mixed".into(), mix);
        let tail = &dict[dict.len().saturating_sub(40)..];
        add("dict:tail".into(), tail.to_vec());
    }
    if a.thorough() {
        for n in [1usize << 20, 4 << 20] {
            add(format!("text:{n}"), text(&mut r, n));
            add(format!("random:{n}"), r.bytes(n));
            add(format!("zeros:{n}"), vec![0u8; n]);
            add(format!("periodic:37:{n}"), periodic(&mut r, 37, n));
            add(format!("skew:{n}"), skewed(&mut r, n));
        }
        add("far:1000:1100000".into(), far_repeat(&mut r, 1000, 1_100_000));
        for n in [100_000usize, 300_000] {
            add(format!("text:{n}"), text(&mut r, n));
        }
    }
    v
}

/// subject selection: a pattern selects a subject when it is the subject, its family, or a prefix of it
/// ending at ':' or '@'
fn sel(a: &Args, subject: &str) -> bool {
    match &a.subject {
        None => true,
        Some(s) => s.split(',').any(|p| subject == p || subject.starts_with(&format!("{p}:")) || subject.starts_with(&format!("{p}@")) || subject.starts_with(&format!("{p}-"))),
    }
}

// ---------------------------------------------------------------- run context

const NODIG: fn() -> Value = || json!({"len": 0, "h": [0, 0]});

struct Run<'a> {
    t: &'a mut Tracer,
    next_id: u32,
    /// frames of this run: id -> bytes (what compress returned; fed back to decompress unchanged)
    frames: Vec<(u32, Vec<u8>)>,
    dead: bool,
    // counters for the summary
    comp_ok: u64,
    comp_refused: u64,
    dec_ok: u64,
    dec_refused: u64,
    panics: u64,
    algos: Map<String, Value>,
    kinds: [u64; 8],
    max_len: usize,
    fine: String,
    /// distinct (operation variant, algorithm logged, payload class) of frames that existed
    cases: std::collections::HashSet<String>,
}

impl<'a> Run<'a> {
    fn new(t: &'a mut Tracer, subject: &str, fam: &str, variant: &str, train: &str, cfg: Value) -> Run<'a> {
        let mut c = json!({"fam": fam, "variant": variant, "train": train});
        if let (Some(o), Some(x)) = (c.as_object_mut(), cfg.as_object()) {
            for (k, v) in x {
                o.insert(k.clone(), v.clone());
            }
        }
        t.reset("compressor", subject, c);
        Run {
            t,
            next_id: 0,
            frames: vec![],
            dead: false,
            comp_ok: 0,
            comp_refused: 0,
            dec_ok: 0,
            dec_refused: 0,
            panics: 0,
            algos: Map::new(),
            kinds: [0; 8],
            max_len: 0,
            fine: format!("{fam}:{variant}@{train}"),
            cases: Default::default(),
        }
    }
    fn ev(&mut self, e: Value) {
        self.t.ev(e);
        self.t.flush();
    }
    fn create(&mut self, ok: bool, err: &str) {
        self.ev(json!({"op":"create","ok":ok,"err":err}));
    }
    fn panic(&mut self, inop: &str, id: u32, cls: &str, msg: String) {
        self.panics += 1;
        self.dead = true;
        let mut m = msg;
        m.truncate(200);
        self.ev(json!({"op":"panic","in":inop,"id":id,"cls":cls,"msg":m}));
    }
    /// log one compress call.  `res`: Ok(frame) | Err(message) as returned by the code under test
    fn compressed(&mut self, via: &str, p: &Payload, res: Result<Result<Vec<u8>, String>, String>, extra: Value) -> Option<u32> {
        let id = self.next_id;
        self.next_id += 1;
        match res {
            Err(msg) => {
                self.panic("compress", id, &p.cls, msg);
                None
            }
            Ok(r) => {
                let mut e = json!({"op":"compress","via":via,"id":id,"cls":p.cls,"x":digest(&p.data)});
                let ret = match r {
                    Ok(f) => {
                        e["ok"] = json!(true);
                        e["frame"] = digest(&f);
                        e["tag"] = opt(f.first().map(|&b| b as u64));
                        e["err"] = json!("");
                        self.comp_ok += 1;
                        self.cases.insert(format!("{via}|{}|{}", extra["algo"].as_str().unwrap_or(""), p.cls));
                        self.max_len = self.max_len.max(p.data.len());
                        self.frames.push((id, f));
                        Some(id)
                    }
                    Err(m) => {
                        e["ok"] = json!(false);
                        e["frame"] = NODIG();
                        e["tag"] = json!([]);
                        let mut m = m;
                        m.truncate(160);
                        e["err"] = json!(m);
                        self.comp_refused += 1;
                        None
                    }
                };
                if let (Some(o), Some(x)) = (e.as_object_mut(), extra.as_object()) {
                    for (k, v) in x {
                        if k == "algo" {
                            if let Some(s) = v.as_str() {
                                let c = self.algos.get(s).and_then(|c| c.as_u64()).unwrap_or(0);
                                self.algos.insert(s.to_string(), json!(c + 1));
                            }
                        }
                        if k == "kinds" {
                            if let Some(arr) = v.as_array() {
                                for (i, c) in arr.iter().enumerate().take(8) {
                                    self.kinds[i] += c.as_u64().unwrap_or(0);
                                }
                            }
                        }
                        o.insert(k.clone(), v.clone());
                    }
                }
                self.ev(e);
                ret
            }
        }
    }
    fn frame(&self, id: u32) -> Vec<u8> {
        self.frames.iter().find(|(i, _)| *i == id).map(|(_, f)| f.clone()).unwrap_or_default()
    }
    fn decompressed(&mut self, via: &str, id: u32, cls: &str, res: Result<Result<Vec<u8>, String>, String>) {
        let f = self.frame(id);
        match res {
            Err(msg) => self.panic("decompress", id, cls, msg),
            Ok(Ok(y)) => {
                self.dec_ok += 1;
                self.ev(json!({"op":"decompress","via":via,"id":id,"cls":cls,"frame":digest(&f),"ok":true,"y":digest(&y),"err":""}));
            }
            Ok(Err(m)) => {
                self.dec_refused += 1;
                let mut m = m;
                m.truncate(160);
                self.ev(json!({"op":"decompress","via":via,"id":id,"cls":cls,"frame":digest(&f),"ok":false,"y":NODIG(),"err":m}));
            }
        }
    }
    fn summary(&self) -> Value {
        json!({"compress_ok": self.comp_ok, "compress_refused": self.comp_refused, "decompress_ok": self.dec_ok,
               "decompress_refused": self.dec_refused, "panics": self.panics, "algos": self.algos, "kinds": self.kinds,
               "max_payload": self.max_len, "fine": self.fine, "distinct": self.cases.len()})
    }
}

fn es<T>(r: zipora::error::Result<T>) -> Result<T, String> {
    r.map_err(|e| e.to_string())
}

/// accumulate per-subject summaries
struct Acc {
    subjects: Map<String, Value>,
}
impl Acc {
    fn add(&mut self, subject: &str, s: Value) {
        let cur = self.subjects.entry(subject.to_string()).or_insert_with(|| json!({"runs": 0}));
        cur["runs"] = json!(cur["runs"].as_u64().unwrap_or(0) + 1);
        for k in ["compress_ok", "compress_refused", "decompress_ok", "decompress_refused", "panics", "distinct"] {
            cur[k] = json!(cur[k].as_u64().unwrap_or(0) + s[k].as_u64().unwrap_or(0));
        }
        cur["max_payload"] = json!(cur["max_payload"].as_u64().unwrap_or(0).max(s["max_payload"].as_u64().unwrap_or(0)));
        let mut al = cur["algos"].as_object().cloned().unwrap_or_default();
        if let Some(o) = s["algos"].as_object() {
            for (k, v) in o {
                let c = al.get(k).and_then(|c| c.as_u64()).unwrap_or(0);
                al.insert(k.clone(), json!(c + v.as_u64().unwrap_or(0)));
            }
        }
        cur["algos"] = Value::Object(al);
        let mut kd = [0u64; 8];
        for i in 0..8 {
            kd[i] = cur["kinds"][i].as_u64().unwrap_or(0) + s["kinds"][i].as_u64().unwrap_or(0);
        }
        cur["kinds"] = json!(kd);
        let mut vs: Vec<Value> = cur["variants"].as_array().cloned().unwrap_or_default();
        if !vs.contains(&s["fine"]) {
            vs.push(s["fine"].clone());
        }
        cur["variants"] = json!(vs);
    }
}

// ---------------------------------------------------------------- family: Compressor trait objects

fn algs() -> Vec<(&'static str, Algorithm)> {
    vec![
        ("none", Algorithm::None),
        ("lz4", Algorithm::Lz4),
        ("zstd1", Algorithm::Zstd(1)),
        ("zstd3", Algorithm::Zstd(3)),
        ("zstd6", Algorithm::Zstd(6)),
        ("zstd9", Algorithm::Zstd(9)),
        ("zstd19", Algorithm::Zstd(19)),
        ("zstdneg", Algorithm::Zstd(-3)),
        ("zstd0", Algorithm::Zstd(0)),
        ("zstd22", Algorithm::Zstd(22)),
        ("zstdmax", Algorithm::Zstd(i32::MAX)),
        ("zstdmin", Algorithm::Zstd(i32::MIN)),
        ("huffman", Algorithm::Huffman),
        ("rans", Algorithm::Rans),
        ("dictionary", Algorithm::Dictionary),
        ("simdlz77", Algorithm::SimdLz77),
        ("hybrid", Algorithm::Hybrid),
    ]
}
fn trained(name: &str) -> bool {
    matches!(name, "huffman" | "rans" | "dictionary" | "hybrid")
}

fn make_trait(fam: &str, variant: &str, training: Option<&[u8]>) -> Result<Box<dyn Compressor>, String> {
    if fam == "factory" {
        let alg = algs().into_iter().find(|(n, _)| *n == variant).map(|(_, a)| a).ok_or("unknown algorithm")?;
        return es(CompressorFactory::create(alg, training));
    }
    // direct constructors
    let tr = training.unwrap_or(&[]);
    Ok(match variant {
        "none" => Box::new(NoCompressor),
        "zstd3" => Box::new(ZstdCompressor::new(3)),
        "zstd22" => Box::new(ZstdCompressor::new(22)),
        "huffman" => Box::new(es(HuffmanCompressor::new(tr))?),
        "rans" => Box::new(es(RansCompressor::new(tr))?),
        "dictionary" => Box::new(es(DictCompressor::new(tr))?),
        "hybrid" => Box::new(es(HybridCompressor::new(tr))?),
        "simdlz77" => Box::new(es(SimdLz77Compressor::new())?),
        _ => return Err("unknown direct variant".into()),
    })
}

fn trait_roundtrip(run: &mut Run, c: &dyn Compressor, p: &Payload) {
    let algo = format!("{:?}", c.algorithm());
    let r = guard(|| es(c.compress(&p.data)));
    let id = run.compressed("trait", p, r, json!({"algo": algo}));
    if let Some(id) = id {
        let f = run.frame(id);
        let r = guard(|| es(c.decompress(&f)));
        run.decompressed("trait", id, &p.cls, r);
    }
}

fn drive_trait(a: &Args, t: &mut Tracer, acc: &mut Acc, fam: &str) {
    let variants: Vec<&str> = if fam == "factory" {
        algs().into_iter().map(|(n, _)| n).collect()
    } else {
        vec!["none", "zstd3", "zstd22", "huffman", "rans", "dictionary", "hybrid", "simdlz77"]
    };
    for variant in variants {
        let trains: Vec<&str> = if trained(variant) { vec!["text", "all256", "skew", "one", "other"] } else { vec!["none"] };
        for train in trains {
            // subject = family:variant; the training corpus is an attribute of the run
            let subject = format!("{fam}:{variant}");
            if !sel(a, &format!("{subject}@{train}")) {
                continue;
            }
            let tr = corpus(a.seed, train);
            // entropy::dictionary::DictionaryCompressor::compress compares every position with the whole 32 KiB window
            // (2-3 s per 64 KiB of incompressible data): the two families that contain it get the large payloads for one
            // training corpus only
            let slow = matches!(variant, "dictionary" | "hybrid");
            let maxlen = match (slow, a.thorough()) {
                (false, true) => 4 << 20,
                (false, false) => 300_000,
                (true, true) => if train == "text" { 262144 } else { 65536 },
                // (the direct constructors run the same code as the factory: small payloads only in the quick tier)
                (true, false) => if train == "text" && fam == "factory" { 65536 } else { 8192 },
            };
            let ps = payloads(a, maxlen, &tr);
            let mut run = Run::new(t, &subject, fam, variant, train, json!({}));
            let c = guard(|| make_trait(fam, variant, if train == "none" { None } else { Some(&tr[..]) }));
            match c {
                Err(m) => run.panic("create", 0, "", m),
                Ok(Err(m)) => run.create(false, &m),
                Ok(Ok(c)) => {
                    run.create(true, "");
                    for p in &ps {
                        trait_roundtrip(&mut run, c.as_ref(), p);
                        if run.dead {
                            std::mem::forget(c);
                            break;
                        }
                    }
                }
            }
            let s = run.summary();
            acc.add(&subject, s);
        }
        // trained on the payload itself: one compressor per payload (what AdaptiveCompressor::train does)
        if trained(variant) {
            let subject = format!("{fam}:{variant}");
            if !sel(a, &format!("{subject}@self")) {
                continue;
            }
            // entropy::dictionary::DictionaryBuilder::build is cubic on runs (every earlier position is compared for up to
            // 258 bytes): training on large repetitive payloads is bounded for the two families that contain it
            let slow = matches!(variant, "dictionary" | "hybrid");
            let maxlen = if slow { if a.thorough() { 4096 } else { 1000 } } else if a.thorough() { 1 << 20 } else { 65536 };
            for p in payloads(a, maxlen, &[]) {
                let mut run = Run::new(t, &subject, fam, variant, "self", json!({"cls": p.cls}));
                let c = guard(|| make_trait(fam, variant, Some(&p.data[..])));
                match c {
                    Err(m) => run.panic("create", 0, &p.cls, m),
                    Ok(Err(m)) => run.create(false, &m),
                    Ok(Ok(c)) => {
                        run.create(true, "");
                        trait_roundtrip(&mut run, c.as_ref(), &p);
                        if run.dead {
                            std::mem::forget(c);
                        }
                    }
                }
                let s = run.summary();
                acc.add(&subject, s);
            }
        }
    }
}

// ---------------------------------------------------------------- family: CompressorFactory::select_best

/// the selector's decision space: requirements x payload; the algorithm it names is created through the
/// factory (trained on the payload, as AdaptiveCompressor::train does) and must round-trip the payload
fn drive_selector(a: &Args, t: &mut Tracer, acc: &mut Acc) {
    let reqs: Vec<(&str, PerformanceRequirements)> = vec![
        ("balanced", PerformanceRequirements::default()),
        ("speed", PerformanceRequirements { speed_vs_quality: 0.0, ..Default::default() }),
        ("quality", PerformanceRequirements { speed_vs_quality: 1.0, max_latency: Duration::from_secs(60), max_memory: usize::MAX / 4, ..Default::default() }),
        ("tiny_memory", PerformanceRequirements { max_memory: 1024, speed_vs_quality: 1.0, ..Default::default() }),
        ("tiny_latency", PerformanceRequirements { max_latency: Duration::from_nanos(100), speed_vs_quality: 1.0, ..Default::default() }),
    ];
    let maxlen = if a.thorough() { 4 << 20 } else { 300_000 };
    let ps = payloads(a, maxlen, &[]);
    // every algorithm the factory advertises can be created (trained on a text corpus) and round-trips
    if sel(a, "selector:select_best-available") {
        let tx = corpus(a.seed, "text");
        let few: Vec<&Payload> = ps.iter().filter(|p| ["empty", "one:65", "zeros:64", "text:1000", "random:100", "phrase:65536"].contains(&p.cls.as_str())).collect();
        let mut run = Run::new(t, "selector:select_best", "selector", "available", "text", json!({}));
        run.create(true, "");
        match guard(CompressorFactory::available_algorithms) {
            Err(m) => run.panic("available_algorithms", 0, "", m),
            Ok(algs) => {
                run.ev(json!({"op":"info","what":"available_algorithms","algs": algs.iter().map(|a| format!("{a:?}")).collect::<Vec<_>>()}));
                'outer: for alg in algs {
                    let algo = format!("{alg:?}");
                    match guard(|| es(CompressorFactory::create(alg, Some(&tx[..])))) {
                        Err(m) => {
                            run.panic("create", 0, "", m);
                            break;
                        }
                        Ok(Err(m)) => run.ev(json!({"op":"info","what":"create_refused","algo":algo,"err":m})),
                        Ok(Ok(c)) => {
                            for p in &few {
                                let r = guard(|| es(c.compress(&p.data)));
                                if let Some(id) = run.compressed("available", p, r, json!({"algo": algo})) {
                                    let f = run.frame(id);
                                    let r = guard(|| es(c.decompress(&f)));
                                    run.decompressed("available", id, &p.cls, r);
                                }
                                if run.dead {
                                    std::mem::forget(c);
                                    break 'outer;
                                }
                            }
                        }
                    }
                }
            }
        }
        acc.add("selector:select_best", run.summary());
    }
    for (rn, req) in &reqs {
        let subject = "selector:select_best".to_string();
        if !sel(a, &format!("selector:select_best-{rn}")) {
            continue;
        }
        let mut run = Run::new(t, &subject, "selector", rn, "self", json!({}));
        run.create(true, "");
        for p in &ps {
            let alg = match guard(|| CompressorFactory::select_best(req, &p.data)) {
                Ok(alg) => alg,
                Err(m) => {
                    run.panic("select_best", 0, &p.cls, m);
                    break;
                }
            };
            let algo = format!("{alg:?}");
            // training the dictionary member of Hybrid on a large repetitive payload is cubic (see drive_trait)
            if alg == Algorithm::Hybrid && p.data.len() > if a.thorough() { 4096 } else { 1000 } {
                continue;
            }
            match guard(|| es(CompressorFactory::create(alg, Some(&p.data[..])))) {
                Err(m) => {
                    run.panic("create", 0, &p.cls, m);
                    break;
                }
                Ok(Err(m)) => {
                    run.compressed("selected", p, Ok(Err(m)), json!({"algo": algo}));
                }
                Ok(Ok(c)) => {
                    let r = guard(|| es(c.compress(&p.data)));
                    if let Some(id) = run.compressed("selected", p, r, json!({"algo": algo})) {
                        let f = run.frame(id);
                        let r = guard(|| es(c.decompress(&f)));
                        run.decompressed("selected", id, &p.cls, r);
                    }
                    if run.dead {
                        std::mem::forget(c);
                        break;
                    }
                }
            }
        }
        acc.add(&subject, run.summary());
    }
}

// ---------------------------------------------------------------- family: AdaptiveCompressor

fn drive_adaptive(a: &Args, t: &mut Tracer, acc: &mut Acc) {
    let cfgs: Vec<(&str, AdaptiveConfig)> = vec![
        ("default", AdaptiveConfig::default()),
        (
            "eager",
            AdaptiveConfig {
                learning_window: 8,
                min_operations: 2,
                evaluation_interval: 2,
                switch_threshold: 0.0,
                aggressive_learning: true,
                test_sample_size: 2,
            },
        ),
    ];
    let reqs: Vec<(&str, PerformanceRequirements)> = vec![
        ("balanced", PerformanceRequirements::default()),
        ("speed", PerformanceRequirements { speed_vs_quality: 0.0, ..Default::default() }),
        ("quality", PerformanceRequirements { speed_vs_quality: 1.0, max_latency: Duration::from_secs(10), ..Default::default() }),
    ];
    // every AdaptiveConfig field at its two extremes (one run each, a short scenario): "zero" = all minima,
    // "huge" = all maxima, "eval0" = evaluation_interval 0 alone, "dwr" = default_with_requirements
    if sel(a, "adaptive:extremes") {
        let ps = payloads(a, 70_000, &[]);
        let few: Vec<&Payload> = ps.iter().filter(|p| ["one:65", "zeros:64", "text:1000", "random:100", "random:65536", "phrase:65536"].contains(&p.cls.as_str())).collect();
        let zero = AdaptiveConfig { learning_window: 0, min_operations: 0, evaluation_interval: 1, switch_threshold: -1.0, aggressive_learning: true, test_sample_size: 0 };
        let huge = AdaptiveConfig { learning_window: usize::MAX, min_operations: usize::MAX, evaluation_interval: usize::MAX, switch_threshold: f64::MAX, aggressive_learning: false, test_sample_size: usize::MAX };
        let eval0 = AdaptiveConfig { evaluation_interval: 0, min_operations: 0, ..Default::default() };
        let extreme_req = PerformanceRequirements { max_latency: Duration::ZERO, min_throughput: u64::MAX, max_memory: 0, target_ratio: 0.0, speed_vs_quality: 1.0 };
        for (vn, cfg) in [("zero", Some(zero)), ("huge", Some(huge)), ("eval0", Some(eval0)), ("dwr", None)] {
            let variant = format!("extremes-{vn}");
            let mut run = Run::new(t, "adaptive:extremes", "adaptive", &variant, "none", json!({}));
            let made = guard(|| {
                es(match &cfg {
                    Some(c) => AdaptiveCompressor::new(c.clone(), if vn == "zero" { extreme_req.clone() } else { PerformanceRequirements::default() }),
                    None => AdaptiveCompressor::default_with_requirements(extreme_req.clone()),
                })
            });
            match made {
                Err(m) => run.panic("create", 0, "", m),
                Ok(Err(m)) => run.create(false, &m),
                Ok(Ok(mut c)) => {
                    run.create(true, "");
                    'alg: for alg in [Algorithm::Zstd(3), Algorithm::None, Algorithm::Zstd(9)] {
                        match guard(|| es(c.set_algorithm(alg))) {
                            Err(m) => {
                                run.panic("switch", 0, "", m);
                                break;
                            }
                            Ok(r) => run.ev(json!({"op":"switch","to":format!("{alg:?}"),"ok":r.is_ok()})),
                        }
                        // twice over the payloads: the operation counter passes every evaluation point
                        for _ in 0..2 {
                            for p in &few {
                                let algo = format!("{:?}", c.current_algorithm());
                                // "dwr" goes through the Compressor trait implementation of AdaptiveCompressor
                                let r = guard(|| es(if vn == "dwr" { <AdaptiveCompressor as Compressor>::compress(&c, &p.data) } else { c.compress(&p.data) }));
                                if let Some(id) = run.compressed("extreme", p, r, json!({"algo": algo})) {
                                    let f = run.frame(id);
                                    let r = guard(|| es(if vn == "dwr" { <AdaptiveCompressor as Compressor>::decompress(&c, &f) } else { c.decompress(&f) }));
                                    run.decompressed("extreme", id, &p.cls, r);
                                }
                                if run.dead {
                                    break 'alg;
                                }
                            }
                        }
                    }
                    if run.dead {
                        std::mem::forget(c);
                    }
                }
            }
            acc.add("adaptive:extremes", run.summary());
        }
    }
    let maxlen = if a.thorough() { 4 << 20 } else { 300_000 };
    let mut all = payloads(a, maxlen, &corpus(a.seed, "text"));
    // the empty payload gets a run of its own (scenario "empty") so that what it does to the object is isolated
    let empty = all.remove(all.iter().position(|p| p.cls == "empty").expect("empty payload"));
    // a smaller set for the many switch phases
    let few: Vec<Payload> = all
        .iter()
        .filter(|p| ["one:65", "zeros:64", "periodic:7:52", "text:1000", "random:100", "random:65536", "phrase:65536"].contains(&p.cls.as_str()))
        .cloned()
        .collect();
    for (cn, cfg) in &cfgs {
        for (rn, req) in &reqs {
            let variant = format!("{cn}-{rn}");
            let subject = format!("adaptive:{cn}");
            if !sel(a, &format!("adaptive:{variant}")) {
                continue;
            }
            let mut run = Run::new(t, &subject, "adaptive", &variant, "none", json!({}));
            let c = guard(|| es(AdaptiveCompressor::new(cfg.clone(), req.clone())));
            let mut c = match c {
                Err(m) => {
                    run.panic("create", 0, "", m);
                    acc.add(&subject, run.summary());
                    continue;
                }
                Ok(Err(m)) => {
                    run.create(false, &m);
                    acc.add(&subject, run.summary());
                    continue;
                }
                Ok(Ok(c)) => c,
            };
            run.create(true, "");
            let rt = |run: &mut Run, c: &AdaptiveCompressor, p: &Payload, phase: &str| {
                let algo = format!("{:?}", c.current_algorithm());
                let r = guard(|| es(c.compress(&p.data)));
                if let Some(id) = run.compressed(phase, p, r, json!({"algo": algo})) {
                    let f = run.frame(id);
                    let r = guard(|| es(c.decompress(&f)));
                    run.decompressed(phase, id, &p.cls, r);
                }
            };
            // phase 1: before train (the initial algorithm)
            for p in &few {
                rt(&mut run, &c, p, "initial");
                if run.dead {
                    break;
                }
            }
            // phase 2: train, old frames must still decode, then again
            if !run.dead {
                let tx = corpus(a.seed, "text");
                let rnd = Rng::new(a.seed).derive("adaptive-train").bytes(2000);
                let zeros = vec![0u8; 600];
                let samples: Vec<(&[u8], &str)> = vec![(&tx[..], "text"), (&rnd[..], "binary"), (&zeros[..], "zeros")];
                match guard(|| es(c.train(&samples))) {
                    Err(m) => run.panic("train", 0, "", m),
                    Ok(r) => {
                        let profiles: Vec<Value> = c
                            .profiles()
                            .iter()
                            .map(|(k, p)| json!({"type": k, "preferred": format!("{:?}", p.preferred_algorithm)}))
                            .collect();
                        run.ev(json!({"op":"train","ok":r.is_ok(),"profiles":profiles}));
                    }
                }
            }
            if !run.dead {
                let olds: Vec<u32> = run.frames.iter().map(|(i, _)| *i).collect();
                for id in olds {
                    let f = run.frame(id);
                    let r = guard(|| es(c.decompress(&f)));
                    run.decompressed("after_train", id, "", r);
                    if run.dead {
                        break;
                    }
                }
            }
            if !run.dead {
                for p in &few {
                    rt(&mut run, &c, p, "trained");
                    if run.dead {
                        break;
                    }
                }
            }
            // phase 3: every algorithm through set_algorithm (incl. the preferred algorithm of every profile)
            let mut targets: Vec<Algorithm> = algs().into_iter().map(|(_, a)| a).collect();
            for (_, p) in c.profiles() {
                targets.push(p.preferred_algorithm);
            }
            for alg in targets {
                if run.dead {
                    break;
                }
                let r = guard(|| es(c.set_algorithm(alg)));
                match r {
                    Err(m) => {
                        run.panic("switch", 0, "", m);
                        break;
                    }
                    Ok(r) => run.ev(json!({"op":"switch","to":format!("{alg:?}"),"ok":r.is_ok()})),
                }
                // a frame produced before the switch: may be refused, must not come back as other data
                if let Some((id, _)) = run.frames.iter().rev().find(|(_, f)| f.len() > 8).cloned() {
                    let f = run.frame(id);
                    let r = guard(|| es(c.decompress(&f)));
                    run.decompressed("stale", id, "", r);
                }
                let set = if matches!(alg, Algorithm::Zstd(3) | Algorithm::None | Algorithm::SimdLz77) { &all } else { &few };
                for p in set.iter() {
                    if run.dead {
                        break;
                    }
                    rt(&mut run, &c, p, "switched");
                }
            }
            if run.dead {
                std::mem::forget(c);
            }
            acc.add(&subject, run.summary());
            // ---- scenario "empty": the empty payload under every algorithm that can be set
            let mut run = Run::new(t, &subject, "adaptive", &variant, "none", json!({"scenario": "empty"}));
            match guard(|| es(AdaptiveCompressor::new(cfg.clone(), req.clone()))) {
                Err(m) => run.panic("create", 0, "", m),
                Ok(Err(m)) => run.create(false, &m),
                Ok(Ok(mut c)) => {
                    run.create(true, "");
                    for alg in [Algorithm::Zstd(3), Algorithm::None, Algorithm::SimdLz77] {
                        match guard(|| es(c.set_algorithm(alg))) {
                            Err(m) => {
                                run.panic("switch", 0, "", m);
                                break;
                            }
                            Ok(r) => run.ev(json!({"op":"switch","to":format!("{alg:?}"),"ok":r.is_ok()})),
                        }
                        rt(&mut run, &c, &empty, "switched");
                        if run.dead {
                            break;
                        }
                    }
                    if run.dead {
                        std::mem::forget(c);
                    }
                }
            }
            acc.add(&subject, run.summary());
        }
    }
}

// ---------------------------------------------------------------- family: RealtimeCompressor

fn modes() -> Vec<(&'static str, CompressionMode)> {
    vec![
        ("ultra", CompressionMode::UltraLowLatency),
        ("low", CompressionMode::LowLatency),
        ("balanced", CompressionMode::Balanced),
        ("high", CompressionMode::HighCompression),
    ]
}

fn drive_realtime(a: &Args, t: &mut Tracer, acc: &mut Acc) {
    let rt = tokio::runtime::Builder::new_current_thread().enable_all().build().expect("tokio runtime");
    let maxlen = if a.thorough() { 4 << 20 } else { 300_000 };
    let all = payloads(a, maxlen, &[]);
    let few: Vec<Payload> = all
        .iter()
        .filter(|p| ["empty", "one:65", "zeros:63", "zeros:64", "periodic:7:52", "text:1000", "random:100", "random:65536"].contains(&p.cls.as_str()))
        .cloned()
        .collect();
    for (mn, mode) in modes() {
        for preset in ["with_mode", "nofallback", "conc1", "builder", "builder_off", "conc64"] {
            let variant = format!("{mn}-{preset}");
            let subject = format!("realtime:{mn}");
            if !sel(a, &format!("realtime:{variant}")) {
                continue;
            }
            let mut run = Run::new(t, &subject, "realtime", &variant, "none", json!({"mode": mn, "preset": preset}));
            let made = guard(|| {
                es(match preset {
                    "with_mode" => RealtimeCompressor::with_mode(mode),
                    "nofallback" => RealtimeCompressor::new(RealtimeConfig { mode, fallback_on_timeout: false, ..Default::default() }),
                    "conc1" => RealtimeCompressor::new(RealtimeConfig { mode, max_concurrent: 1, enable_deadlines: false, ..Default::default() }),
                    "conc64" => RealtimeCompressor::new(RealtimeConfig {
                        mode,
                        max_concurrent: 64,
                        enable_deadlines: true,
                        fallback_on_timeout: true,
                        batch_size: 0,
                        batch_timeout: Duration::ZERO,
                    }),
                    "builder_off" => zipora::compression::realtime::RealtimeCompressorBuilder::new()
                        .mode(mode)
                        .max_concurrent(1)
                        .enable_deadlines(false)
                        .fallback_on_timeout(false)
                        .batch_size(usize::MAX)
                        .build(),
                    _ => zipora::compression::realtime::RealtimeCompressorBuilder::new().mode(mode).max_concurrent(2).batch_size(4).build(),
                })
            });
            let c = match made {
                Err(m) => {
                    run.panic("create", 0, "", m);
                    acc.add(&subject, run.summary());
                    continue;
                }
                Ok(Err(m)) => {
                    run.create(false, &m);
                    acc.add(&subject, run.summary());
                    continue;
                }
                Ok(Ok(c)) => c,
            };
            run.create(true, "");
            let algo_of = |m: CompressionMode| format!("{:?}", m.preferred_algorithm());
            let mut cur = mode;
            let mut phase = "initial";
            let mut others: Vec<(&str, CompressionMode)> = modes().into_iter().filter(|(_, m)| *m != mode).collect();
            others.push((mn, mode));
            let mut step = 0;
            loop {
                let set = if phase == "initial" { &all } else { &few };
                for p in set.iter() {
                    if run.dead {
                        break;
                    }
                    // (1) mode deadline
                    let fb0 = c.stats().fallback_operations;
                    let r = guard(|| es(rt.block_on(c.compress(&p.data))));
                    let fb = c.stats().fallback_operations > fb0;
                    if let Some(id) = run.compressed("compress", p, r, json!({"algo": algo_of(cur), "fellback": fb, "phase": phase})) {
                        let f = run.frame(id);
                        let r = guard(|| es(rt.block_on(c.decompress(&f))));
                        run.decompressed("compress", id, &p.cls, r);
                    }
                    if run.dead {
                        break;
                    }
                    // (2) a deadline that has already passed: the documented no-compression fallback
                    if phase == "initial" || p.data.len() <= 1000 {
                        let fb0 = c.stats().fallback_operations;
                        let r = guard(|| es(rt.block_on(c.compress_with_deadline(&p.data, Instant::now()))));
                        let fb = c.stats().fallback_operations > fb0;
                        if let Some(id) = run.compressed("deadline_expired", p, r, json!({"algo": algo_of(cur), "fellback": fb, "phase": phase})) {
                            let f = run.frame(id);
                            let r = guard(|| es(rt.block_on(c.decompress(&f))));
                            run.decompressed("deadline_expired", id, &p.cls, r);
                        }
                    }
                }
                // (3) batch
                if !run.dead {
                    let items: Vec<&[u8]> = few.iter().map(|p| &p.data[..]).collect();
                    let fb0 = c.stats().fallback_operations;
                    match guard(|| es(rt.block_on(c.compress_batch(items)))) {
                        Err(m) => run.panic("compress_batch", 0, "", m),
                        Ok(Err(m)) => run.ev(json!({"op":"batch","ok":false,"n":0,"err":m})),
                        Ok(Ok(fs)) => {
                            let fb = c.stats().fallback_operations > fb0;
                            run.ev(json!({"op":"batch","ok":true,"n":fs.len(),"err":""}));
                            for (i, f) in fs.into_iter().enumerate() {
                                let p = &few[i];
                                if let Some(id) = run.compressed("batch", p, Ok(Ok(f)), json!({"algo": algo_of(cur), "fellback": fb, "phase": phase})) {
                                    let f = run.frame(id);
                                    let r = guard(|| es(rt.block_on(c.decompress(&f))));
                                    run.decompressed("batch", id, &p.cls, r);
                                }
                                if run.dead {
                                    break;
                                }
                            }
                        }
                    }
                }
                if run.dead || step >= others.len() {
                    break;
                }
                // switch the mode; a frame of the previous mode may be refused but must not decode to other data
                let (on, om) = others[step];
                step += 1;
                match guard(|| es(c.set_mode(om))) {
                    Err(m) => {
                        run.panic("switch", 0, "", m);
                        break;
                    }
                    Ok(r) => {
                        run.ev(json!({"op":"switch","to":on,"ok":r.is_ok()}));
                        if r.is_ok() {
                            cur = om;
                        }
                    }
                }
                if let Some((id, _)) = run.frames.iter().rev().find(|(_, f)| f.len() > 8).cloned() {
                    let f = run.frame(id);
                    let r = guard(|| es(rt.block_on(c.decompress(&f))));
                    run.decompressed("stale", id, "", r);
                }
                phase = "switched";
            }
            if run.dead {
                std::mem::forget(c);
            }
            acc.add(&subject, run.summary());
        }
    }
}

// ---------------------------------------------------------------- family: SimdLz77Compressor (inherent API)

enum Lz {
    Base(SimdLz77Compressor),
    X1(SimdLz77CompressorX1),
    X2(SimdLz77CompressorX2),
    X4(SimdLz77CompressorX4),
    X8(SimdLz77CompressorX8),
    Global,
    /// compress_with_dictionary of a compressor configured with a dictionary
    WithDict(SimdLz77Compressor),
    /// the global instance used through its mutex (get_global_simd_lz77_compressor)
    GlobalLock,
}
impl Lz {
    fn compress(&mut self, x: &[u8]) -> Result<Vec<u8>, String> {
        es(match self {
            Lz::Base(c) => SimdLz77Compressor::compress(c, x),
            Lz::X1(c) => c.compress(x),
            Lz::X2(c) => c.compress(x),
            Lz::X4(c) => c.compress(x),
            Lz::X8(c) => c.compress(x),
            Lz::Global => compress_with_simd_lz77(x),
            Lz::WithDict(c) => c.compress_with_dictionary(x),
            Lz::GlobalLock => match get_global_simd_lz77_compressor().lock() {
                Ok(mut g) => SimdLz77Compressor::compress(&mut g, x),
                Err(_) => return Err("global lock poisoned".into()),
            },
        })
    }
    fn decompress(&mut self, f: &[u8]) -> Result<Vec<u8>, String> {
        es(match self {
            Lz::Base(c) => SimdLz77Compressor::decompress(c, f),
            Lz::X1(c) => c.decompress(f),
            Lz::X2(c) => c.decompress(f),
            Lz::X4(c) => c.decompress(f),
            Lz::X8(c) => c.decompress(f),
            Lz::Global => decompress_with_simd_lz77(f),
            Lz::WithDict(c) => {
                // a maintenance call between the two halves must not matter
                c.reset_stats();
                SimdLz77Compressor::decompress(c, f)
            }
            Lz::GlobalLock => match get_global_simd_lz77_compressor().lock() {
                Ok(mut g) => SimdLz77Compressor::decompress(&mut g, f),
                Err(_) => return Err("global lock poisoned".into()),
            },
        })
    }
}

fn make_lz(variant: &str, seed: u64) -> Result<Lz, String> {
    Ok(match variant {
        "new" => Lz::Base(es(SimdLz77Compressor::new())?),
        "high_performance" => Lz::Base(es(SimdLz77Compressor::with_config(SimdLz77Config::high_performance()))?),
        "low_latency" => Lz::Base(es(SimdLz77Compressor::with_config(SimdLz77Config::low_latency()))?),
        "maximum_parallelism" => Lz::Base(es(SimdLz77Compressor::with_config(SimdLz77Config::maximum_parallelism()))?),
        "with_dictionary" => {
            let tx = corpus(seed, "text");
            let d = es(SuffixArrayDictionary::new(&tx, SuffixArrayDictionaryConfig::default()))?;
            Lz::Base(es(SimdLz77Compressor::with_config(SimdLz77Config::with_dictionary(Arc::new(d), Arc::new(tx))))?)
        }
        "x1" => Lz::X1(es(SimdLz77CompressorX1::new())?),
        "x2" => Lz::X2(es(SimdLz77CompressorX2::new())?),
        "x4" => Lz::X4(es(SimdLz77CompressorX4::new())?),
        "x8" => Lz::X8(es(SimdLz77CompressorX8::new())?),
        "global" => Lz::Global,
        "global_lock" => Lz::GlobalLock,
        "compress_with_dictionary" => {
            let tx = corpus(seed, "text");
            let d = es(SuffixArrayDictionary::new(&tx, SuffixArrayDictionaryConfig::default()))?;
            let c = es(SimdLz77Compressor::with_config(SimdLz77Config::with_dictionary(Arc::new(d), Arc::new(tx))))?;
            if !c.has_dictionary() {
                return Err("has_dictionary() = false for a compressor built with_dictionary".into());
            }
            Lz::WithDict(c)
        }
        // every SimdLz77Config field at its other extreme
        "cfg_scalar" => Lz::Base(es(SimdLz77Compressor::with_config(SimdLz77Config {
            enable_simd: false,
            compression_tier: Some(CompressionTier::Scalar),
            parallel_mode: CompressionParallelMode::X8,
            enable_cache_optimization: false,
            enable_prefetch: false,
            enable_bmi2: false,
            enable_early_termination: false,
            dictionary_config: None,
            ..Default::default()
        }))?),
        "cfg_tiny" => Lz::Base(es(SimdLz77Compressor::with_config(SimdLz77Config {
            min_match_length: 2,
            max_match_length: 3,
            search_window_size: 4,
            lookahead_buffer_size: 3,
            max_search_iterations: 1,
            early_termination_efficiency: 0.0,
            ..Default::default()
        }))?),
        "cfg_wide" => Lz::Base(es(SimdLz77Compressor::with_config(SimdLz77Config {
            min_match_length: 34,
            max_match_length: 70_000,
            search_window_size: 1 << 24,
            lookahead_buffer_size: 70_000,
            max_search_iterations: usize::MAX,
            early_termination_efficiency: f64::MAX,
            ..Default::default()
        }))?),
        _ => return Err("unknown variant".into()),
    })
}

fn drive_simdlz77(a: &Args, t: &mut Tracer, acc: &mut Acc) {
    let maxlen = a.get_u64("lzmax", if a.thorough() { 4096 } else { 1000 }) as usize;
    for variant in [
        "new", "high_performance", "low_latency", "maximum_parallelism", "with_dictionary", "x1", "x2", "x4", "x8", "global", "global_lock",
        "compress_with_dictionary", "cfg_scalar", "cfg_tiny", "cfg_wide",
    ] {
        let subject = "simdlz77:inherent".to_string();
        if !sel(a, &format!("simdlz77:inherent-{variant}")) && !sel(a, &format!("simdlz77:{variant}")) {
            continue;
        }
        let ps = payloads(a, maxlen, &corpus(a.seed, "text")[..600]);
        let mut run = Run::new(t, &subject, "simdlz77", variant, "none", json!({}));
        match guard(|| make_lz(variant, a.seed)) {
            Err(m) => run.panic("create", 0, "", m),
            Ok(Err(m)) => run.create(false, &m),
            Ok(Ok(mut c)) => {
                run.create(true, "");
                for p in &ps {
                    let r = guard(|| c.compress(&p.data));
                    if let Some(id) = run.compressed("inherent", p, r, json!({"algo": "SimdLz77"})) {
                        let f = run.frame(id);
                        let r = guard(|| c.decompress(&f));
                        run.decompressed("inherent", id, &p.cls, r);
                    }
                    if run.dead {
                        std::mem::forget(c);
                        break;
                    }
                }
            }
        }
        acc.add(&subject, run.summary());
    }
}

// ---------------------------------------------------------------- family: PaZipCompressor

fn pazip_cfg(preset: &str) -> PaZipCompressorConfig {
    match preset {
        "fast" => PaZipCompressorConfig::fast_compression(),
        "high" => PaZipCompressorConfig::high_compression(),
        "balanced" => PaZipCompressorConfig::balanced(),
        "realtime" => PaZipCompressorConfig::realtime(),
        "reference" => PaZipCompressorConfig::reference_compliant(),
        "reference_hash" => PaZipCompressorConfig { use_suffix_array_local_match: false, ..PaZipCompressorConfig::reference_compliant() },
        // every public field at its smallest / largest admissible value
        "cfgmin" => PaZipCompressorConfig {
            local_config: zipora::compression::dict_zip::LocalMatcherConfig {
                window_size: 1,
                max_probe_distance: 1,
                min_match_length: 1,
                max_match_length: 1,
                hash_table_capacity: 0,
                enable_simd: false,
                max_matches_per_search: 0,
                enable_rle_detection: false,
                min_rle_length: 0,
            },
            max_local_probe_distance: 0,
            max_global_probe_distance: 0,
            min_net_benefit: i32::MIN,
            literal_cost_bits: 1,
            global_access_cost: 0,
            learning_rate: 0.0,
            adaptive_thresholds: false,
            use_reference_encoding: false,
            use_suffix_array_local_match: true,
            enable_simd: false,
            enable_multithreading: true,
            multithreading_threshold: 0,
            output_buffer_size: 0,
            collect_detailed_stats: false,
        },
        "cfgmax" => PaZipCompressorConfig {
            local_config: zipora::compression::dict_zip::LocalMatcherConfig {
                window_size: 16 * 1024 * 1024,
                max_probe_distance: 8,
                min_match_length: 65536,
                max_match_length: 65536,
                hash_table_capacity: 1 << 16,
                enable_simd: true,
                max_matches_per_search: usize::MAX,
                enable_rle_detection: true,
                min_rle_length: usize::MAX,
            },
            max_local_probe_distance: u32::MAX,
            max_global_probe_distance: u32::MAX,
            min_net_benefit: i32::MAX,
            literal_cost_bits: 1 << 20,
            global_access_cost: 1 << 30,
            learning_rate: 1.0,
            adaptive_thresholds: true,
            use_reference_encoding: false,
            use_suffix_array_local_match: false,
            enable_simd: true,
            enable_multithreading: false,
            multithreading_threshold: usize::MAX,
            output_buffer_size: 1 << 20,
            collect_detailed_stats: true,
        },
        _ => PaZipCompressorConfig::default(),
    }
}

/// the dictionary of a PA-Zip subject: `how` = builder | direct | a SuffixArrayDictionaryConfig extreme
fn make_dict(how: &str, training: &[u8]) -> Result<SuffixArrayDictionary, String> {
    let d = SuffixArrayDictionaryConfig::default();
    es(match how {
        "builder" => {
            let dc = DictionaryBuilderConfig { enable_progress: false, ..Default::default() };
            return es(DictionaryBuilder::with_config(dc).build(training));
        }
        "buildermax" => {
            let dc = DictionaryBuilderConfig { enable_progress: false, ..DictionaryBuilderConfig::max_compression() };
            return es(DictionaryBuilder::with_config(dc).build(training));
        }
        "buildermin" => {
            let dc = DictionaryBuilderConfig { enable_progress: false, ..DictionaryBuilderConfig::min_memory() };
            return es(DictionaryBuilder::with_config(dc).build(training));
        }
        "sampled" => SuffixArrayDictionary::new(training, SuffixArrayDictionaryConfig { sample_ratio: 0.1, ..d }),
        "minpat1" => SuffixArrayDictionary::new(training, SuffixArrayDictionaryConfig { min_pattern_length: 1, min_frequency: 1, max_pattern_length: 8, ..d }),
        "external" => SuffixArrayDictionary::new(training, SuffixArrayDictionaryConfig { external_mode: true, use_memory_pool: false, enable_simd: false, max_dict_size: 1, ..d }),
        "bfs0" => SuffixArrayDictionary::new(training, SuffixArrayDictionaryConfig { max_bfs_depth: 0, max_cache_states: 1, min_frequency: u32::MAX, ..d }),
        "bfs12" => SuffixArrayDictionary::new(training, SuffixArrayDictionaryConfig { max_bfs_depth: 12, max_cache_states: 1 << 20, min_frequency: 1, min_pattern_length: 64, max_pattern_length: 65536, ..d }),
        _ => SuffixArrayDictionary::new(training, d),
    })
}

fn make_pazip(preset: &str, how: &str, training: &[u8]) -> Result<(PaZipCompressor, Vec<u8>), String> {
    let dict = make_dict(how, training)?;
    let text = dict.dictionary_text().to_vec();
    let pool = es(SecureMemoryPool::new(SecurePoolConfig::small_secure()))?;
    let c = es(PaZipCompressor::new(dict, pazip_cfg(preset), pool))?;
    Ok((c, text))
}

fn drive_pazip(a: &Args, t: &mut Tracer, acc: &mut Acc) {
    // quick: 100 000 admits the 96 000-byte dictionary of the "bigtext" corpus as a payload (one global match > 65535 bytes)
    let maxlen_all = a.get_u64("pzmax", if a.thorough() { 4 << 20 } else { 100_000 }) as usize;
    for preset in ["default", "fast", "high", "balanced", "realtime", "reference", "reference_hash", "cfgmin", "cfgmax"] {
        let combos: Vec<(&str, &str)> = match preset {
            // the configuration extremes of the dictionary with the default compressor preset
            "default" => vec![
                ("text", "direct"), ("other", "direct"), ("text", "builder"), ("all256", "direct"), ("one", "direct"), ("bigtext", "direct"),
                ("bigtext", "sampled"), ("text", "minpat1"), ("text", "external"), ("text", "bfs0"), ("text", "bfs12"), ("text", "buildermax"),
                ("text", "buildermin"),
            ],
            "cfgmin" | "cfgmax" => vec![("text", "direct"), ("bigtext", "direct"), ("other", "direct")],
            _ => vec![("text", "direct"), ("other", "direct"), ("text", "builder"), ("all256", "direct"), ("one", "direct"), ("bigtext", "direct")],
        };
        for (train, how) in combos {
            let variant = format!("{preset}-{how}");
            let subject = format!("pazip:{preset}");
            if !sel(a, &format!("pazip:{variant}@{train}")) {
                continue;
            }
            // the reference presets search matches by brute force (and are undecodable anyway): small payloads only
            let maxlen = if preset.starts_with("reference") {
                maxlen_all.min(if a.thorough() { 65536 } else { 4096 })
            } else if preset.starts_with("cfg") && !a.thorough() {
                // the configuration extremes need the code paths, not the sizes
                maxlen_all.min(20_000)
            } else {
                maxlen_all
            };
            let tr = corpus(a.seed, train);
            let mut run = Run::new(t, &subject, "pazip", &variant, train, json!({"preset": preset, "dict": how}));
            match guard(|| make_pazip(preset, how, &tr)) {
                Err(m) => run.panic("create", 0, "", m),
                Ok(Err(m)) => run.create(false, &m),
                Ok(Ok((mut c, dtext))) => {
                    run.create(true, "");
                    run.ev(json!({"op":"info","what":"dictionary","text":digest(&dtext),"equals_training":dtext == tr}));
                    // payloads containing the dictionary content use the text of the subject's own "text" corpus, so the
                    // subject trained on the unrelated corpus sees them as foreign data
                    let mut ps = payloads(a, maxlen, &if train == "bigtext" { tr.clone() } else { corpus(a.seed, "text") });
                    if !a.thorough() && train == "text" && how == "direct" && !preset.starts_with("reference") && preset != "cfgmax" {
                        // the block-parallel path (inputs of 1 MiB and more) once per preset in the quick tier
                        let n = 1usize << 20;
                        ps.push(Payload { cls: format!("text:{n}"), data: text(&mut Rng::new(a.seed).derive("pazip-1m"), n) });
                        if preset == "default" {
                            // one byte below the threshold (sequential) and one above (a 1-byte last block)
                            for m in [n - 1, n + 1] {
                                ps.push(Payload { cls: format!("text:{m}"), data: text(&mut Rng::new(a.seed).derive("pazip-1m"), m) });
                            }
                        }
                    }
                    for p in &ps {
                        let mut out = Vec::new();
                        let r = guard(|| es(c.compress(&p.data, &mut out)));
                        let r2 = match r {
                            Err(m) => Err(m),
                            Ok(Err(m)) => Ok(Err(m)),
                            Ok(Ok(st)) => {
                                let k = json!({"algo":"PaZip","kinds": st.compression_type_usage, "literals": st.literal_count,
                                               "locals": st.local_matches, "globals": st.global_matches});
                                if let Some(id) = run.compressed("pazip", p, Ok(Ok(out)), k) {
                                    let f = run.frame(id);
                                    let mut y = Vec::new();
                                    let r = guard(|| es(c.decompress(&f, &mut y)).map(|_| y));
                                    run.decompressed("pazip", id, &p.cls, r);
                                }
                                if run.dead {
                                    break;
                                }
                                continue;
                            }
                        };
                        run.compressed("pazip", p, r2, json!({"algo":"PaZip"}));
                        if run.dead {
                            break;
                        }
                    }
                    // ---- maintenance calls must not change what frames mean; a dictionary that went through
                    // serialize -> deserialize (and save_to_file -> load_from_file) decompresses the same frames
                    if !run.dead && !preset.starts_with("reference") && how == "direct" && (train == "text" || train == "bigtext") {
                        c.reset_stats();
                        let v = c.validate().is_ok();
                        run.ev(json!({"op":"info","what":"reset_stats+validate","valid":v}));
                        let olds: Vec<u32> = run.frames.iter().filter(|(_, f)| f.len() < 70_000).map(|(i, _)| *i).step_by(7).take(14).collect();
                        for id in &olds {
                            let f = run.frame(*id);
                            let mut y = Vec::new();
                            let r = guard(|| es(c.decompress(&f, &mut y)).map(|_| y));
                            run.decompressed("after_reset", *id, "", r);
                            if run.dead {
                                break;
                            }
                        }
                        for via in ["serialize", "file"] {
                            if run.dead {
                                break;
                            }
                            let path = a.out.join(format!("dict-{}-{}-{}.bin", sanitize(preset), train, via));
                            let twin = guard(|| {
                                let d0 = make_dict(how, &tr)?;
                                let d1 = if via == "serialize" {
                                    let bytes = es(d0.serialize())?;
                                    es(SuffixArrayDictionary::deserialize(&bytes))?
                                } else {
                                    es(d0.save_to_file(&path))?;
                                    es(SuffixArrayDictionary::load_from_file(&path))?
                                };
                                let text = d1.dictionary_text().to_vec();
                                let pool = es(SecureMemoryPool::new(SecurePoolConfig::small_secure()))?;
                                es(PaZipCompressor::new(d1, pazip_cfg(preset), pool)).map(|c| (c, text))
                            });
                            let _ = std::fs::remove_file(&path);
                            match twin {
                                Err(m) => run.panic("reload", 0, "", m),
                                Ok(Err(m)) => run.ev(json!({"op":"reload","how":via,"ok":false,"text":NODIG(),"orig":digest(&dtext),"err":m})),
                                Ok(Ok((mut c2, text))) => {
                                    run.ev(json!({"op":"reload","how":via,"ok":true,"text":digest(&text),"orig":digest(&dtext),"err":""}));
                                    for id in &olds {
                                        let f = run.frame(*id);
                                        let mut y = Vec::new();
                                        let r = guard(|| es(c2.decompress(&f, &mut y)).map(|_| y));
                                        run.decompressed(if via == "serialize" { "twin_serialize" } else { "twin_file" }, *id, "", r);
                                        if run.dead {
                                            break;
                                        }
                                    }
                                }
                            }
                        }
                    }
                    if run.dead {
                        std::mem::forget(c);
                    }
                }
            }
            acc.add(&subject, run.summary());
        }
    }
}

// ---------------------------------------------------------------- family: FSE layer of PA-Zip

fn fse_cfg(name: &str) -> FseConfig {
    match name {
        "for_pa_zip" => FseConfig::for_pa_zip(),
        "fast_pa_zip" => FseConfig::fast_pa_zip(),
        // every FseConfig field at its extremes (table_log 4 and 16 lie outside the decoder's 5..=15)
        "tl5" => FseConfig { table_log: 5, adaptive: false, compression_level: 1, fast_decode: true, ..FseConfig::default() },
        "tl15" => FseConfig { table_log: 15, adaptive: true, compression_level: 22, fast_decode: false, ..FseConfig::default() },
        "tl4" => FseConfig { table_log: 4, ..FseConfig::default() },
        "tl16" => FseConfig { table_log: 16, ..FseConfig::default() },
        "sym127" => FseConfig { max_symbol: 127, ..FseConfig::default() },
        "sym0" => FseConfig { max_symbol: 0, compression_level: i32::MIN, ..FseConfig::default() },
        "reset" => FseConfig::default(),
        _ => FseConfig::default(),
    }
}

fn drive_fse(a: &Args, t: &mut Tracer, acc: &mut Acc) {
    let maxlen = if a.thorough() { 1 << 20 } else { 65536 };
    let ps = payloads(a, maxlen, &[]);
    for cfgn in ["default", "for_pa_zip", "fast_pa_zip", "tl5", "tl15", "tl4", "tl16", "sym127", "sym0", "reset"] {
        let preset = matches!(cfgn, "default" | "for_pa_zip" | "fast_pa_zip");
        // stateful object
        let subject = "fse:compressor".to_string();
        if sel(a, &format!("fse:compressor-{cfgn}")) {
            let mut run = Run::new(t, &subject, "fse", &format!("compressor-{cfgn}"), "none", json!({}));
            let made = guard(|| if cfgn == "default" { es(FseCompressor::new()) } else { es(FseCompressor::with_config(fse_cfg(cfgn))) });
            match made {
                Err(m) => run.panic("create", 0, "", m),
                Ok(Err(m)) => run.create(false, &m),
                Ok(Ok(mut c)) => {
                    run.create(true, "");
                    for p in &ps {
                        if cfgn == "reset" {
                            if let Err(m) = guard(|| c.reset()) {
                                run.panic("reset", 0, &p.cls, m);
                                break;
                            }
                        }
                        let r = guard(|| es(c.compress(&p.data)));
                        if let Some(id) = run.compressed("fse", p, r, json!({"algo":"Fse"})) {
                            let f = run.frame(id);
                            let r = guard(|| es(c.decompress(&f)));
                            run.decompressed("fse", id, &p.cls, r);
                        }
                        if run.dead {
                            std::mem::forget(c);
                            break;
                        }
                    }
                }
            }
            acc.add(&subject, run.summary());
        }
        // a fresh object per payload
        let subject = "fse:fresh".to_string();
        if preset && sel(a, &format!("fse:fresh-{cfgn}")) {
            for p in &ps {
                let mut run = Run::new(t, &subject, "fse", &format!("fresh-{cfgn}"), "none", json!({"cls": p.cls}));
                match guard(|| es(FseCompressor::with_config(fse_cfg(cfgn)))) {
                    Err(m) => run.panic("create", 0, "", m),
                    Ok(Err(m)) => run.create(false, &m),
                    Ok(Ok(mut c)) => {
                        run.create(true, "");
                        let r = guard(|| es(c.compress(&p.data)));
                        if let Some(id) = run.compressed("fse", p, r, json!({"algo":"Fse"})) {
                            let f = run.frame(id);
                            let r = guard(|| es(c.decompress(&f)));
                            run.decompressed("fse", id, &p.cls, r);
                        }
                        if run.dead {
                            std::mem::forget(c);
                        }
                    }
                }
                acc.add(&subject, run.summary());
            }
        }
        // free functions with the raw-fallback marker
        let subject = "fse:apply".to_string();
        if sel(a, &format!("fse:apply-{cfgn}")) {
            let cfg = fse_cfg(cfgn);
            let mut run = Run::new(t, &subject, "fse", &format!("apply-{cfgn}"), "none", json!({}));
            run.create(true, "");
            for p in &ps {
                let r = guard(|| es(apply_fse_compression(&p.data, &cfg)));
                if let Some(id) = run.compressed("apply", p, r, json!({"algo":"Fse"})) {
                    let f = run.frame(id);
                    let r = guard(|| es(remove_fse_compression(&f, &cfg)));
                    run.decompressed("apply", id, &p.cls, r);
                }
                if run.dead {
                    break;
                }
            }
            acc.add(&subject, run.summary());
        }
    }
    let subject = "fse:zip_reference";
    if sel(a, subject) {
        let mut run = Run::new(t, subject, "fse", "zip_reference", "none", json!({}));
        run.create(true, "");
        for p in &ps {
            let mut buf = vec![0u8; p.data.len() + 1024];
            let mut n = 0usize;
            let r = guard(|| match fse_zip_reference(&p.data, &mut buf, &mut n) {
                Ok(true) => Ok(buf[..n].to_vec()),
                Ok(false) => Err("not beneficial".to_string()),
                Err(e) => Err(e.to_string()),
            });
            if let Some(id) = run.compressed("zip_reference", p, r, json!({"algo":"Fse"})) {
                let f = run.frame(id);
                let mut out = vec![0u8; p.data.len() + 1024];
                let r = guard(|| es(fse_unzip_reference(&f, &mut out)).map(|k| out[..k].to_vec()));
                run.decompressed("zip_reference", id, &p.cls, r);
            }
            if run.dead {
                break;
            }
        }
        acc.add(subject, run.summary());
    }
}

// ---------------------------------------------------------------- groups, parent / child


/// file stem of a unit: its first member and the number of members
fn stem_of(g: &str) -> String {
    let n = g.split(',').count();
    let first = sanitize(g.split(',').next().unwrap_or(""));
    if n > 1 { format!("{first}_and{}", n - 1) } else { first }
}

fn sanitize(s: &str) -> String {
    s.chars().map(|c| if c.is_ascii_alphanumeric() { c } else { '_' }).collect()
}

/// cut a trace file back to its last complete line (a child that died may leave half a line)
fn sanitize_file(p: &std::path::Path) {
    if let Ok(s) = std::fs::read(p) {
        if let Some(pos) = s.iter().rposition(|&b| b == b'\n') {
            if pos + 1 != s.len() {
                let _ = std::fs::write(p, &s[..pos + 1]);
            }
        } else if !s.is_empty() {
            let _ = std::fs::write(p, b"");
        }
    }
}

fn child(a: &Args) {
    let g = a.subject.clone().expect("--subject <group or subject>");
    let mut fams: Vec<String> = vec![];
    for p in g.split(',') {
        let f = p.split(':').next().unwrap_or("").to_string();
        if !fams.contains(&f) {
            fams.push(f);
        }
    }
    let mut t = Tracer::new(&a.out, &format!("c02-{}", stem_of(&g)));
    t.max_events = 4000;
    let mut acc = Acc { subjects: Map::new() };
    for fam in &fams {
        match fam.as_str() {
            "factory" | "direct" => drive_trait(a, &mut t, &mut acc, fam),
            "adaptive" => drive_adaptive(a, &mut t, &mut acc),
            "selector" => drive_selector(a, &mut t, &mut acc),
            "realtime" => drive_realtime(a, &mut t, &mut acc),
            "simdlz77" => drive_simdlz77(a, &mut t, &mut acc),
            "pazip" => drive_pazip(a, &mut t, &mut acc),
            "fse" => drive_fse(a, &mut t, &mut acc),
            _ => {
                eprintln!("c02: unknown group {g}");
                std::process::exit(2)
            }
        }
    }
    t.close();
    let v = json!({"events": t.total_events, "runs": t.runs, "subjects": acc.subjects});
    std::fs::write(a.out.join(format!("sum-{}.json", stem_of(&g))), serde_json::to_vec(&v).unwrap()).expect("child summary");
    if a.get("test_crash") == Some(g.as_str()) {
        std::process::abort();
    }
}

/// the units run in children (each a subject prefix understood by `sel`)
fn units(a: &Args) -> Vec<String> {
    let mut u = vec![];
    // the wrappers without own framing logic share a child; the others get one each
    let safe = |n: &str| !matches!(n, "rans" | "dictionary" | "hybrid");
    u.push(algs().iter().filter(|(n, _)| safe(n)).map(|(n, _)| format!("factory:{n}")).collect::<Vec<_>>().join(","));
    for (n, _) in algs().iter().filter(|(n, _)| !safe(n)) {
        u.push(format!("factory:{n}"));
    }
    let direct = ["none", "zstd3", "zstd22", "huffman", "rans", "dictionary", "hybrid", "simdlz77"];
    u.push(direct.iter().filter(|n| safe(n)).map(|n| format!("direct:{n}")).collect::<Vec<_>>().join(","));
    for n in direct.iter().filter(|n| !safe(n)) {
        u.push(format!("direct:{n}"));
    }
    for c in ["default", "eager", "extremes"] {
        u.push(format!("adaptive:{c}"));
    }
    for (m, _) in modes() {
        u.push(format!("realtime:{m}"));
    }
    u.push("simdlz77".to_string());
    for preset in ["default", "fast", "high", "balanced", "realtime", "reference", "reference_hash", "cfgmin", "cfgmax"] {
        u.push(format!("pazip:{preset}"));
    }
    u.push("fse,selector".to_string());
    // keep the units the caller's filter touches: the unit is inside a pattern, or a pattern is inside the unit
    let inside = |x: &str, p: &str| x == p || x.starts_with(&format!("{p}:")) || x.starts_with(&format!("{p}@")) || x.starts_with(&format!("{p}-"));
    match &a.subject {
        None => u,
        Some(s) => u
            .into_iter()
            .filter_map(|x| {
                // keep the members of a unit (a comma list) the caller's patterns touch
                let keep: Vec<String> = x
                    .split(',')
                    .flat_map(|m| s.split(',').filter(move |p| inside(m, p) || inside(p, m)).map(move |p| if inside(m, p) { m.to_string() } else { p.to_string() }))
                    .collect();
                if keep.is_empty() { None } else { Some(keep.join(",")) }
            })
            .collect(),
    }
}

fn parent(a: &Args) {
    std::fs::create_dir_all(&a.out).expect("out dir");
    let us = units(a);
    let next = std::sync::atomic::AtomicUsize::new(0);
    let results = std::sync::Mutex::new(Vec::<(String, Value)>::new());
    let nthreads = a.get_u64("threads", 6) as usize;
    let secs = a.get_u64("child_secs", if a.thorough() { 1500 } else { 150 });
    std::thread::scope(|sc| {
        for _ in 0..nthreads {
            sc.spawn(|| loop {
                let i = next.fetch_add(1, std::sync::atomic::Ordering::SeqCst);
                if i >= us.len() {
                    break;
                }
                let name = &us[i];
                let subj = name.clone();
                let mut args: Vec<String> = vec![
                    "--mode".into(), "child".into(), "--seed".into(), a.seed.to_string(), "--tier".into(), a.tier.clone(),
                    "--out".into(), a.out.display().to_string(), "--subject".into(), subj.clone(),
                ];
                for (k, v) in &a.extra {
                    args.push(format!("--{k}"));
                    args.push(v.clone());
                }
                let t0 = Instant::now();
                let outcome = run_child(&args, secs, 0, true);
                let sp = a.out.join(format!("sum-{}.json", stem_of(&subj)));
                let mut summ: Value = std::fs::read(&sp).ok().and_then(|b| serde_json::from_slice(&b).ok()).unwrap_or(json!({}));
                summ["wall_s"] = json!(t0.elapsed().as_secs_f64());
                let crashed = match outcome {
                    ChildOutcome::Exit(0) => None,
                    ChildOutcome::Exit(c) => Some(json!({"op":"crash","how":"exit","code":c})),
                    ChildOutcome::Signal(s) => Some(json!({"op":"crash","how":"signal","code":s})),
                    ChildOutcome::Timeout => Some(json!({"op":"crash","how":"timeout","code":0})),
                };
                if let Some(mut ev) = crashed {
                    // what the child had written stays (cut to whole lines); the crash is one more run of the
                    // subject the child was executing (the last reset it wrote)
                    let mut last_subject = subj.clone();
                    let mut last_ev = json!({});
                    if let Ok(rd) = std::fs::read_dir(&a.out) {
                        let mut fs: Vec<_> = rd.flatten().map(|f| f.path()).filter(|p| {
                            p.extension().map_or(false, |e| e == "ndjson") && p.file_name().unwrap().to_string_lossy().starts_with(&format!("c02-{}-", stem_of(&subj)))
                        }).collect();
                        fs.sort();
                        for p in &fs {
                            sanitize_file(p);
                        }
                        if let Some(p) = fs.last() {
                            for e in read_ndjson(p) {
                                if e["op"] == "reset" {
                                    last_subject = e["subject"].as_str().unwrap_or(&subj).to_string();
                                }
                                last_ev = e;
                            }
                        }
                    }
                    ev["after"] = json!(last_ev["op"].as_str().unwrap_or(""));
                    ev["after_cls"] = json!(last_ev["cls"].as_str().unwrap_or(""));
                    let fam = last_subject.split(':').next().unwrap_or("").to_string();
                    let variant = last_subject.split(':').nth(1).unwrap_or("").split('@').next().unwrap_or("").to_string();
                    let mut tr = Tracer::new(&a.out, &format!("c02-crash-{}", stem_of(&subj)));
                    tr.reset("compressor", &last_subject, json!({"fam": fam, "variant": variant, "train": "none", "crash": true}));
                    tr.ev(ev.clone());
                    tr.close();
                    summ["crash"] = ev;
                    summ["crash_subject"] = json!(last_subject);
                }
                results.lock().unwrap().push((name.clone(), summ));
            });
        }
    });
    let mut per = Map::new();
    let mut units_out = Map::new();
    let (mut events, mut runs, mut crashes) = (0u64, 0u64, 0u64);
    for (name, v) in results.into_inner().unwrap() {
        events += v["events"].as_u64().unwrap_or(0);
        runs += v["runs"].as_u64().unwrap_or(0);
        if v.get("crash").is_some() {
            crashes += 1;
            runs += 1;
            events += 2;
        }
        if let Some(o) = v["subjects"].as_object() {
            for (k, s) in o {
                per.insert(k.clone(), s.clone());
            }
        }
        units_out.insert(name, json!({"wall_s": v["wall_s"], "events": v["events"], "crash": v.get("crash").cloned().unwrap_or(Value::Null)}));
    }
    write_summary(&a.out, &json!({"mode": "drive", "events": events, "runs": runs, "crashes": crashes, "subjects": per, "units": units_out}));
}

// ---------------------------------------------------------------- B2: TLC-generated match sequences

fn match_of(v: &Value) -> Option<Match> {
    let g = |k: &str| v[k].as_u64().unwrap_or(0);
    Some(match v["k"].as_str()? {
        "lit" => Match::Literal { length: u8::try_from(g("len")).ok()? },
        "glob" => Match::Global { dict_position: u32::try_from(g("pos")).ok()?, length: u16::try_from(g("len")).ok()? },
        "rle" => Match::RLE { byte_value: u8::try_from(g("b")).ok()?, length: u8::try_from(g("len")).ok()? },
        "near" => Match::NearShort { distance: u8::try_from(g("d")).ok()?, length: u8::try_from(g("len")).ok()? },
        "far1s" => Match::Far1Short { distance: u16::try_from(g("d")).ok()?, length: u8::try_from(g("len")).ok()? },
        "far2s" => Match::Far2Short { distance: u32::try_from(g("d")).ok()?, length: u8::try_from(g("len")).ok()? },
        "far2l" => Match::Far2Long { distance: u16::try_from(g("d")).ok()?, length: u16::try_from(g("len")).ok()? },
        "far3l" => Match::Far3Long { distance: u32::try_from(g("d")).ok()?, length: u32::try_from(g("len")).ok()? },
        _ => return None,
    })
}

/// projection of a real Match back into the record shape of the specification
fn match_json(m: &Match) -> Value {
    match m {
        Match::Literal { length } => json!({"k":"lit","d":0,"len":length,"b":0,"pos":0}),
        Match::Global { dict_position, length } => json!({"k":"glob","d":0,"len":length,"b":0,"pos":dict_position}),
        Match::RLE { byte_value, length } => json!({"k":"rle","d":0,"len":length,"b":byte_value,"pos":0}),
        Match::NearShort { distance, length } => json!({"k":"near","d":distance,"len":length,"b":0,"pos":0}),
        Match::Far1Short { distance, length } => json!({"k":"far1s","d":distance,"len":length,"b":0,"pos":0}),
        Match::Far2Short { distance, length } => json!({"k":"far2s","d":distance,"len":length,"b":0,"pos":0}),
        Match::Far2Long { distance, length } => json!({"k":"far2l","d":distance,"len":length,"b":0,"pos":0}),
        Match::Far3Long { distance, length } => json!({"k":"far3l","d":distance,"len":length,"b":0,"pos":0}),
    }
}

/// (len, first <= 48 bytes, last <= 48 bytes): the projection of a decoded output that TLC also computes
fn out_proj(y: &[u8]) -> Value {
    let n = y.len();
    json!({"len": n, "head": bytes_json(&y[..n.min(48)]), "tail": bytes_json(&y[n - n.min(48)..])})
}

fn replay(a: &Args) {
    let input = a.input.clone().expect("--in <behaviours>");
    let items = read_ndjson(&input);
    let mut t = Tracer::new(&a.out, "c02-b2");
    t.max_events = 1200;
    let (mut execs, mut drift_bits, mut drift_valid, mut drift_apply_lz, mut drift_apply_pz) = (0u64, 0u64, 0u64, 0u64, 0u64);
    let mut drift_model_rt = 0u64;
    let mut kinds_seen = Map::new();
    let mut drift_samples: Vec<Value> = vec![];
    let mut lz: Option<SimdLz77Compressor> = None;
    for (idx, it) in items.iter().enumerate() {
        let what = it["what"].as_str().unwrap_or("");
        let msj = it["ms"].as_array().cloned().unwrap_or_default();
        let ms: Option<Vec<Match>> = msj.iter().map(match_of).collect();
        let Some(ms) = ms else { continue };
        for m in &msj {
            let k = m["k"].as_str().unwrap_or("").to_string();
            let c = kinds_seen.get(&k).and_then(|c| c.as_u64()).unwrap_or(0);
            kinds_seen.insert(k, json!(c + 1));
        }
        let subject = "pazipstream".to_string();
        if !sel(a, &format!("pazipstream:{what}")) {
            continue;
        }
        execs += 1;
        t.reset("compressor", &subject, json!({"fam": "pazipstream", "variant": what, "train": "none", "item": idx}));
        let sp = json!(msj);
        // ---- (1) sequence codec
        let enc = guard(|| es(encode_matches(&ms)));
        match enc {
            Err(m) => t.ev(json!({"op":"panic","in":"encode_matches","id":0,"cls":"","msg":m})),
            Ok(Err(m)) => {
                let mut m = m;
                m.truncate(120);
                t.ev(json!({"op":"codec","api":"matches","ms":sp,"enc_ok":false,"bits_out":0,"buf_len":0,"dec_ok":false,"dec":[],"bits_in":0,"err":m}));
                if it["valid"] == json!(true) {
                    drift_valid += 1;
                }
            }
            Ok(Ok((buf, bits))) => {
                if it["valid"] != json!(true) {
                    drift_valid += 1;
                } else if it["bits"].as_u64() != Some(bits as u64) {
                    drift_bits += 1;
                    if drift_samples.len() < 8 {
                        drift_samples.push(json!({"item": idx, "spec_bits": it["bits"], "impl_bits": bits}));
                    }
                }
                match guard(|| es(decode_matches(&buf))) {
                    Err(m) => t.ev(json!({"op":"panic","in":"decode_matches","id":0,"cls":"","msg":m})),
                    Ok(Err(m)) => {
                        let mut m = m;
                        m.truncate(120);
                        if it["valid"] == json!(true) && it["model_rt"] == json!(true) {
                            drift_model_rt += 1;
                        }
                        t.ev(json!({"op":"codec","api":"matches","ms":sp,"enc_ok":true,"bits_out":bits,"buf_len":buf.len(),"dec_ok":false,"dec":[],"bits_in":0,"err":m}))
                    }
                    Ok(Ok((ms2, bits2))) => {
                        let d: Vec<Value> = ms2.iter().map(match_json).collect();
                        // prediction of the codec model (MC_PaZipStream with the cfg's LoopBits) against the real codec
                        if it["valid"] == json!(true) && it["model_rt"].as_bool() != Some(json!(d) == sp && bits2 == bits) {
                            drift_model_rt += 1;
                        }
                        t.ev(json!({"op":"codec","api":"matches","ms":sp,"enc_ok":true,"bits_out":bits,"buf_len":buf.len(),"dec_ok":true,"dec":d,"bits_in":bits2,"err":""}))
                    }
                }
                // ---- (3) interpreters of the stream (only for sequences the specification can apply)
                if it["applicable"] == json!(true) {
                    let exp = &it["out"];
                    if it["lz_ok"] == json!(true) {
                        if lz.is_none() {
                            lz = SimdLz77Compressor::new().ok();
                        }
                        if let Some(c) = lz.as_mut() {
                            match guard(|| es(SimdLz77Compressor::decompress(c, &buf))) {
                                Err(m) => t.ev(json!({"op":"panic","in":"apply_simdlz77","id":0,"cls":"","msg":m})),
                                Ok(Err(m)) => t.ev(json!({"op":"apply","impl":"simdlz77","ms":sp,"lits":[],"dict":[],"ok":false,"out":out_proj(&[]),"err":m})),
                                Ok(Ok(y)) => {
                                    let o = out_proj(&y);
                                    if &o != exp {
                                        drift_apply_lz += 1;
                                    }
                                    t.ev(json!({"op":"apply","impl":"simdlz77","ms":sp,"lits":[],"dict":[],"ok":true,"out":o,"err":""}));
                                }
                            }
                        }
                    }
                }
            }
        }
        // ---- (2) single matches through encode_match / decode_match with explicit bit accounting
        for (m, mj) in ms.iter().zip(msj.iter()) {
            let r = guard(|| {
                let mut w = BitWriter::new();
                match encode_match(m, &mut w) {
                    Err(e) => Err(e.to_string()),
                    Ok(bits) => {
                        let written = w.bits_written();
                        let buf = w.finish();
                        let mut rd = BitReader::new(&buf);
                        Ok((bits, written, buf.len(), decode_match(&mut rd).map_err(|e| e.to_string())))
                    }
                }
            });
            match r {
                Err(msg) => t.ev(json!({"op":"panic","in":"encode_match","id":0,"cls":"","msg":msg})),
                Ok(Err(e)) => {
                    let mut e = e;
                    e.truncate(120);
                    t.ev(json!({"op":"codec","api":"match","ms":[mj],"enc_ok":false,"bits_out":0,"buf_len":0,"dec_ok":false,"dec":[],"bits_in":0,"err":e}))
                }
                Ok(Ok((bits, written, blen, dec))) => match dec {
                    Err(e) => t.ev(json!({"op":"codec","api":"match","ms":[mj],"enc_ok":true,"bits_out":bits,"written":written,"buf_len":blen,"dec_ok":false,"dec":[],"bits_in":0,"err":e})),
                    Ok((m2, bits2)) => t.ev(json!({"op":"codec","api":"match","ms":[mj],"enc_ok":true,"bits_out":bits,"written":written,"buf_len":blen,"dec_ok":true,"dec":[match_json(&m2)],"bits_in":bits2,"err":""})),
                },
            }
        }
        // ---- (3b) PaZipCompressor::decompress on the byte layout apply_compression_strategy writes (computed by TLC)
        if it["applicable"] == json!(true) && it["legacy"].is_array() {
            let legacy: Vec<u8> = it["legacy"].as_array().unwrap().iter().map(|b| b.as_u64().unwrap_or(0) as u8).collect();
            let dict: Vec<u8> = it["dict"].as_array().map(|d| d.iter().map(|b| b.as_u64().unwrap_or(0) as u8).collect()).unwrap_or_default();
            let made = guard(|| {
                let d = es(SuffixArrayDictionary::new(&dict, SuffixArrayDictionaryConfig::default()))?;
                let same = d.dictionary_text() == &dict[..];
                let pool = es(SecureMemoryPool::new(SecurePoolConfig::small_secure()))?;
                es(PaZipCompressor::new(d, PaZipCompressorConfig::default(), pool)).map(|c| (c, same))
            });
            if let Ok(Ok((mut c, same))) = made {
                let mut y = Vec::new();
                match guard(|| es(c.decompress(&legacy, &mut y)).map(|_| y)) {
                    Err(m) => t.ev(json!({"op":"panic","in":"apply_pazip","id":0,"cls":"","msg":m})),
                    Ok(Err(m)) => {
                        drift_apply_pz += 1;
                        t.ev(json!({"op":"apply","impl":"pazip_legacy","ms":sp,"lits":it["lits"],"dict":it["dict"],"dict_same":same,"ok":false,"out":out_proj(&[]),"err":m}))
                    }
                    Ok(Ok(y)) => {
                        let o = out_proj(&y);
                        if &o != &it["out"] {
                            drift_apply_pz += 1;
                        }
                        t.ev(json!({"op":"apply","impl":"pazip_legacy","ms":sp,"lits":it["lits"],"dict":it["dict"],"dict_same":same,"ok":true,"out":o,"err":""}));
                    }
                }
            }
        }
    }
    t.close();
    write_summary(
        &a.out,
        &json!({"mode":"replay","events": t.total_events, "runs": t.runs, "executions": execs, "items": items.len(),
                "kinds": kinds_seen,
                "drift": {"bits": drift_bits, "validity": drift_valid, "codec_model_prediction": drift_model_rt, "apply_simdlz77": drift_apply_lz, "apply_pazip_legacy": drift_apply_pz, "samples": drift_samples}}),
    );
}

// ---------------------------------------------------------------- mechanism probes (mode probe)

/// a Match built the way the library builds it (constructors, as SimdLz77Compressor::create_pa_zip_match does)
fn construct(kind: &str, d: u64, len: u64, b: u64, pos: u64) -> Option<zipora::error::Result<Match>> {
    Some(match kind {
        "lit" => Match::literal(u8::try_from(len).ok()?),
        "glob" => Match::global(u32::try_from(pos).ok()?, u16::try_from(len).ok()?),
        "rle" => Match::rle(u8::try_from(b).ok()?, u8::try_from(len).ok()?),
        "near" => Match::near_short(u8::try_from(d).ok()?, u8::try_from(len).ok()?),
        "far1s" => Match::far1_short(u16::try_from(d).ok()?, u8::try_from(len).ok()?),
        "far2s" => Match::far2_short(u32::try_from(d).ok()?, u8::try_from(len).ok()?),
        "far2l" => Match::far2_long(u16::try_from(d).ok()?, u16::try_from(len).ok()?),
        "far3l" => Match::far3_long(u32::try_from(d).ok()?, u32::try_from(len).ok()?),
        _ => return None,
    })
}

fn kind_name(t: zipora::compression::dict_zip::CompressionType) -> &'static str {
    use zipora::compression::dict_zip::CompressionType as T;
    match t {
        T::Literal => "lit",
        T::Global => "glob",
        T::RLE => "rle",
        T::NearShort => "near",
        T::Far1Short => "far1s",
        T::Far2Short => "far2s",
        T::Far2Long => "far2l",
        T::Far3Long => "far3l",
    }
}

/// boundary values of a field with valid range lo..=hi
fn bnd(lo: u64, hi: u64) -> Vec<u64> {
    let mut v: Vec<u64> = vec![lo.saturating_sub(1), lo, lo + 1, hi.saturating_sub(1), hi, hi + 1];
    v.sort();
    v.dedup();
    v
}

/// Mechanism-level executions judged by TLC (Trace_Compressor: BitsOK, CtorOK, ChooseOK, RefEncOK, RefRecOK,
/// GMatchOK): bit stream, Match constructors, kind selectors, the reference byte encoder (read back by the
/// specification, the crate has no decoder for it), dictionary matchers.
fn probe(a: &Args) {
    use zipora::compression::dict_zip::compression_types::{choose_best_compression_type, choose_best_compression_type_reference, get_encoding_meta};
    use zipora::compression::dict_zip::reference_encoding::{compress_record_reference, get_back_ref_encoding_meta, DzType, ReferenceEncoder};
    let mut t = Tracer::new(&a.out, "c02-b3");
    t.max_events = 4000;
    let mut rng = Rng::new(a.seed).derive("probe");
    let mut counts = Map::new();
    let mut bump = |k: &str| {
        let c = counts.get(k).and_then(|c: &Value| c.as_u64()).unwrap_or(0);
        counts.insert(k.to_string(), json!(c + 1));
    };
    let pan = |t: &mut Tracer, inop: &str, m: String| t.ev(json!({"op":"panic","in":inop,"id":0,"cls":"","msg":m}));

    // ---- (1) BitWriter::write_bits / bits_written / finish -> BitReader::read_bits / has_bits / bit_position
    if sel(a, "pazipmech:bits") {
        t.reset("compressor", "pazipmech", json!({"fam":"pazipmech","variant":"bits","train":"none"}));
        let widths = [0u8, 1, 2, 3, 5, 7, 8, 9, 13, 15, 16, 17, 24, 30, 31, 32];
        for round in 0..60 {
            let n = 1 + rng.below(24) as usize;
            let mut ws: Vec<(u32, u8)> = vec![];
            for _ in 0..n {
                let w = if round < 16 { widths[round] } else { *rng.pick(&widths) };
                let v: u32 = match rng.below(5) {
                    0 => 0,
                    1 if w > 0 && w < 32 => (1u32 << w) - 1,
                    2 if w < 31 => 1u32 << w, // one bit above the width: must be masked away
                    3 => 0x7fff_ffff,
                    _ => (rng.next() as u32) & 0x7fff_ffff,
                };
                ws.push((v, w));
            }
            if round == 59 {
                ws.push((1, 33)); // more than 32 bits at once: refused
            }
            let r = guard(|| {
                let mut w = BitWriter::new();
                for (v, bits) in &ws {
                    w.write_bits(*v, *bits).map_err(|e| e.to_string())?;
                }
                let written = w.bits_written();
                let part = w.buffer().len();
                let buf = w.finish();
                let mut rd = BitReader::new(&buf);
                let mut out = vec![];
                for (_, bits) in &ws {
                    if !rd.has_bits(*bits) {
                        return Err("has_bits false before a read".to_string());
                    }
                    out.push(rd.read_bits(*bits).map_err(|e| e.to_string())?);
                }
                Ok::<_, String>((written, part, buf.len(), out, rd.bit_position(), rd.has_bits(8)))
            });
            let wsj: Vec<Value> = ws.iter().map(|(v, w)| json!([v, w])).collect();
            match r {
                Err(m) => pan(&mut t, "bits", m),
                Ok(Err(m)) => t.ev(json!({"op":"bits","ws":wsj,"ok":false,"written":0,"buf_len":0,"rd":[],"pos":0,"tail8":false,"err":m})),
                Ok(Ok((written, _part, blen, out, pos, tail8))) => {
                    t.ev(json!({"op":"bits","ws":wsj,"ok":true,"written":written,"buf_len":blen,"rd":out,"pos":pos,"tail8":tail8,"err":""}))
                }
            }
            bump("bits");
        }
    }

    // ---- (2) Match constructors
    if sel(a, "pazipmech:ctor") {
        t.reset("compressor", "pazipmech", json!({"fam":"pazipmech","variant":"ctor","train":"none"}));
        let mut grid: Vec<(&str, u64, u64, u64, u64)> = vec![];
        for l in bnd(1, 32) {
            grid.push(("lit", 0, l, 0, 0));
        }
        for l in bnd(6, 65535) {
            for p in [0u64, 1, 65535, 65536, 0x7fff_ffff] {
                grid.push(("glob", 0, l, 0, p));
            }
        }
        for l in bnd(2, 33) {
            for b in [0u64, 255] {
                grid.push(("rle", 0, l, b, 0));
            }
        }
        for d in bnd(2, 9) {
            for l in bnd(2, 5) {
                grid.push(("near", d, l, 0, 0));
            }
        }
        for d in bnd(2, 257) {
            for l in bnd(2, 33) {
                grid.push(("far1s", d, l, 0, 0));
            }
        }
        for d in bnd(258, 65793) {
            for l in bnd(2, 33) {
                grid.push(("far2s", d, l, 0, 0));
            }
        }
        for d in bnd(0, 65535) {
            for l in [33u64, 34, 35, 64, 65, 161, 162, 65534, 65535] {
                grid.push(("far2l", d, l, 0, 0));
            }
        }
        for d in bnd(0, 16777215) {
            for l in [33u64, 34, 35, 161, 162, 32801, 32802, 1073774625, 1073774626] {
                grid.push(("far3l", d, l, 0, 0));
            }
        }
        for (k, d, l, b, p) in grid {
            let m = json!({"k":k,"d":d,"len":l,"b":b,"pos":p});
            match guard(|| construct(k, d, l, b, p)) {
                Err(msg) => pan(&mut t, "ctor", msg),
                Ok(None) => {} // operands the Rust types cannot hold
                Ok(Some(Err(e))) => t.ev(json!({"op":"ctor","m":m,"ok":false,"got":m,"err":e.to_string()})),
                Ok(Some(Ok(got))) => t.ev(json!({"op":"ctor","m":m,"ok":true,"got":match_json(&got),"err":""})),
            }
            bump("ctor");
        }
    }

    // ---- (3) kind selectors: get_encoding_meta / choose_best_compression_type_reference / choose_best_compression_type
    if sel(a, "pazipmech:choose") {
        t.reset("compressor", "pazipmech", json!({"fam":"pazipmech","variant":"choose","train":"none"}));
        let ds = [0u64, 1, 2, 3, 8, 9, 10, 11, 256, 257, 258, 259, 65534, 65535, 65536, 65792, 65793, 65794, 16777214, 16777215, 16777216];
        let ls = [0u64, 1, 2, 3, 4, 5, 6, 7, 32, 33, 34, 35, 36, 64, 65, 66, 255, 256, 65535, 65536];
        for d in ds {
            for l in ls {
                let r = guard(|| {
                    let kr = choose_best_compression_type_reference(d as usize, l as usize);
                    let km = get_encoding_meta(d as usize, l as usize).compression_type;
                    let kl = choose_best_compression_type(d as usize, l as usize);
                    let kb = get_back_ref_encoding_meta(d as usize, l as usize).dz_type;
                    (kr, km, kl, kb)
                });
                match r {
                    Err(m) => pan(&mut t, "choose", m),
                    Ok((kr, km, kl, kb)) => {
                        let k = kind_name(kr);
                        let k_back = match kb {
                            DzType::Literal => "lit",
                            DzType::Global => "glob",
                            DzType::RLE => "rle",
                            DzType::NearShort => "near",
                            DzType::Far1Short => "far1s",
                            DzType::Far2Short => "far2s",
                            DzType::Far2Long => "far2l",
                            DzType::Far3Long => "far3l",
                        };
                        // the match of the chosen kind, built as SimdLz77Compressor::create_pa_zip_match builds it
                        let built = guard(|| construct(k, d, l, 0, d));
                        let (ctor_ok, got) = match built {
                            Ok(Some(Ok(m))) => (true, match_json(&m)),
                            _ => (false, json!({"k":k,"d":d,"len":l,"b":0,"pos":0})),
                        };
                        let supports = guard(|| kr.supports(if k == "lit" || k == "glob" { 0 } else { d as usize }, l as usize)).unwrap_or(false);
                        t.ev(json!({"op":"choose","d":d,"len":l,"k_ref":k,"k_meta":kind_name(km),"k_back":k_back,"k_legacy":opt(kl.map(kind_name)),
                                    "ctor_ok":ctor_ok,"got":got,"supports":supports}));
                        if ctor_ok {
                            // and it survives the bit codec (judged as a codec event)
                            if let Ok(Some(Ok(m))) = guard(|| construct(k, d, l, 0, d)) {
                                let mj = match_json(&m);
                                let r = guard(|| {
                                    let mut w = BitWriter::new();
                                    let bits = encode_match(&m, &mut w).map_err(|e| e.to_string())?;
                                    let written = w.bits_written();
                                    let buf = w.finish();
                                    let mut rd = BitReader::new(&buf);
                                    Ok::<_, String>((bits, written, buf.len(), decode_match(&mut rd).map_err(|e| e.to_string())))
                                });
                                match r {
                                    Err(msg) => pan(&mut t, "encode_match", msg),
                                    Ok(Err(e)) => t.ev(json!({"op":"codec","api":"match","ms":[mj],"enc_ok":false,"bits_out":0,"buf_len":0,"dec_ok":false,"dec":[],"bits_in":0,"err":e})),
                                    Ok(Ok((bits, written, blen, Err(e)))) => t.ev(json!({"op":"codec","api":"match","ms":[mj],"enc_ok":true,"bits_out":bits,"written":written,"buf_len":blen,"dec_ok":false,"dec":[],"bits_in":0,"err":e})),
                                    Ok(Ok((bits, written, blen, Ok((m2, bits2))))) => t.ev(json!({"op":"codec","api":"match","ms":[mj],"enc_ok":true,"bits_out":bits,"written":written,"buf_len":blen,"dec_ok":true,"dec":[match_json(&m2)],"bits_in":bits2,"err":""})),
                                }
                            }
                        }
                    }
                }
                bump("choose");
            }
        }
    }

    // ---- (4) ReferenceEncoder::encode_*: the bytes are read back by the specification (RefDecodeOne)
    if sel(a, "pazipmech:refenc") {
        t.reset("compressor", "pazipmech", json!({"fam":"pazipmech","variant":"refenc","train":"none"}));
        let mut grid: Vec<(&str, u64, u64, u64)> = vec![]; // kind, d, len, pos
        for l in bnd(2, 33) {
            grid.push(("rle", 1, l, 0));
        }
        for d in bnd(2, 9) {
            for l in bnd(2, 5) {
                grid.push(("near", d, l, 0));
            }
        }
        for d in bnd(2, 257) {
            for l in bnd(2, 33) {
                grid.push(("far1s", d, l, 0));
            }
        }
        for d in bnd(258, 65793) {
            for l in bnd(2, 33) {
                grid.push(("far2s", d, l, 0));
            }
        }
        for d in bnd(0, 65535) {
            for l in [33u64, 34, 35, 63, 64, 65, 66, 191, 192, 193, 194, 16447, 16448, 16449, 70000] {
                grid.push(("far2l", d, l, 0));
            }
        }
        for d in bnd(0, 16777215) {
            for l in [4u64, 5, 6, 34, 35, 36, 37, 162, 163, 164, 165, 16419, 16420, 70000] {
                grid.push(("far3l", d, l, 0));
            }
        }
        for p in bnd(0, 16777215) {
            for l in [5u64, 6, 7, 31, 32, 33, 34, 159, 160, 161, 162, 70000] {
                grid.push(("glob", 0, l, p));
            }
        }
        for (k, d, l, p) in grid {
            let r = guard(|| {
                let mut e = ReferenceEncoder::new(Vec::new());
                let (du, lu) = (d as usize, l as usize);
                match k {
                    "rle" => e.encode_rle(lu),
                    "near" => e.encode_near_short(du, lu),
                    "far1s" => e.encode_far1_short(du, lu),
                    "far2s" => e.encode_far2_short(du, lu),
                    "far2l" => e.encode_far2_long(du, lu),
                    "far3l" => e.encode_far3_long(du, lu),
                    _ => e.encode_global(p as u32, lu, 24, 32),
                }
                .map(|_| e.into_writer())
                .map_err(|x| x.to_string())
            });
            match r {
                Err(m) => t.ev(json!({"op":"panic","in":"refenc","id":0,"cls":format!("{k}:{d}:{l}:{p}"),"msg":m})),
                Ok(Err(m)) => t.ev(json!({"op":"refenc","kind":k,"d":d,"len":l,"pos":p,"data":[],"ok":false,"bytes":[],"err":m})),
                Ok(Ok(bytes)) => t.ev(json!({"op":"refenc","kind":k,"d":d,"len":l,"pos":p,"data":[],"ok":true,"bytes":bytes_json(&bytes),"err":""})),
            }
            bump("refenc");
        }
        for n in [0usize, 1, 2, 31, 32, 33, 63, 64, 65, 100] {
            let data = rng.bytes(n);
            let r = guard(|| {
                let mut e = ReferenceEncoder::new(Vec::new());
                e.encode_literal(&data).map(|_| e.into_writer()).map_err(|x| x.to_string())
            });
            match r {
                Err(m) => pan(&mut t, "refenc", m),
                Ok(Err(m)) => t.ev(json!({"op":"refenc","kind":"lit","d":0,"len":n,"pos":0,"data":bytes_json(&data),"ok":false,"bytes":[],"err":m})),
                Ok(Ok(bytes)) => t.ev(json!({"op":"refenc","kind":"lit","d":0,"len":n,"pos":0,"data":bytes_json(&data),"ok":true,"bytes":bytes_json(&bytes),"err":""})),
            }
            bump("refenc");
        }
    }

    // ---- (5) compress_record_reference: the record is decoded by the specification (RefApply) and must be the payload
    if sel(a, "pazipmech:refrec") {
        t.reset("compressor", "pazipmech", json!({"fam":"pazipmech","variant":"refrec","train":"none"}));
        let tx = corpus(a.seed, "text");
        let dict: Vec<u8> = tx[..200].to_vec();
        let ps = payloads(a, 300, &dict);
        for p in &ps {
            for sa in [false, true] {
                for with_dict in [false, true] {
                    let r = guard(|| {
                        let mut out = Vec::new();
                        compress_record_reference(&p.data, &mut out, sa, if with_dict { Some(&dict[..]) } else { None }, 24, 32).map(|n| (n, out)).map_err(|e| e.to_string())
                    });
                    let dj = if with_dict { bytes_json(&dict) } else { json!([]) };
                    match r {
                        Err(m) => t.ev(json!({"op":"panic","in":"refrec","id":0,"cls":p.cls,"msg":m})),
                        Ok(Err(m)) => t.ev(json!({"op":"refrec","cls":p.cls,"sa":sa,"x":bytes_json(&p.data),"dict":dj,"ok":false,"frame":[],"consumed":0,"err":m})),
                        Ok(Ok((n, out))) => t.ev(json!({"op":"refrec","cls":p.cls,"sa":sa,"x":bytes_json(&p.data),"dict":dj,"ok":true,"frame":bytes_json(&out),"consumed":n,"err":""})),
                    }
                    bump("refrec");
                }
            }
        }
    }

    // ---- (6) SuffixArrayDictionary::find_longest_match / find_all_matches / da_match_max_length
    if sel(a, "pazipmech:gmatch") {
        t.reset("compressor", "pazipmech", json!({"fam":"pazipmech","variant":"gmatch","train":"none"}));
        for (train, how) in [("text", "direct"), ("text", "minpat1"), ("text", "bfs0"), ("bigtext", "sampled"), ("all256", "direct"), ("text", "builder")] {
            let tr = corpus(a.seed, train);
            let mut d = match guard(|| make_dict(how, &tr)) {
                Ok(Ok(d)) => d,
                _ => continue,
            };
            let text = d.dictionary_text().to_vec();
            // patterns: dictionary slices (matches exist), slices followed by foreign bytes, foreign bytes
            let mut pats: Vec<Vec<u8>> = vec![];
            for (off, n) in [(0usize, 4usize), (0, 300), (1, 5), (17, 64), (100, 256), (101, 257), (500, 1000), (0, 3), (7, 1)] {
                if off + n <= text.len() {
                    pats.push(text[off..off + n].to_vec());
                }
            }
            if text.len() > 70 {
                pats.push(text[text.len() - 40..].to_vec());
                let mut m = text[text.len() / 2..text.len() / 2 + 30].to_vec();
                m.extend(rng.bytes(20));
                pats.push(m);
            }
            if text.len() > 70_000 {
                pats.push(text[66_000..66_100].to_vec());
            }
            pats.push(rng.bytes(50));
            pats.push(vec![0xfe; 10]);
            pats.push(vec![]);
            for api in ["find_longest_match", "find_all_matches", "da_match_max_length", "find_longest_match"] {
                if api != "find_longest_match" {
                    // maintenance between the passes must not change what is found
                    let _ = guard(|| d.optimize_cache());
                    d.reset_stats();
                }
                let mut probes = vec![];
                for pat in &pats {
                    let found: Result<Vec<(usize, usize)>, String> = guard(|| match api {
                        "find_longest_match" => es(d.find_longest_match(pat, 0, 256)).map(|m| m.map(|m| vec![(m.dict_position, m.length)]).unwrap_or_default()),
                        "find_all_matches" => es(d.find_all_matches(pat, 8)).map(|v| v.into_iter().map(|m| (m.dict_position, m.length)).collect()),
                        _ => {
                            let st = d.da_match_max_length(pat);
                            Ok(if st.is_empty() || st.depth == 0 { vec![] } else { vec![(usize::MAX, st.depth)] })
                        }
                    })
                    .and_then(|r| r);
                    match found {
                        Err(m) => {
                            pan(&mut t, api, m);
                            break;
                        }
                        Ok(v) if v.is_empty() => probes.push(json!({"plen":pat.len(),"found":false,"inb":true,"mlen":0,"dslice":NODIG(),"ppre":NODIG()})),
                        Ok(v) => {
                            for (pos, mlen) in v {
                                if pos == usize::MAX {
                                    // a depth without a position: only the length bound can be judged
                                    probes.push(json!({"plen":pat.len(),"found":true,"inb":true,"mlen":mlen,"dslice":NODIG(),"ppre":NODIG()}));
                                    continue;
                                }
                                let inb = pos.checked_add(mlen).map_or(false, |e| e <= text.len()) && mlen <= pat.len();
                                let (ds, pp) = if inb { (digest(&text[pos..pos + mlen]), digest(&pat[..mlen])) } else { (NODIG(), NODIG()) };
                                probes.push(json!({"plen":pat.len(),"found":true,"inb":inb,"mlen":mlen,"dslice":ds,"ppre":pp}));
                            }
                        }
                    }
                }
                t.ev(json!({"op":"gmatch","api":api,"dict":format!("{how}@{train}"),"probes":probes}));
                bump("gmatch");
            }
        }
    }
    t.close();
    write_summary(&a.out, &json!({"mode":"probe","events": t.total_events, "runs": t.runs, "counts": counts}));
}

// ---------------------------------------------------------------- census (developer aid, not used by the check)

fn census(a: &Args) {
    let mut per: std::collections::BTreeMap<String, (u64, u64, u64, u64, Vec<String>)> = Default::default();
    let rd = std::fs::read_dir(&a.out).expect("out dir");
    let mut files: Vec<_> = rd.flatten().map(|f| f.path()).filter(|p| p.extension().map_or(false, |e| e == "ndjson")).collect();
    files.sort();
    for p in files {
        let mut subj = String::new();
        let mut xs: std::collections::HashMap<u64, Value> = Default::default();
        for e in read_ndjson(&p) {
            match e["op"].as_str().unwrap_or("") {
                "reset" => {
                    subj = e["subject"].as_str().unwrap_or("").to_string();
                    xs.clear();
                }
                "compress" => {
                    let ent = per.entry(subj.clone()).or_default();
                    if e["ok"] == json!(true) {
                        ent.0 += 1;
                        xs.insert(e["id"].as_u64().unwrap(), e["x"].clone());
                    } else {
                        ent.1 += 1;
                    }
                }
                "decompress" => {
                    let ent = per.entry(subj.clone()).or_default();
                    let x = xs.get(&e["id"].as_u64().unwrap()).cloned().unwrap_or(json!(null));
                    if e["ok"] != json!(true) {
                        ent.2 += 1;
                        if ent.4.len() < 6 {
                            ent.4.push(format!("ERR[{}:{}] {}", e["via"].as_str().unwrap_or(""), e["cls"].as_str().unwrap_or(""), e["err"].as_str().unwrap_or("")));
                        }
                    } else if e["y"] != x {
                        ent.3 += 1;
                        if ent.4.len() < 6 {
                            ent.4.push(format!("WRONG[{}:{}] x={} y={}", e["via"].as_str().unwrap_or(""), e["cls"].as_str().unwrap_or(""), x["len"], e["y"]["len"]));
                        }
                    }
                }
                "panic" | "crash" => {
                    let ent = per.entry(subj.clone()).or_default();
                    ent.4.push(format!("{} {}", e["op"].as_str().unwrap_or(""), e.to_string().chars().take(200).collect::<String>()));
                }
                _ => {}
            }
        }
    }
    for (s, (ok, refused, derr, wrong, notes)) in per {
        println!("{s}: compress ok={ok} refused={refused}; decompress err={derr} wrong={wrong}");
        for n in notes {
            println!("      {n}");
        }
    }
}

/// developer aid: the small witnesses quoted in known_findings.json, printed (not used by the check)
fn witness(_a: &Args) {
    let show = |name: &str, r: Result<Result<Vec<u8>, String>, String>| println!("{name}: {r:?}");
    // KF1
    for (tr, x) in [(&b"aab"[..], &b"a"[..]), (b"ab", b"ab"), (b"aaab", b"ab"), (b"abc", b"abc"), (b"aaaaaaab", b"aaaaaaab")] {
        let c = RansCompressor::new(tr).unwrap();
        let f = c.compress(x).unwrap();
        show(&format!("rans train={:?} x={:?}", String::from_utf8_lossy(tr), String::from_utf8_lossy(x)), guard(|| es(c.decompress(&f))));
    }
    // KF2
    let c = HybridCompressor::new(b"abcabcabc").unwrap();
    let f = c.compress(b"a").unwrap();
    println!("hybrid frame {f:?}");
    show("hybrid train=abcabcabc x=a", guard(|| es(c.decompress(&f))));
    // KF4
    let mut ad = AdaptiveCompressor::new(AdaptiveConfig::default(), PerformanceRequirements::default()).unwrap();
    ad.set_algorithm(Algorithm::Zstd(3)).unwrap();
    show("adaptive zstd3 compress(empty)", guard(|| es(ad.compress(b""))));
    // KF7
    let mut lz = SimdLz77Compressor::new().unwrap();
    let f = SimdLz77Compressor::compress(&mut lz, b"A").unwrap();
    println!("simdlz77 frame {f:?}");
    show("simdlz77 x=A", guard(|| es(SimdLz77Compressor::decompress(&mut lz, &f))));
    // KF9 / KF10
    let ms = vec![Match::Global { dict_position: 0, length: 6 }];
    let (buf, bits) = encode_matches(&ms).unwrap();
    println!("encode_matches([Global(0,6)]) -> {} bytes, {bits} bits; decode_matches -> {:?}", buf.len(), decode_matches(&buf).map(|(m, b)| (m.len(), b)).map_err(|e| e.to_string()));
    let ms = vec![Match::Far3Long { distance: 1, length: 1073774626 }];
    let (buf, _) = encode_matches(&ms).unwrap();
    println!("Far3Long(1, 2^30+32802) -> {:?}", decode_matches(&buf).map_err(|e| e.to_string()));
    // KF13
    let mut r = Rng::new(1);
    for n in [100usize, 128, 200, 256, 300, 512, 1000] {
        let x = r.bytes(n);
        let mut c = FseCompressor::new().unwrap();
        let f = c.compress(&x).unwrap();
        let y = c.decompress(&f);
        println!("fse random {n}: frame {} -> {:?}", f.len(), y.map(|y| y == x).map_err(|e| e.to_string()));
    }
    for n in [100usize, 101, 150, 256] {
        let x: Vec<u8> = (0..n).map(|i| (i % 251) as u8).collect();
        let mut c = FseCompressor::new().unwrap();
        let f = c.compress(&x).unwrap();
        let y = c.decompress(&f);
        println!("fse ramp {n}: frame {} -> {:?}", f.len(), y.map(|y| y == x).map_err(|e| e.to_string()));
    }
}

fn main() {
    quiet_panics();
    let a = Args::parse();
    match a.mode.as_str() {
        "drive" => parent(&a),
        "child" => child(&a),
        "replay" => replay(&a),
        "probe" => probe(&a),
        "census" => census(&a),
        "witness" => witness(&a),
        m => {
            eprintln!("c02: unknown mode {m}");
            std::process::exit(2)
        }
    }
}
