//! c15 — fault-enumeration harness for property C15 ("decoders and loaders reject malformed
//! bytes with an error, never a crash").
//!
//! The mutation DESCRIPTORS come from TLC (spec/MC_ParserGen.tla over spec/Parser.tla); this
//! binary only *applies* them to valid encodings produced by the real encoders of zipora, runs
//! every parser call in a child process (RLIMIT_AS 1 GiB, per-case watchdog, catch_unwind) and
//! logs one batch event per (parser, variant, encoding, descriptor kind).  TLC judges the events
//! (spec/Trace_Parser.tla).  There is no model of any zipora structure in here.
//!
//! modes:  encode      write encs.ndjson + params.json (length classes) into --out
//!         applycheck  compare apply() with the results TLC computed (--in = generator output)
//!         run         run every case (--in = generator output, --encs = dir of mode encode)
//!         child       (internal) run a slice of the cases of one job
use serde_json::{json, Value};
use std::alloc::{GlobalAlloc, Layout, System};
use std::collections::BTreeMap;
use std::fs::{self, File};
use std::io::Write;
use std::path::{Path, PathBuf};
use std::sync::atomic::{AtomicPtr, AtomicU64, AtomicUsize, Ordering};
use std::sync::{Arc, Mutex};
use zv::*;

// ------------------------------------------------------------------ allocator (oom detection)

/// Records a failed allocation in the status page of the child (outcome "oom" when the process
/// then aborts) and tracks the live bytes so that a leaking parser cannot fake an oom.
struct TrackingAlloc;
static STATUS: AtomicPtr<u8> = AtomicPtr::new(std::ptr::null_mut());
static LIVE: AtomicUsize = AtomicUsize::new(0);

fn note_oom(size: usize) {
    let p = STATUS.load(Ordering::Relaxed);
    if !p.is_null() {
        unsafe { (p.add(16) as *mut u64).write_volatile(size.max(1) as u64) };
    }
}

unsafe impl GlobalAlloc for TrackingAlloc {
    unsafe fn alloc(&self, l: Layout) -> *mut u8 {
        let p = System.alloc(l);
        if p.is_null() {
            note_oom(l.size());
        } else {
            LIVE.fetch_add(l.size(), Ordering::Relaxed);
        }
        p
    }
    unsafe fn alloc_zeroed(&self, l: Layout) -> *mut u8 {
        let p = System.alloc_zeroed(l);
        if p.is_null() {
            note_oom(l.size());
        } else {
            LIVE.fetch_add(l.size(), Ordering::Relaxed);
        }
        p
    }
    unsafe fn dealloc(&self, p: *mut u8, l: Layout) {
        LIVE.fetch_sub(l.size(), Ordering::Relaxed);
        System.dealloc(p, l)
    }
    unsafe fn realloc(&self, p: *mut u8, l: Layout, new: usize) -> *mut u8 {
        let q = System.realloc(p, l, new);
        if q.is_null() {
            note_oom(new);
        } else {
            LIVE.fetch_add(new, Ordering::Relaxed);
            LIVE.fetch_sub(l.size(), Ordering::Relaxed);
        }
        q
    }
}

#[global_allocator]
static GLOBAL: TrackingAlloc = TrackingAlloc;

// ------------------------------------------------------------------ outcomes

const O_NONE: u8 = 0;
const O_OK: u8 = 1;
const O_ERR: u8 = 2;
const O_PANIC: u8 = 3;
const O_ABORT: u8 = 4;
const O_SIGNAL: u8 = 5;
const O_TIMEOUT: u8 = 6;
const O_OOM: u8 = 7;
const O_SKIPPED: u8 = 8;
const ONAMES: [&str; 9] = ["none", "ok", "err", "panic", "abort", "signal", "timeout", "oom", "skipped"];

const HDR: usize = 64;
const CASE_TIMEOUT_MS: u64 = 60_000;
const CASE_BLOCKED_MS: u64 = 300_000;
const AS_LIMIT_MB: u64 = 1024;
const CHILD_CHUNK: usize = 400_000; // a child is recycled after this many cases
const LIVE_LIMIT: usize = 256 << 20; // ... or when the parsers have leaked this much

// ------------------------------------------------------------------ descriptors

/// One mutation descriptor as printed by TLC: ["t",n] ["s",i,k] ["m",off,w,p] ["a",g]
/// ["c",off,w,p,n] ["b"] ["r",b1..bk]; ["R",k,index] is the harness-side expansion of the
/// compact class ["R",k] (the index-th string of length k in lexicographic order).
#[derive(Clone, Debug)]
struct Desc {
    kind: u8,
    a: Vec<u32>,
}

fn desc_from_json(v: &Value) -> Desc {
    let arr = v.as_array().expect("descriptor array");
    let kind = arr[0].as_str().expect("kind").as_bytes()[0];
    Desc { kind, a: arr[1..].iter().map(|x| x.as_u64().expect("int") as u32).collect() }
}

fn desc_to_json(d: &Desc) -> Value {
    let mut v = vec![json!((d.kind as char).to_string())];
    if d.kind == b'R' {
        // report the expanded string as a raw descriptor: it identifies the input
        v[0] = json!("r");
        let k = d.a[0];
        for j in (0..k).rev() {
            v.push(json!((d.a[1] >> (8 * j)) & 255));
        }
    } else {
        v.extend(d.a.iter().map(|&x| json!(x)));
    }
    Value::Array(v)
}

fn pattern(p: u32) -> &'static [u8] {
    match p {
        1 => &[255, 255, 255, 255],
        2 => &[255, 255, 255, 127],
        3 => &[127, 255, 255, 255],
        4 => &[255; 8],
        5 => &[0, 0, 0, 0, 0, 0, 0, 128],
        _ => &[128, 0, 0, 0, 0, 0, 0, 0],
    }
}

/// the multiplication-overflow values (OVals4 / OVals8 of Parser.tla), as TLC printed them
static OVALS: std::sync::OnceLock<(Vec<Vec<u8>>, Vec<Vec<u8>>)> = std::sync::OnceLock::new();

fn oval(w: u32, v: u32) -> &'static [u8] {
    let t = OVALS.get().expect("c15: the generator output has no overflow value table");
    let tab = if w == 8 { &t.1 } else { &t.0 };
    &tab[v as usize - 1]
}

fn subst_val(k: u32, old: u8) -> u8 {
    match k {
        1 => 0,
        2 => 1,
        3 => 127,
        4 => 128,
        5 => 255,
        6 => old.wrapping_add(1),
        _ => old.wrapping_sub(1),
    }
}

/// Applies a descriptor (the Rust rendering of Apply in Parser.tla; checked against TLC's
/// results in mode applycheck).
fn apply(e: &[u8], d: &Desc) -> Vec<u8> {
    match d.kind {
        b'b' => e.to_vec(),
        b't' => e[..d.a[0] as usize].to_vec(),
        b's' => {
            let mut r = e.to_vec();
            let i = d.a[0] as usize;
            r[i] = subst_val(d.a[1], r[i]);
            r
        }
        b'm' | b'c' => {
            let mut r = e.to_vec();
            let off = d.a[0] as usize;
            let pat = pattern(d.a[2]);
            r[off..off + pat.len()].copy_from_slice(pat);
            if d.kind == b'c' {
                r.truncate(d.a[3] as usize);
            }
            r
        }
        b'o' | b'u' | b'p' => {
            let mut r = e.to_vec();
            let off = d.a[0] as usize;
            let val = oval(d.a[1], d.a[2]);
            r[off..off + val.len()].copy_from_slice(val);
            if d.kind == b'p' {
                r[off + 8..off + 16].copy_from_slice(val);
            }
            r
        }
        b'a' => {
            let mut r = e.to_vec();
            match d.a[0] {
                1 => r.push(0),
                2 => r.push(255),
                3 => r.extend_from_slice(&[255; 8]),
                4 => r.extend_from_slice(&[0; 64]),
                5 => {
                    if e.is_empty() {
                        r.push(170)
                    } else {
                        r.extend_from_slice(e)
                    }
                }
                _ => r.extend_from_slice(&[170; 1024]),
            }
            r
        }
        b'r' => d.a.iter().map(|&x| x as u8).collect(),
        b'R' => {
            let k = d.a[0];
            (0..k).rev().map(|j| ((d.a[1] >> (8 * j)) & 255) as u8).collect()
        }
        _ => panic!("c15: unknown descriptor kind"),
    }
}

/// descriptors of one length class, per kind
struct ClassDescs {
    combo: String,
    by_kind: BTreeMap<u8, Vec<Desc>>,
}

struct Generated {
    win: u64,
    raw: u64,
    classes: BTreeMap<usize, ClassDescs>,
    raw_descs: Vec<Desc>,
    apply_check: Option<Value>,
}

fn load_generated(p: &Path, only_len: Option<usize>, want_raw: bool) -> Generated {
    let mut g = Generated { win: 64, raw: 2, classes: BTreeMap::new(), raw_descs: vec![], apply_check: None };
    let s = fs::read_to_string(p).unwrap_or_else(|e| {
        eprintln!("c15: cannot read {}: {e}", p.display());
        std::process::exit(2)
    });
    for line in s.lines() {
        if line.trim().is_empty() {
            continue;
        }
        // cheap pre-filter: do not parse the classes this process does not need
        if let Some(l) = only_len {
            let is_len = line.starts_with("{\"cls\":\"len\"");
            if is_len && !line.starts_with(&format!("{{\"cls\":\"len\",\"len\":{},", l)) {
                continue;
            }
        }
        if !want_raw && line.starts_with("{\"cls\":\"raw\"") {
            continue;
        }
        if only_len.is_some() && line.starts_with("{\"cls\":\"apply\"") {
            continue;
        }
        let v: Value = serde_json::from_str(line).expect("generator line");
        match v["cls"].as_str().unwrap_or("") {
            "len" => {
                let l = v["len"].as_u64().unwrap() as usize;
                g.win = v["win"].as_u64().unwrap_or(64);
                let mut by_kind = BTreeMap::new();
                for k in ["b", "t", "s", "m", "a", "c", "o", "p", "u"] {
                    let ds: Vec<Desc> = v[k].as_array().map(|a| a.iter().map(desc_from_json).collect()).unwrap_or_default();
                    by_kind.insert(k.as_bytes()[0], ds);
                }
                g.classes.insert(l, ClassDescs { combo: v["combo"].as_str().unwrap_or("class").to_string(), by_kind });
            }
            "raw" => {
                g.raw = v["raw"].as_u64().unwrap_or(2);
                g.raw_descs = v["r"].as_array().unwrap().iter().map(desc_from_json).collect();
            }
            "apply" => g.apply_check = Some(v),
            "ovals" => {
                let tab = |k: &str| -> Vec<Vec<u8>> {
                    v[k].as_array().unwrap().iter().map(|b| b.as_array().unwrap().iter().map(|x| x.as_u64().unwrap() as u8).collect()).collect()
                };
                let _ = OVALS.set((tab("v4"), tab("v8")));
            }
            _ => {}
        }
    }
    g
}

// ------------------------------------------------------------------ encodings

#[derive(Clone, Debug)]
struct Enc {
    id: String,
    payload: usize, // index of the payload the encoding was made from
    bytes: Vec<u8>,
    olen: usize,  // the expected-length argument that belongs to this encoding
    aux: Vec<u8>, // whatever the child needs to rebuild the decoding context
}

fn hex(b: &[u8]) -> String {
    b.iter().map(|x| format!("{:02x}", x)).collect()
}
fn unhex(s: &str) -> Vec<u8> {
    (0..s.len() / 2).map(|i| u8::from_str_radix(&s[2 * i..2 * i + 2], 16).unwrap()).collect()
}

fn enc_to_json(parser: &str, e: &Enc) -> Value {
    json!({"parser": parser, "id": e.id, "payload": e.payload, "hex": hex(&e.bytes), "olen": e.olen.to_string(), "aux": hex(&e.aux)})
}
fn enc_from_json(v: &Value) -> Enc {
    Enc {
        id: v["id"].as_str().unwrap().to_string(),
        payload: v["payload"].as_u64().unwrap() as usize,
        bytes: unhex(v["hex"].as_str().unwrap()),
        olen: v["olen"].as_str().unwrap().parse().unwrap(),
        aux: unhex(v["aux"].as_str().unwrap()),
    }
}

fn payloads(thorough: bool) -> Vec<Vec<u8>> {
    let mut v: Vec<Vec<u8>> = vec![
        // longer than every "stored / raw mode" threshold of the codecs (FSE codes inputs of 100 bytes or
        // more, below that it stores them): reaches the table + payload + final-state layout of the coders
        b"it was the best of times, it was the worst of times, it was the age of wisdom, it was the age of foolishness, it was the epoch of belief, it was the epoch of incredulity".to_vec(),
        b"the quick brown fox jumps over the lazy dog. the quick brown fox jumps again.".to_vec(),
        b"abracadabra abracadabra".to_vec(),
        b"abracadabra".to_vec(),
    ];
    if thorough {
        v.push((0..48u32).map(|i| ((i * 7) % 11 + (i % 3) * 80) as u8).collect());
        let mut long = Vec::new();
        for i in 0..12 {
            long.extend_from_slice(b"lorem ipsum dolor sit amet, ");
            long.extend_from_slice(format!("consectetur {} adipiscing elit. ", i * i).as_bytes());
        }
        v.push(long);
    }
    v
}

// ------------------------------------------------------------------ the parsers under test

use std::collections::{BTreeSet, HashMap, HashSet};
use std::io::Cursor;
use std::rc::Rc;
use zipora::blob_store::{BlobStore, ZReorderMap, ZReorderMapBuilder, ZipOffsetBlobStore, ZipOffsetBlobStoreBuilder};
use zipora::compression::dict_zip::compression_types::FseCompressor as DzFseCompressor;
use zipora::compression::dict_zip::{
    decode_match, decode_matches, encode_matches, BitReader, DictionaryBuilder as DzDictionaryBuilder, DictionaryBuilderConfig, Match, PaZipCompressor,
    PaZipCompressorConfig,
};
use zipora::compression::simd_lz77::{
    decompress_with_simd_lz77, SimdLz77Compressor, SimdLz77CompressorX1, SimdLz77CompressorX2, SimdLz77CompressorX4, SimdLz77CompressorX8,
};
use zipora::compression::{Algorithm, CompressorFactory};
use zipora::entropy::dictionary::{Dictionary, DictionaryBuilder, DictionaryCompressor, OptimizedDictionaryCompressor};
use zipora::entropy::fse::{fse_compress, fse_compress_with_config, fse_decompress, fse_decompress_with_config, fse_unzip, FseConfig};
use zipora::entropy::huffman::{ContextualHuffmanDecoder, ContextualHuffmanEncoder, HuffmanDecoder, HuffmanEncoder, HuffmanOrder, HuffmanTree};
use zipora::entropy::rans::{ParallelVariant, ParallelX1, ParallelX2, ParallelX4, ParallelX8, Rans64Decoder, Rans64Encoder};
use zipora::io::complex_types::{ComplexSerialize, ComplexTypeConfig, ComplexTypeSerializer};
use zipora::io::smart_ptr::{SerializableType, SmartPtrSerialize, SmartPtrSerializer};
use zipora::io::var_int::{SignedVarInt, VarInt};
use zipora::io::var_int_variants::{VarIntEncoder, VarIntStrategy};
use zipora::io::{DataInput, ReaderDataInput, SliceDataInput};
use zipora::memory::{MmapVec, MmapVecConfig, SecureMemoryPool, SecurePoolConfig};
use zipora::string::{hex_decode, hex_decode_bytes, hex_decode_to_slice, hex_encode};
use zipora::system::base64::{base64_decode_simd, base64_encode_simd, AdaptiveBase64, Base64Config, SimdBase64Decoder};

#[derive(Clone, Copy)]
struct PDef {
    name: &'static str,
    olen: bool,    // takes an expected-length argument (5 variants)
    restart: bool, // mutable / global state: a fresh child after every panic
    raw3: bool,    // cheap enough for all 2^24 strings of length 3 (thorough)
}

const fn pd(name: &'static str, olen: bool, restart: bool, raw3: bool) -> PDef {
    PDef { name, olen, restart, raw3 }
}

/// Parsers whose single call costs tens of milliseconds by design (a 257 x 4096 decode table is
/// rebuilt on every call): raw strings up to length 1 only, and in the quick tier only the
/// shortest encoding.  The enumeration per encoding stays complete.
/// The same class holds the loaders that work on a file (each case writes and maps a scratch file).
fn is_slow(name: &str) -> bool {
    name.starts_with("huff.ctx.decode_x")
        || name.starts_with("huff.ctx.decode_with_interleaving.x")
        || name.starts_with("zreorder.")
        || name.starts_with("mmapvec.")
        || name.starts_with("din.mmap.")
        || name == "zipoffset.load_from_file"
}
impl PDef {
    fn slow(&self) -> bool {
        is_slow(self.name)
    }
    fn rawmax(&self, g_raw: u64) -> u64 {
        if self.slow() && self.olen && g_raw < 3 {
            0 // quick tier, 50 ms per call x 7 expected-length variants: the empty string only
        } else if self.slow() {
            1
        } else {
            g_raw.min(2)
        }
    }
}
fn raw_count(k: u64) -> usize {
    match k {
        0 => 1,
        1 => 257,
        _ => 65793,
    }
}

const STRATS: [(&str, VarIntStrategy); 7] = [
    ("leb128", VarIntStrategy::Leb128),
    ("zigzag", VarIntStrategy::Zigzag),
    ("delta", VarIntStrategy::Delta),
    ("group", VarIntStrategy::GroupVarint),
    ("prefixfree", VarIntStrategy::PrefixFree),
    ("compact", VarIntStrategy::Compact),
    ("simd", VarIntStrategy::Simd),
];

fn registry() -> Vec<PDef> {
    let mut v = vec![
        pd("huff.tree.deserialize", false, false, true),
        pd("huff.ctx.deserialize.o0", false, false, false),
        pd("huff.ctx.deserialize.o1", false, false, false),
        pd("huff.ctx.deserialize.o2", false, false, false),
        pd("huff.decode", true, false, false),
        pd("huff.ctx.decode.o0", true, false, false),
        pd("huff.ctx.decode.o1", true, false, false),
        pd("huff.ctx.decode.o2", true, false, false),
        pd("huff.ctx.decode_x1", true, false, false),
        pd("huff.ctx.decode_x2", true, false, false),
        pd("huff.ctx.decode_x4", true, false, false),
        pd("huff.ctx.decode_x8", true, false, false),
        pd("dict.deserialize", false, false, true),
        pd("dict.decompress", false, false, true),
        pd("dict.opt.decompress", false, false, false),
        pd("fse.decompress", false, false, false),
        pd("fse.unzip", false, false, false),
        pd("fse.decompress.fast", false, false, false),
        pd("fse.decompress.high", false, false, false),
        pd("dz.fse.decompress", false, true, false),
        pd("rans.decode.x1", true, false, false),
        pd("rans.decode.x2", true, false, false),
        pd("rans.decode.x4", true, false, false),
        pd("rans.decode.x8", true, false, false),
        pd("comp.none.decompress", false, false, false),
        pd("comp.lz4.decompress", false, false, false),
        pd("comp.zstd1.decompress", false, false, false),
        pd("comp.zstd9.decompress", false, false, false),
        pd("comp.huffman.decompress", false, false, false),
        pd("comp.rans.decompress", false, false, false),
        pd("comp.dictionary.decompress", false, false, false),
        pd("comp.hybrid.decompress", false, false, false),
        pd("comp.simdlz77.decompress", false, false, false),
        pd("simdlz77.decompress", false, true, false),
        pd("simdlz77.x1.decompress", false, true, false),
        pd("simdlz77.x2.decompress", false, true, false),
        pd("simdlz77.x4.decompress", false, true, false),
        pd("simdlz77.x8.decompress", false, true, false),
        pd("simdlz77.global.decompress", false, true, false),
        pd("pazip.decompress", false, true, false),
        pd("dz.decode_matches", false, false, true),
        pd("dz.decode_match", false, false, true),
        pd("zipoffset.load_from_reader", false, false, false),
        pd("zreorder.open", false, false, false),
        pd("mmapvec.open.u64", false, false, false),
        pd("mmapvec.open.u8", false, false, false),
        pd("varint.decode", false, false, true),
        pd("varint.decode_multiple", false, false, true),
        pd("varint.decode_signed", false, false, true),
        pd("varint.read_from", false, false, true),
        pd("complex.batch.meta", false, false, false),
        pd("complex.batch.raw", false, false, false),
        pd("smartptr.box_string", false, false, false),
        pd("smartptr.rc_string", false, false, false),
        pd("smartptr.arc_u32", false, false, false),
        pd("smartptr.optbox_u32", false, false, false),
        pd("smartptr.box_vec_string", false, false, false),
        pd("smartptr.rc_vec_u32", false, false, false),
        pd("din.slice.lp_string", false, false, true),
        pd("din.slice.lp_bytes", false, false, true),
        pd("din.reader.lp_string", false, false, false),
        pd("din.reader.lp_bytes", false, false, false),
        pd("din.slice.read_string", true, false, false),
        pd("din.slice.read_vec", true, false, false),
        pd("din.reader.read_vec", true, false, false),
        pd("hex.decode", false, false, true),
        pd("hex.decode_bytes", false, false, true),
        pd("hex.decode_to_slice", false, false, true),
        pd("b64.adaptive.std", false, false, true),
        pd("b64.adaptive.url", false, false, false),
        pd("b64.adaptive.nopad", false, false, false),
        pd("b64.simd_decoder", false, false, false),
        pd("b64.fn", false, false, false),
        // beyond the anchors: further byte parsers of the same subsystems
        pd("dzdict.deserialize", false, false, false),
        pd("simdenc.varint.decode", false, false, true),
        pd("simdenc.varint.decode_batch", true, false, false),
        pd("simdenc.base64.decode", false, false, false),
        pd("simdenc.base64.decode_from_buffer", false, false, false),
        pd("json.parse", false, false, true),
        pd("csv.parse_line", false, false, true),
        pd("adaptive.decompress", false, false, false),
        // coverage round: public entry points of the anchor files that were not bound (work/api_audit.txt)
        pd("huff.ctx.decode_with_interleaving.x4", true, false, false),
        pd("huff.ctx.decode_with_interleaving.o0", true, false, false),
        pd("fse.table.decode_symbol", false, false, true),
        pd("fse.table.renormalize_decode", false, false, true),
        pd("fse.decompress.parallel", false, false, false),
        pd("fse.decompress.parallel_default", false, false, false),
        pd("fse.decompress.realtime", false, false, false),
        pd("fse.decompress.balanced", false, false, false),
        pd("rans.decode_symbol", false, false, true),
        pd("simdlz77.cfg.high_performance.decompress", false, true, false),
        pd("simdlz77.cfg.low_latency.decompress", false, true, false),
        pd("simdlz77.cfg.maximum_parallelism.decompress", false, true, false),
        pd("simdlz77.cfg.with_dictionary.decompress", false, true, false),
        pd("dz.bitreader.read_bits", false, false, true),
        pd("dz.compression_type.from_u8", false, false, true),
        pd("zipoffset.load_from_file", false, false, false),
        pd("mmapvec.open_ro.u64", false, false, false),
        pd("mmapvec.open_mutate.u64", false, false, false),
        pd("mmapvec.open_mutate.u8", false, false, false),
        pd("complex.compat.hashmap", false, false, false),
        pd("complex.compat.option", false, false, false),
        pd("complex.fast.tuple2", false, false, false),
        pd("complex.new.btreemap", false, false, false),
        pd("smartptr.cfg.performance_optimized.rc_string", false, false, false),
        pd("smartptr.cfg.robust.box_vec_string", false, false, false),
        pd("smartptr.cfg.space_optimized.rc_vec_u32", false, false, false),
        pd("din.fn_slice.lp_string", false, false, true),
        pd("din.fn_reader.lp_bytes", false, false, false),
        pd("din.mmap.lp_string", false, false, false),
        pd("din.mmap.prims", false, false, false),
        pd("din.slice.prims", false, false, true),
        pd("din.reader.prims", false, false, true),
        pd("hex.parse_hex_byte", false, false, true),
        pd("hex.is_valid_hex", false, false, true),
        pd("hex.char_to_nibble", false, false, true),
        pd("dz.remove_fse_compression.pa_zip", false, false, true),
        pd("dz.remove_fse_compression.fast_pa_zip", false, false, false),
        pd("dz.fse_unzip_reference", true, false, false),
        pd("dz.fse.decompress.fast_pa_zip", false, true, false),
    ];
    // every container shape also with HEAP-OWNING element types (a decoder that fails on element k of n must
    // release exactly what it built: String / Vec / Box / Rc elements make a wrong drop a crash)
    for t in [
        "h_arr4_string",
        "h_arr2_vecu8",
        "h_arr3_optstring",
        "h_arr3_vecstring",
        "h_tuple_string_vecu8",
        "h_tuple_nested",
        "h_option_vecstring",
        "h_result_string_vecu8",
        "h_hashmap_string_vecu8",
        "h_btreemap_string_vecstring",
        "h_hashset_string",
        "h_btreeset_string",
    ] {
        v.push(pd(Box::leak(format!("complex.meta.{t}").into_boxed_str()), false, false, false));
        v.push(pd(Box::leak(format!("complex.raw.{t}").into_boxed_str()), false, false, false));
    }
    for n in [
        "complex.batchh.meta.arr4_string",
        "complex.batchh.raw.arr2_vecu8",
        "complex.batchh.raw.tuple_string_vecu8",
        "smartptr.h_arc_string",
        "smartptr.h_optbox_string",
        "smartptr.h_arc_vecu8",
        "smartptr.h_box_optstring",
        "smartptr.h_rc_vecvecstring",
        "smartptr.h_rc_hashmap_string_vecu8",
        "smartptr.h_box_box_string",
        "versioned.strict.hrec",
        "versioned.flexible.hrec",
        "versioned.proxy_string",
        "versioned.version",
    ] {
        v.push(pd(n, false, false, false));
    }
    for t in ["tuple2", "array4", "option", "result", "hashmap", "hashset", "btreemap", "btreeset"] {
        v.push(pd(Box::leak(format!("complex.meta.{t}").into_boxed_str()), false, false, false));
        v.push(pd(Box::leak(format!("complex.raw.{t}").into_boxed_str()), false, false, false));
    }
    for (s, _) in STRATS {
        for op in ["u64", "i64", "u64seq", "i64seq"] {
            v.push(pd(Box::leak(format!("vie.{s}.{op}").into_boxed_str()), false, false, s == "leb128"));
        }
    }
    // thorough tier: all 2^24 strings of length 3 for every parser without an expected-length argument
    // whose call costs microseconds (measured: <= 3 us per case including the harness overhead)
    const NO_RAW3: [&str; 11] = [
        "comp.rans.decompress",
        "comp.zstd1.decompress",
        "comp.zstd9.decompress",
        "huff.ctx.deserialize.o1",
        "huff.ctx.deserialize.o2",
        "simdlz77.x1.decompress",
        "simdlz77.x2.decompress",
        "simdlz77.x4.decompress",
        "simdlz77.x8.decompress",
        "simdlz77.global.decompress",
        "adaptive.decompress",
    ];
    for d in v.iter_mut() {
        d.raw3 = !d.olen && !d.slow() && !NO_RAW3.contains(&d.name);
    }
    v
}

type Runner = Box<dyn FnMut(&[u8], usize) -> bool>;

struct Setup {
    encs: Vec<Enc>,
    run: Runner,
}

struct EncList {
    v: Vec<Enc>,
    want: bool,
}
impl EncList {
    fn add(&mut self, payload: usize, bytes: Vec<u8>, olen: usize, aux: Vec<u8>) {
        let id = format!("e{}", self.v.len() + 1);
        self.v.push(Enc { id, payload, bytes, olen, aux });
    }
}

fn freqs_of(p: &[u8]) -> [u32; 256] {
    let mut f = [0u32; 256];
    for &b in p {
        f[b as usize] += 1;
    }
    f
}

fn lossy(x: &[u8]) -> String {
    String::from_utf8_lossy(x).into_owned()
}

fn rans_setup<P: ParallelVariant + 'static>(pl: &[Vec<u8>], cur: Option<&Enc>, el: &mut EncList) -> Runner {
    if el.want {
        for (pi, p) in pl.iter().enumerate() {
            if let Ok(e) = Rans64Encoder::<P>::new(&freqs_of(p)) {
                if let Ok(b) = e.encode(p) {
                    el.add(pi, b, p.len(), vec![]);
                }
            }
        }
    }
    let p = &pl[cur.map(|e| e.payload).unwrap_or(0)];
    match Rans64Encoder::<P>::new(&freqs_of(p)) {
        Ok(enc) => {
            let dec = Rans64Decoder::<P>::new(&enc);
            Box::new(move |x, n| dec.decode(x, n).is_ok())
        }
        Err(_) => Box::new(|_, _| false),
    }
}

fn ctx_encoder(p: &[u8], order: HuffmanOrder, cur: Option<&Enc>) -> Option<ContextualHuffmanEncoder> {
    // the context is rebuilt from what the parent serialised (same code tables as the encoding)
    if let Some(e) = cur {
        if !e.aux.is_empty() {
            if let Ok(Ok(enc)) = guard(|| ContextualHuffmanEncoder::deserialize(&e.aux)) {
                return Some(enc);
            }
        }
    }
    ContextualHuffmanEncoder::new(p, order).ok()
}

fn complex_setup<T: ComplexSerialize + 'static>(meta: bool, vals: Vec<T>, el: &mut EncList) -> Runner {
    let cfg = if meta { ComplexTypeConfig::safe() } else { ComplexTypeConfig::compact() };
    complex_setup_cfg(cfg, vals, el)
}

fn complex_setup_cfg<T: ComplexSerialize + 'static>(cfg: ComplexTypeConfig, vals: Vec<T>, el: &mut EncList) -> Runner {
    let ser = ComplexTypeSerializer::new(cfg);
    if el.want {
        for (i, v) in vals.iter().enumerate() {
            if let Ok(b) = ser.serialize_to_bytes(v) {
                el.add(i, b, 0, vec![]);
            }
        }
    }
    Box::new(move |x, _| ser.deserialize_from_bytes::<T>(x).is_ok())
}

fn smart_setup<T: SerializableType + 'static, P: SmartPtrSerialize<T> + 'static>(vals: Vec<P>, el: &mut EncList) -> Runner {
    smart_setup_cfg(zipora::io::SmartPtrConfig::default(), vals, el)
}

fn smart_setup_cfg<T: SerializableType + 'static, P: SmartPtrSerialize<T> + 'static>(cfg: zipora::io::SmartPtrConfig, vals: Vec<P>, el: &mut EncList) -> Runner {
    let ser = SmartPtrSerializer::new(cfg);
    if el.want {
        for (i, v) in vals.iter().enumerate() {
            if let Ok(b) = ser.serialize_to_bytes::<T, P>(v) {
                el.add(i, b, 0, vec![]);
            }
        }
    }
    Box::new(move |x, _| ser.deserialize_from_bytes::<T, P>(x).is_ok())
}

/// MmapVec::open on the given bytes, then - a loaded vector must be usable - what a user does with it.
/// mode open: read over the reported length; open_ro: the same under MmapVecConfig::read_only();
/// open_mutate: the mutating operations (pop / push / as_mut_slice / reserve / resize / truncate /
/// shrink_to_fit / clear) on the opened vector.
fn mmapvec_setup<T: Copy + 'static>(mode: String, mk: fn(usize) -> T, tmp: &Path, el: &mut EncList) -> Runner {
    let path = tmp.join("mmapvec.bin");
    if el.want {
        // small capacities: every byte of the 80-byte header and a few elements are mutated; the
        // mutating mode costs tens of milliseconds per case (file growth, sync)
        let (cap, ns): (usize, [usize; 3]) = if mode == "open_mutate" { (8, [3, 8, 5]) } else { (16, [5, 16, 11]) };
        for (i, n) in ns.iter().enumerate() {
            let p = tmp.join(format!("mmapvec-enc{i}.bin"));
            let cfg = MmapVecConfig { initial_capacity: cap, ..Default::default() };
            let ok = (|| -> zipora::error::Result<()> {
                let mut v = MmapVec::<T>::create(&p, cfg)?;
                for j in 0..*n {
                    v.push(mk(j))?;
                }
                v.sync()
            })();
            if ok.is_ok() {
                if let Ok(bytes) = fs::read(&p) {
                    el.add(i, bytes, 0, vec![]);
                }
            }
            let _ = fs::remove_file(&p);
        }
    }
    Box::new(move |x, _| {
        if fs::write(&path, x).is_err() {
            panic!("c15: cannot write scratch file");
        }
        let cfg = if mode == "open_ro" { MmapVecConfig::read_only() } else { MmapVecConfig { initial_capacity: 64, ..Default::default() } };
        match MmapVec::<T>::open(&path, cfg) {
            Ok(mut v) => {
                let n = v.len();
                let _ = (v.capacity(), v.memory_usage(), v.is_empty());
                let st = v.stats();
                std::hint::black_box(st.memory_efficiency());
                if n > 0 {
                    std::hint::black_box((v.get(0).copied(), v.get(n - 1).copied()));
                    let s = v.as_slice();
                    std::hint::black_box(s[s.len() / 2]);
                    std::hint::black_box((&v).into_iter().take(4096).count());
                }
                if mode == "open_mutate" {
                    let _ = v.pop();
                    let _ = v.push(mk(1));
                    {
                        let s = v.as_mut_slice();
                        if let Some(last) = s.last_mut() {
                            *last = mk(2);
                        }
                    }
                    let _ = v.reserve(8);
                    let _ = v.resize(n.min(4096) + 3, mk(3));
                    let _ = v.truncate(1);
                    let _ = v.shrink_to_fit();
                    let _ = v.clear();
                    let _ = v.push(mk(4));
                    let _ = v.sync();
                }
                true
            }
            Err(_) => false,
        }
    })
}

fn pazip_new() -> Option<PaZipCompressor> {
    let training = b"the quick brown fox jumps over the lazy dog. the quick brown fox jumps again.";
    let cfg = DictionaryBuilderConfig { target_dict_size: 2048, max_dict_size: 4096, validate_result: true, ..Default::default() };
    let dict = DzDictionaryBuilder::with_config(cfg).build(training).ok()?;
    let pool = SecureMemoryPool::new(SecurePoolConfig::new(4096, 1024, 8)).ok()?;
    PaZipCompressor::new(dict, PaZipCompressorConfig::balanced(), pool).ok()
}

fn sample_matches() -> Vec<Vec<Match>> {
    let mk = |v: Vec<zipora::error::Result<Match>>| -> Vec<Match> { v.into_iter().filter_map(|m| m.ok()).collect() };
    vec![
        mk(vec![Match::literal(5), Match::rle(65, 7), Match::near_short(3, 4), Match::far1_short(100, 9)]),
        mk(vec![
            Match::global(1234, 20),
            Match::far2_short(40000, 12),
            Match::far2_long(500, 300),
            Match::far3_long(70000, 1000),
            Match::literal(32),
            Match::near_short(9, 5),
        ]),
    ]
}

/// Builds the valid encodings (when `want_encs`) and the function that feeds bytes to parser `name`.
/// `cur` is the encoding the child works on (context = the decoder state that belongs to it).
fn setup(name: &str, pl: &[Vec<u8>], want_encs: bool, cur: Option<&Enc>, tmp: &Path) -> Setup {
    let mut el = EncList { v: vec![], want: want_encs };
    let cp = cur.map(|e| e.payload).unwrap_or(0).min(pl.len() - 1);
    let run: Runner = match name {
        // ---------------------------------------------------------------- coverage round
        "huff.ctx.decode_with_interleaving.x4" | "huff.ctx.decode_with_interleaving.o0" => {
            use zipora::entropy::huffman::InterleavingFactor;
            let x4 = name.ends_with("x4");
            let order = if x4 { HuffmanOrder::Order1 } else { HuffmanOrder::Order0 };
            if want_encs {
                for (pi, p) in pl.iter().enumerate() {
                    if let Ok(e) = ContextualHuffmanEncoder::new(p, HuffmanOrder::Order1) {
                        if let Ok(b) = e.encode_with_interleaving(p, InterleavingFactor::X4) {
                            let aux = if x4 { e.serialize() } else { ContextualHuffmanEncoder::new(p, order).map(|o| o.serialize()).unwrap_or_default() };
                            el.add(pi, b, p.len(), aux);
                        }
                    }
                }
            }
            match ctx_encoder(&pl[cp], order, cur) {
                // Order-0 encoder: the call must refuse (interleaving is Order-1 only), whatever the bytes
                Some(enc) => Box::new(move |x, n| enc.decode_with_interleaving(x, n, InterleavingFactor::X4).is_ok()),
                None => Box::new(|_, _| false),
            }
        }
        "fse.table.decode_symbol" | "fse.table.renormalize_decode" => {
            use zipora::entropy::fse::FseTable;
            // the state a decoder reads from the stream is 8 bytes of input
            if want_encs {
                el.add(0, 1u64.to_le_bytes().iter().chain(b"tail bytes of the stream".iter()).copied().collect(), 0, vec![]);
                el.add(1, 4095u64.to_le_bytes().iter().chain([0x12u8, 0x34, 0x56].iter()).copied().collect(), 0, vec![]);
            }
            match FseTable::new(&freqs_of(&pl[cp]), &FseConfig::default()) {
                Ok(t) => {
                    let sym = name.ends_with("decode_symbol");
                    Box::new(move |x, _| {
                        if x.len() < 8 {
                            return false;
                        }
                        let st = u64::from_le_bytes([x[0], x[1], x[2], x[3], x[4], x[5], x[6], x[7]]);
                        if sym {
                            let (s, next) = t.decode_symbol(st);
                            std::hint::black_box((s, next));
                            true
                        } else {
                            let mut pos = 0usize;
                            let mut state = st;
                            let mut steps = 0;
                            while let Some(ns) = t.renormalize_decode(state, &x[8..], &mut pos) {
                                state = ns;
                                steps += 1;
                                if steps > 64 || pos >= x.len() - 8 {
                                    break;
                                }
                            }
                            steps > 0
                        }
                    })
                }
                Err(_) => Box::new(|_, _| false),
            }
        }
        "fse.decompress.parallel" | "fse.decompress.parallel_default" | "fse.decompress.realtime" | "fse.decompress.balanced" => {
            // parallel: the block-structured stream (block count + block sizes) that compress() writes for
            // data beyond 2 blocks; reached here with a small block size instead of a 256 KiB payload
            let cfg = |nm: &str| -> FseConfig {
                if nm.contains("parallel") {
                    FseConfig { parallel_blocks: Some(2), block_size: 128, ..FseConfig::default() }
                } else if nm.ends_with("realtime") {
                    FseConfig::realtime()
                } else {
                    FseConfig::balanced()
                }
            };
            if want_encs {
                for (pi, p) in pl.iter().enumerate() {
                    let mut big = p.clone();
                    if name.contains("parallel") {
                        while big.len() <= 300 {
                            big.extend_from_slice(p);
                        }
                    }
                    if let Ok(b) = fse_compress_with_config(&big, cfg(name)) {
                        el.add(pi, b, 0, vec![]);
                    }
                }
            }
            if name.ends_with("parallel_default") {
                Box::new(|x, _| fse_decompress(x).is_ok())
            } else {
                let nm = name.to_string();
                Box::new(move |x, _| fse_decompress_with_config(x, cfg(&nm)).is_ok())
            }
        }
        "rans.decode_symbol" => {
            use zipora::entropy::rans::Rans64State;
            if want_encs {
                for (pi, p) in pl.iter().enumerate().take(2) {
                    if let Ok(e) = Rans64Encoder::<ParallelX1>::new(&freqs_of(p)) {
                        if let Ok(b) = e.encode(p) {
                            // layout of the single stream: payload bytes, then the 8-byte final state
                            el.add(pi, b, 0, vec![]);
                        }
                    }
                }
            }
            match Rans64Encoder::<ParallelX1>::new(&freqs_of(&pl[cp])) {
                Ok(enc) => {
                    let dec = Rans64Decoder::<ParallelX1>::new(&enc);
                    Box::new(move |x, _| {
                        if x.len() < 8 {
                            return false;
                        }
                        let n = x.len();
                        let st = u64::from_le_bytes([x[n - 8], x[n - 7], x[n - 6], x[n - 5], x[n - 4], x[n - 3], x[n - 2], x[n - 1]]);
                        let mut state = Rans64State::from_state(st);
                        let mut pos = n - 8;
                        let mut ok = 0;
                        for _ in 0..256 {
                            match dec.decode_symbol(&mut state, x, &mut pos) {
                                Ok(_) => ok += 1,
                                Err(_) => break,
                            }
                        }
                        let mut s2 = Rans64State::new();
                        s2.set_state(state.state());
                        std::hint::black_box((s2.needs_renorm_decode(), ok));
                        ok > 0
                    })
                }
                Err(_) => Box::new(|_, _| false),
            }
        }
        n if n.starts_with("simdlz77.cfg.") => {
            use zipora::compression::simd_lz77::SimdLz77Config;
            let which = n.split('.').nth(2).unwrap().to_string();
            let mk = move || -> Option<SimdLz77Compressor> {
                let cfg = match which.as_str() {
                    "high_performance" => SimdLz77Config::high_performance(),
                    "low_latency" => SimdLz77Config::low_latency(),
                    "maximum_parallelism" => SimdLz77Config::maximum_parallelism(),
                    _ => {
                        let text = b"the quick brown fox jumps over the lazy dog. the quick brown fox jumps again.";
                        let dc = DictionaryBuilderConfig { target_dict_size: 2048, max_dict_size: 4096, validate_result: true, ..Default::default() };
                        let d = DzDictionaryBuilder::with_config(dc).build(text).ok()?;
                        SimdLz77Config::with_dictionary(Arc::new(d), Arc::new(text.to_vec()))
                    }
                };
                SimdLz77Compressor::with_config(cfg).ok()
            };
            if want_encs {
                for (pi, p) in pl.iter().enumerate() {
                    if let Some(mut c) = mk() {
                        let r = if n.contains("with_dictionary") { c.compress_with_dictionary(p) } else { c.compress(p) };
                        if let Ok(b) = r {
                            el.add(pi, b, 0, vec![]);
                        }
                    }
                }
            }
            match mk() {
                Some(mut c) => Box::new(move |x, _| c.decompress(x).is_ok()),
                None => Box::new(|_, _| false),
            }
        }
        "dz.bitreader.read_bits" => {
            // first byte = the width asked for (0..=255: the API takes a u8), the rest = the bit stream
            if want_encs {
                el.add(0, vec![5, 0xA5, 0x5A, 0xFF, 0x00, 0x81, 0x7E, 0x33], 0, vec![]);
                el.add(1, vec![32, 1, 2, 3, 4, 5, 6, 7, 8, 9], 0, vec![]);
                el.add(2, vec![1, 0xF0], 0, vec![]);
            }
            Box::new(|x, _| {
                if x.is_empty() {
                    return false;
                }
                let w = x[0];
                let mut r = BitReader::new(&x[1..]);
                let mut n = 0;
                while n < 128 {
                    let had = r.has_bits(w);
                    match r.read_bits(w) {
                        Ok(v) => {
                            std::hint::black_box((v, had, r.bit_position()));
                            n += 1;
                        }
                        Err(_) => break,
                    }
                }
                n > 0
            })
        }
        "dz.compression_type.from_u8" => {
            use zipora::compression::dict_zip::CompressionType;
            if want_encs {
                el.add(0, vec![0], 0, vec![]);
                el.add(1, vec![7], 0, vec![]);
            }
            Box::new(|x, _| match x.first() {
                Some(&b) => match CompressionType::from_u8(b) {
                    Ok(t) => {
                        std::hint::black_box((t.name(), t.supports(x.len(), x.len())));
                        true
                    }
                    Err(_) => false,
                },
                None => false,
            })
        }
        "zipoffset.load_from_file" => {
            use zipora::blob_store::ZipOffsetBlobStoreConfig;
            let path = tmp.join("zipoffset.bin");
            if want_encs {
                // the real file writer, one store per configuration preset
                let presets = [ZipOffsetBlobStoreConfig::performance_optimized(), ZipOffsetBlobStoreConfig::compression_optimized(), ZipOffsetBlobStoreConfig::security_optimized()];
                for (i, cfg) in presets.into_iter().enumerate() {
                    let p = tmp.join(format!("zipoffset-enc{i}.bin"));
                    if let Ok(mut b) = ZipOffsetBlobStoreBuilder::with_config(cfg) {
                        let _ = b.add_record(&pl[0]);
                        let _ = b.add_record(b"second record");
                        if let Ok(mut st) = b.finish() {
                            let _ = st.put(&pl[0]);
                            if st.save_to_file(&p).is_ok() {
                                if let Ok(bytes) = fs::read(&p) {
                                    el.add(i, bytes, 0, vec![]);
                                }
                            }
                        }
                    }
                    let _ = fs::remove_file(&p);
                }
            }
            Box::new(move |x, _| {
                if fs::write(&path, x).is_err() {
                    panic!("c15: cannot write scratch file");
                }
                match ZipOffsetBlobStore::load_from_file(&path) {
                    Ok(st) => {
                        let n = st.len();
                        let _ = (st.memory_usage(), st.config().compress_level);
                        if n > 0 {
                            let _ = st.get(0);
                            let _ = st.get((n - 1) as u32);
                        }
                        true
                    }
                    Err(_) => false,
                }
            })
        }
        "complex.compat.hashmap" | "complex.compat.option" | "complex.fast.tuple2" | "complex.new.btreemap" => {
            let cfg = match name.split('.').nth(1).unwrap() {
                "compat" => ComplexTypeConfig::compatible(),
                "fast" => ComplexTypeConfig::fast(),
                _ => ComplexTypeConfig::new(),
            };
            let s = |x: &str| x.to_string();
            match name.rsplit('.').next().unwrap() {
                "hashmap" => {
                    let mut m = HashMap::new();
                    m.insert(1u32, s("one"));
                    m.insert(300u32, s("three hundred"));
                    complex_setup_cfg::<HashMap<u32, String>>(cfg, vec![m, HashMap::new()], &mut el)
                }
                "option" => complex_setup_cfg::<Option<String>>(cfg, vec![Some(s("some text")), None], &mut el),
                "tuple2" => complex_setup_cfg::<(u32, String)>(cfg, vec![(7, s("seven")), (u32::MAX, s(""))], &mut el),
                _ => {
                    let mut m = BTreeMap::new();
                    m.insert(s("a"), 1u32);
                    m.insert(s("bb"), 2u32);
                    complex_setup_cfg::<BTreeMap<String, u32>>(cfg, vec![m, BTreeMap::new()], &mut el)
                }
            }
        }
        "smartptr.cfg.performance_optimized.rc_string" => {
            smart_setup_cfg::<String, Rc<String>>(zipora::io::SmartPtrConfig::performance_optimized(), vec![Rc::new("shared text".to_string()), Rc::new("x".to_string())], &mut el)
        }
        "smartptr.cfg.robust.box_vec_string" => smart_setup_cfg::<Vec<String>, Box<Vec<String>>>(
            zipora::io::SmartPtrConfig::robust(),
            vec![Box::new(vec!["a".to_string(), "bc".to_string(), "def".to_string()]), Box::new(vec![])],
            &mut el,
        ),
        "smartptr.cfg.space_optimized.rc_vec_u32" => {
            smart_setup_cfg::<Vec<u32>, Rc<Vec<u32>>>(zipora::io::SmartPtrConfig::space_optimized(), vec![Rc::new(vec![1, 2, 3, 400]), Rc::new(vec![])], &mut el)
        }
        "din.fn_slice.lp_string" | "din.fn_reader.lp_bytes" | "din.mmap.lp_string" | "din.mmap.prims" | "din.slice.prims" | "din.reader.prims" => {
            use zipora::io::DataOutput;
            if want_encs {
                if name.ends_with("prims") {
                    // u8 (used as a skip count), u16, u32, u64, varint, <skip>, length-prefixed bytes, 3 raw bytes
                    for (i, skip) in [2u8, 0u8].iter().enumerate() {
                        let mut o = zipora::io::VecDataOutput::new();
                        let _ = o.write_u8(*skip);
                        let _ = o.write_u16(0xBEEF);
                        let _ = o.write_u32(0xDEAD_BEEF);
                        let _ = o.write_u64(u64::MAX - 1);
                        let _ = o.write_var_int(300);
                        let _ = o.write_bytes(&vec![0xEE; *skip as usize]);
                        let _ = o.write_length_prefixed_bytes(b"payload");
                        let _ = o.write_bytes(b"end");
                        el.add(i, o.into_vec(), 0, vec![]);
                    }
                } else {
                    for (i, txt) in ["length prefixed text", "x"].iter().enumerate() {
                        let mut o = zipora::io::VecDataOutput::new();
                        let _ = o.write_length_prefixed_string(txt);
                        el.add(i, o.into_vec(), 0, vec![]);
                    }
                }
            }
            fn prims<I: DataInput>(i: &mut I) -> zipora::error::Result<()> {
                let k = i.read_u8()? as usize;
                let _ = i.read_u16()?;
                let _ = i.read_u32()?;
                let _ = i.read_u64()?;
                let _ = i.read_var_int()?;
                i.skip(k)?;
                let _ = i.read_length_prefixed_bytes()?;
                let mut b = [0u8; 3];
                i.read_bytes(&mut b)?;
                std::hint::black_box((i.position(), i.has_remaining()));
                Ok(())
            }
            let path = tmp.join("din.bin");
            match name {
                "din.fn_slice.lp_string" => Box::new(|x, _| {
                    let mut i = zipora::io::from_slice(x);
                    let r = i.read_length_prefixed_string().is_ok();
                    std::hint::black_box((i.remaining(), i.has_more(), i.remaining_slice().len(), i.pos()));
                    r
                }),
                "din.fn_reader.lp_bytes" => Box::new(|x, _| {
                    let mut i = zipora::io::from_reader(Cursor::new(x));
                    let r = i.read_length_prefixed_bytes().is_ok();
                    std::hint::black_box(i.pos());
                    r
                }),
                "din.slice.prims" => Box::new(|x, _| prims(&mut SliceDataInput::new(x)).is_ok()),
                "din.reader.prims" => Box::new(|x, _| prims(&mut ReaderDataInput::new(Cursor::new(x))).is_ok()),
                _ => {
                    let lp = name.ends_with("lp_string");
                    Box::new(move |x, _| {
                        if fs::write(&path, x).is_err() {
                            panic!("c15: cannot write scratch file");
                        }
                        // an empty file cannot be mapped: from_file refuses it
                        match zipora::io::from_file(&path) {
                            Ok(mut i) => {
                                let r = if lp { i.read_length_prefixed_string().is_ok() } else { prims(&mut i).is_ok() };
                                std::hint::black_box((i.remaining(), i.len(), i.pos(), i.remaining_slice().len()));
                                r
                            }
                            Err(_) => false,
                        }
                    })
                }
            }
        }
        "hex.parse_hex_byte" | "hex.is_valid_hex" | "hex.char_to_nibble" => {
            use zipora::string::{hex_char_to_nibble, hex_encode_upper, is_valid_hex, parse_hex_byte};
            if want_encs {
                el.add(0, hex_encode_upper(&pl[cp.min(pl.len() - 1)][..8]).into_bytes(), 0, vec![]);
                el.add(1, b"a7".to_vec(), 0, vec![]);
            }
            match name {
                "hex.parse_hex_byte" => Box::new(|x, _| x.len() >= 2 && parse_hex_byte(x[0], x[1]).is_some()),
                "hex.is_valid_hex" => Box::new(|x, _| is_valid_hex(&lossy(x))),
                _ => Box::new(|x, _| !x.is_empty() && x.iter().all(|&b| hex_char_to_nibble(b).is_some())),
            }
        }
        n if n.starts_with("complex.meta.h_") || n.starts_with("complex.raw.h_") => {
            let meta = n.starts_with("complex.meta.");
            let s = |x: &str| x.to_string();
            let vs = |x: &[&str]| -> Vec<String> { x.iter().map(|y| y.to_string()).collect() };
            // three or more elements each, so that a truncation / an invalid byte / a maximised length hits the
            // first, a middle and the last element (the error path after some elements were built)
            match n.rsplit('.').next().unwrap() {
                "h_arr4_string" => complex_setup::<[String; 4]>(
                    meta,
                    vec![[s("first element"), s("second"), s("third one, a little longer than the others"), s("last")], [s(""), s("x"), s(""), s("yz")]],
                    &mut el,
                ),
                "h_arr2_vecu8" => complex_setup::<[Vec<u8>; 2]>(meta, vec![[vec![1, 2, 3, 4, 5, 6, 7, 8, 9], vec![0xFF; 20]], [vec![], vec![7]]], &mut el),
                "h_arr3_optstring" => {
                    complex_setup::<[Option<String>; 3]>(meta, vec![[Some(s("some")), None, Some(s("more text here"))], [None, None, Some(s("z"))]], &mut el)
                }
                "h_arr3_vecstring" => complex_setup::<[Vec<String>; 3]>(
                    meta,
                    vec![[vs(&["a", "bb", "ccc"]), vs(&[]), vs(&["dddd dddd dddd dddd", "e"])], [vs(&["only"]), vs(&["x", "y"]), vs(&[])]],
                    &mut el,
                ),
                "h_tuple_string_vecu8" => complex_setup::<(String, Vec<u8>)>(meta, vec![(s("tuple text"), vec![9, 8, 7, 6, 5]), (s(""), vec![])], &mut el),
                "h_tuple_nested" => complex_setup::<(Vec<Vec<String>>, Option<String>, Box<String>)>(
                    meta,
                    vec![
                        (vec![vs(&["a", "bc"]), vs(&[]), vs(&["def", "gh", "i"])], Some(s("opt")), Box::new(s("boxed"))),
                        (vec![vs(&["solo"])], None, Box::new(s(""))),
                    ],
                    &mut el,
                ),
                "h_option_vecstring" => complex_setup::<Option<Vec<String>>>(meta, vec![Some(vs(&["one", "two", "three"])), None], &mut el),
                "h_result_string_vecu8" => {
                    complex_setup::<std::result::Result<String, Vec<u8>>>(meta, vec![Ok(s("fine text")), Err(vec![1, 2, 3, 4, 5, 6])], &mut el)
                }
                "h_hashmap_string_vecu8" => {
                    let mut m = HashMap::new();
                    m.insert(s("alpha"), vec![1u8, 2, 3]);
                    m.insert(s("beta"), vec![]);
                    m.insert(s("gamma gamma"), vec![0xAB; 12]);
                    let mut m2 = HashMap::new();
                    m2.insert(s("k"), vec![1u8]);
                    complex_setup::<HashMap<String, Vec<u8>>>(meta, vec![m, m2], &mut el)
                }
                "h_btreemap_string_vecstring" => {
                    let mut m = BTreeMap::new();
                    m.insert(s("a"), vs(&["x", "yy"]));
                    m.insert(s("bb"), vs(&[]));
                    m.insert(s("ccc"), vs(&["zzz zzz", "w", "v"]));
                    let mut m2 = BTreeMap::new();
                    m2.insert(s("k"), vs(&["v"]));
                    complex_setup::<BTreeMap<String, Vec<String>>>(meta, vec![m, m2], &mut el)
                }
                "h_hashset_string" => {
                    complex_setup::<HashSet<String>>(meta, vec![vs(&["red", "green", "blue blue"]).into_iter().collect(), vs(&["k"]).into_iter().collect()], &mut el)
                }
                _ => complex_setup::<BTreeSet<String>>(meta, vec![vs(&["red", "green", "blue blue"]).into_iter().collect(), vs(&["k"]).into_iter().collect()], &mut el),
            }
        }
        "complex.batchh.meta.arr4_string" | "complex.batchh.raw.arr2_vecu8" | "complex.batchh.raw.tuple_string_vecu8" => {
            let meta = name.contains(".meta.");
            let cfg = if meta { ComplexTypeConfig::safe() } else { ComplexTypeConfig::compact() };
            let ser = ComplexTypeSerializer::new(cfg);
            let s = |x: &str| x.to_string();
            fn batch<T: ComplexSerialize + 'static>(ser: ComplexTypeSerializer, vals: Vec<T>, el: &mut EncList) -> Runner {
                if el.want {
                    if let Ok(b) = ser.serialize_batch(&vals) {
                        el.add(0, b, 0, vec![]);
                    }
                    if let Ok(b) = ser.serialize_batch(&vals[..1]) {
                        el.add(1, b, 0, vec![]);
                    }
                }
                Box::new(move |x, _| ser.deserialize_batch::<T>(x).is_ok())
            }
            match name.rsplit('.').next().unwrap() {
                "arr4_string" => batch::<[String; 4]>(
                    ser,
                    vec![[s("a"), s("bb"), s("ccc"), s("dddd")], [s(""), s(""), s("x"), s("")], [s("last"), s("record"), s("of the"), s("batch")]],
                    &mut el,
                ),
                "arr2_vecu8" => batch::<[Vec<u8>; 2]>(ser, vec![[vec![1, 2, 3], vec![4]], [vec![], vec![5; 9]], [vec![6, 7], vec![]]], &mut el),
                _ => batch::<(String, Vec<u8>)>(ser, vec![(s("one"), vec![1]), (s("two two"), vec![2, 2]), (s(""), vec![3, 3, 3])], &mut el),
            }
        }
        "smartptr.h_arc_string" => smart_setup::<String, Arc<String>>(vec![Arc::new("atomically shared".to_string()), Arc::new(String::new())], &mut el),
        "smartptr.h_optbox_string" => smart_setup::<String, Option<Box<String>>>(vec![Some(Box::new("maybe boxed".to_string())), None], &mut el),
        "smartptr.h_arc_vecu8" => smart_setup::<Vec<u8>, Arc<Vec<u8>>>(vec![Arc::new(vec![1, 2, 3, 4, 5, 6, 7]), Arc::new(vec![])], &mut el),
        "smartptr.h_box_optstring" => smart_setup::<Option<String>, Box<Option<String>>>(vec![Box::new(Some("inner".to_string())), Box::new(None)], &mut el),
        "smartptr.h_rc_vecvecstring" => smart_setup::<Vec<Vec<String>>, Rc<Vec<Vec<String>>>>(
            vec![
                Rc::new(vec![vec!["a".to_string(), "bc".to_string()], vec![], vec!["def".to_string(), "g".to_string(), "hi".to_string()]]),
                Rc::new(vec![vec!["solo".to_string()]]),
            ],
            &mut el,
        ),
        "smartptr.h_rc_hashmap_string_vecu8" => {
            let mut m = HashMap::new();
            m.insert("alpha".to_string(), vec![1u8, 2, 3]);
            m.insert("beta".to_string(), vec![]);
            m.insert("gamma".to_string(), vec![9u8; 6]);
            smart_setup::<HashMap<String, Vec<u8>>, Rc<HashMap<String, Vec<u8>>>>(vec![Rc::new(m), Rc::new(HashMap::new())], &mut el)
        }
        "smartptr.h_box_box_string" => {
            smart_setup::<Box<String>, Box<Box<String>>>(vec![Box::new(Box::new("twice boxed".to_string())), Box::new(Box::new(String::new()))], &mut el)
        }
        "versioned.strict.hrec" | "versioned.flexible.hrec" | "versioned.proxy_string" | "versioned.version" => {
            use zipora::io::versioning::{Version, VersionConfig, VersionManager, VersionProxy, VersionedSerialize, VersionedSerializer};
            use zipora::io::{DataOutput, VecDataOutput};
            /// a record whose every field owns heap memory, the last one added in a later version
            struct HRec {
                id: u32,
                name: String,
                tags: Vec<String>,
                note: Option<String>,
            }
            impl VersionedSerialize for HRec {
                fn current_version() -> Version {
                    Version::new(1, 2, 0)
                }
                fn serialize_with_manager<O: DataOutput>(&self, m: &mut VersionManager, o: &mut O) -> zipora::error::Result<()> {
                    m.register_field("note", Version::new(1, 1, 0));
                    m.serialize_field("id", &self.id, o)?;
                    m.serialize_field("name", &self.name, o)?;
                    m.serialize_field("tags", &self.tags, o)?;
                    m.serialize_field("note", &self.note, o)
                }
                fn deserialize_with_manager<I: DataInput>(m: &mut VersionManager, i: &mut I) -> zipora::error::Result<Self> {
                    m.register_field("note", Version::new(1, 1, 0));
                    let id = m.deserialize_field::<u32, _>("id", i)?.unwrap_or(0);
                    let name = m.deserialize_field::<String, _>("name", i)?.unwrap_or_default();
                    let tags = m.deserialize_field::<Vec<String>, _>("tags", i)?.unwrap_or_default();
                    let note = m.deserialize_field::<Option<String>, _>("note", i)?.unwrap_or(None);
                    Ok(HRec { id, name, tags, note })
                }
            }
            let recs = || {
                vec![
                    HRec { id: 7, name: "record name".into(), tags: vec!["t1".into(), "tag two".into(), "t3".into()], note: Some("a note".into()) },
                    HRec { id: 0, name: String::new(), tags: vec![], note: None },
                ]
            };
            match name {
                "versioned.proxy_string" => {
                    if want_encs {
                        for (i, t) in ["proxied text", ""].iter().enumerate() {
                            let mut o = VecDataOutput::new();
                            let px = VersionProxy::new(t.to_string(), Version::new(1, 0, 0));
                            if px.serialize(&mut o).is_ok() {
                                el.add(i, o.into_vec(), 0, vec![]);
                            }
                        }
                    }
                    Box::new(|x, _| <VersionProxy<String> as SerializableType>::deserialize(&mut SliceDataInput::new(x)).is_ok())
                }
                "versioned.version" => {
                    if want_encs {
                        for (i, v) in [Version::new(1, 2, 3), Version::new(255, 255, 65535)].iter().enumerate() {
                            let mut o = VecDataOutput::new();
                            if v.serialize(&mut o).is_ok() {
                                el.add(i, o.into_vec(), 0, vec![]);
                            }
                        }
                    }
                    Box::new(|x, _| <Version as SerializableType>::deserialize(&mut SliceDataInput::new(x)).is_ok())
                }
                _ => {
                    let cfg = || if name.contains("strict") { VersionConfig::strict() } else { VersionConfig::flexible() };
                    if want_encs {
                        let ser = VersionedSerializer::new(cfg());
                        for (i, r) in recs().iter().enumerate() {
                            if let Ok(b) = ser.serialize_to_bytes(r) {
                                el.add(i, b, 0, vec![]);
                            }
                        }
                    }
                    let ser = VersionedSerializer::new(cfg());
                    Box::new(move |x, _| match ser.deserialize_from_bytes::<HRec>(x) {
                        Ok(r) => {
                            std::hint::black_box((r.id, r.name.len(), r.tags.len(), r.note.is_some()));
                            true
                        }
                        Err(_) => false,
                    })
                }
            }
        }
        "dz.remove_fse_compression.pa_zip" | "dz.remove_fse_compression.fast_pa_zip" | "dz.fse_unzip_reference" | "dz.fse.decompress.fast_pa_zip" => {
            use zipora::compression::dict_zip::compression_types::{apply_fse_compression, fse_unzip_reference, remove_fse_compression, FseConfig as DzFseConfig};
            let fast = name.ends_with("fast_pa_zip");
            let cfg = move || if fast { DzFseConfig::fast_pa_zip() } else { DzFseConfig::for_pa_zip() };
            if want_encs {
                // the three framings of apply_fse_compression: "UN" stored (< 32 bytes), "FS" coded, "UN" when coding does not pay
                let mut srcs: Vec<Vec<u8>> = vec![pl[0].clone(), pl[pl.len().min(3) - 1].clone()];
                srcs.push((0..200u32).map(|i| (i.wrapping_mul(2654435761) >> 24) as u8).collect());
                for (pi, p) in srcs.iter().enumerate() {
                    if name.starts_with("dz.fse.decompress") {
                        if let Ok(mut c) = DzFseCompressor::with_config(cfg()) {
                            if let Ok(b) = c.compress(p) {
                                el.add(pi, b, p.len(), vec![]);
                            }
                        }
                    } else if let Ok(b) = apply_fse_compression(p, &cfg()) {
                        el.add(pi, b, p.len(), vec![]);
                    }
                }
            }
            match name {
                "dz.fse_unzip_reference" => Box::new(|x, n| {
                    // the caller's buffer has the expected size (bounded: the argument is only a buffer length)
                    let mut out = vec![0u8; n.min(1 << 16)];
                    fse_unzip_reference(x, &mut out).is_ok()
                }),
                "dz.fse.decompress.fast_pa_zip" => match DzFseCompressor::with_config(cfg()) {
                    Ok(mut c) => Box::new(move |x, _| c.decompress(x).is_ok()),
                    Err(_) => Box::new(|_, _| false),
                },
                _ => Box::new(move |x, _| remove_fse_compression(x, &cfg()).is_ok()),
            }
        }
        // ---------------------------------------------------------------- first round
        "huff.tree.deserialize" => {
            if want_encs {
                for (pi, p) in pl.iter().enumerate() {
                    if let Ok(t) = HuffmanTree::from_data(p) {
                        el.add(pi, t.serialize(), 0, vec![]);
                    }
                }
            }
            Box::new(|x, _| HuffmanTree::deserialize(x).is_ok())
        }
        "huff.ctx.deserialize.o0" | "huff.ctx.deserialize.o1" | "huff.ctx.deserialize.o2" => {
            let order = match &name[name.len() - 1..] {
                "0" => HuffmanOrder::Order0,
                "1" => HuffmanOrder::Order1,
                _ => HuffmanOrder::Order2,
            };
            if want_encs {
                // one tree per context: the serialisation of longer texts runs to tens of kilobytes
                let mut small: Vec<Vec<u8>> = vec![b"abcabcab".to_vec(), b"aabba".to_vec()];
                if pl.len() > 4 {
                    // thorough tier (6 payloads): one realistic text as well
                    small.push(b"abracadabra abracadabra".to_vec());
                }
                for (pi, p) in small.iter().enumerate() {
                    if let Ok(e) = ContextualHuffmanEncoder::new(p, order) {
                        el.add(pi, e.serialize(), 0, vec![]);
                    }
                }
            }
            Box::new(|x, _| ContextualHuffmanEncoder::deserialize(x).is_ok())
        }
        "huff.decode" => {
            if want_encs {
                for (pi, p) in pl.iter().enumerate() {
                    if let Ok(e) = HuffmanEncoder::new(p) {
                        if let Ok(b) = e.encode(p) {
                            el.add(pi, b, p.len(), e.tree().serialize());
                        }
                    }
                }
            }
            let tree = match cur {
                Some(e) if !e.aux.is_empty() => HuffmanTree::deserialize(&e.aux).ok(),
                _ => HuffmanTree::from_data(&pl[cp]).ok(),
            };
            match tree {
                Some(t) => {
                    let dec = HuffmanDecoder::new(t);
                    Box::new(move |x, n| dec.decode(x, n).is_ok())
                }
                None => Box::new(|_, _| false),
            }
        }
        "huff.ctx.decode.o0" | "huff.ctx.decode.o1" | "huff.ctx.decode.o2" => {
            let order = match &name[name.len() - 1..] {
                "0" => HuffmanOrder::Order0,
                "1" => HuffmanOrder::Order1,
                _ => HuffmanOrder::Order2,
            };
            if want_encs {
                for (pi, p) in pl.iter().enumerate() {
                    if let Ok(e) = ContextualHuffmanEncoder::new(p, order) {
                        if let Ok(b) = e.encode(p) {
                            el.add(pi, b, p.len(), e.serialize());
                        }
                    }
                }
            }
            match ctx_encoder(&pl[cp], order, cur) {
                Some(enc) => {
                    let dec = ContextualHuffmanDecoder::new(enc);
                    Box::new(move |x, n| dec.decode(x, n).is_ok())
                }
                None => Box::new(|_, _| false),
            }
        }
        "huff.ctx.decode_x1" | "huff.ctx.decode_x2" | "huff.ctx.decode_x4" | "huff.ctx.decode_x8" => {
            let f: u32 = name[name.len() - 1..].parse().unwrap();
            if want_encs {
                for (pi, p) in pl.iter().enumerate() {
                    if let Ok(e) = ContextualHuffmanEncoder::new(p, HuffmanOrder::Order1) {
                        let r = match f {
                            1 => e.encode_x1(p),
                            2 => e.encode_x2(p),
                            4 => e.encode_x4(p),
                            _ => e.encode_x8(p),
                        };
                        if let Ok(b) = r {
                            el.add(pi, b, p.len(), e.serialize());
                        }
                    }
                }
            }
            match ctx_encoder(&pl[cp], HuffmanOrder::Order1, cur) {
                Some(enc) => Box::new(move |x, n| {
                    match f {
                        1 => enc.decode_x1(x, n),
                        2 => enc.decode_x2(x, n),
                        4 => enc.decode_x4(x, n),
                        _ => enc.decode_x8(x, n),
                    }
                    .is_ok()
                }),
                None => Box::new(|_, _| false),
            }
        }
        "dict.deserialize" => {
            if want_encs {
                for (pi, p) in pl.iter().enumerate() {
                    let d = DictionaryBuilder::new().build(p);
                    let mut b = d.serialize();
                    if d.is_empty() {
                        // a dictionary with two hand-made entries, serialised by the real encoder
                        let mut d2 = Dictionary::new();
                        d2.insert(b"abra".to_vec(), zipora::entropy::dictionary::DictionaryEntry::new(0, 4));
                        d2.insert(b"cadabra".to_vec(), zipora::entropy::dictionary::DictionaryEntry::new(4, 7));
                        b = d2.serialize();
                    }
                    el.add(pi, b, 0, vec![]);
                }
            }
            Box::new(|x, _| Dictionary::deserialize(x).is_ok())
        }
        "dict.decompress" => {
            let c = DictionaryCompressor::new(DictionaryBuilder::new().build(&pl[cp]));
            if want_encs {
                for (pi, p) in pl.iter().enumerate() {
                    let c2 = DictionaryCompressor::new(DictionaryBuilder::new().build(p));
                    if let Ok(b) = c2.compress(p) {
                        el.add(pi, b, 0, vec![]);
                    }
                }
            }
            Box::new(move |x, _| c.decompress(x).is_ok())
        }
        "dict.opt.decompress" => {
            if want_encs {
                for (pi, p) in pl.iter().enumerate() {
                    if let Ok(c2) = OptimizedDictionaryCompressor::new(p) {
                        if let Ok(b) = c2.compress(p) {
                            el.add(pi, b, 0, vec![]);
                        }
                    }
                }
            }
            match OptimizedDictionaryCompressor::new(&pl[cp]) {
                Ok(c) => Box::new(move |x, _| c.decompress(x).is_ok()),
                Err(_) => Box::new(|_, _| false),
            }
        }
        "fse.decompress" | "fse.unzip" => {
            if want_encs {
                for (pi, p) in pl.iter().enumerate() {
                    if let Ok(b) = fse_compress(p) {
                        el.add(pi, b, 0, vec![]);
                    }
                }
            }
            if name == "fse.unzip" {
                Box::new(|x, _| fse_unzip(x).is_ok())
            } else {
                Box::new(|x, _| fse_decompress(x).is_ok())
            }
        }
        "fse.decompress.fast" | "fse.decompress.high" => {
            let cfg = || if name.ends_with("fast") { FseConfig::fast_compression() } else { FseConfig::high_compression() };
            if want_encs {
                for (pi, p) in pl.iter().enumerate() {
                    if let Ok(b) = fse_compress_with_config(p, cfg()) {
                        el.add(pi, b, 0, vec![]);
                    }
                }
            }
            let fast = name.ends_with("fast");
            Box::new(move |x, _| {
                let c = if fast { FseConfig::fast_compression() } else { FseConfig::high_compression() };
                fse_decompress_with_config(x, c).is_ok()
            })
        }
        "dz.fse.decompress" => {
            if want_encs {
                for (pi, p) in pl.iter().enumerate() {
                    if let Ok(mut c) = DzFseCompressor::new() {
                        if let Ok(b) = c.compress(p) {
                            el.add(pi, b, 0, vec![]);
                        }
                    }
                }
            }
            match DzFseCompressor::new() {
                Ok(mut c) => Box::new(move |x, _| c.decompress(x).is_ok()),
                Err(_) => Box::new(|_, _| false),
            }
        }
        "rans.decode.x1" => rans_setup::<ParallelX1>(pl, cur, &mut el),
        "rans.decode.x2" => rans_setup::<ParallelX2>(pl, cur, &mut el),
        "rans.decode.x4" => rans_setup::<ParallelX4>(pl, cur, &mut el),
        "rans.decode.x8" => rans_setup::<ParallelX8>(pl, cur, &mut el),
        n if n.starts_with("comp.") => {
            let algo = match n {
                "comp.none.decompress" => Algorithm::None,
                "comp.lz4.decompress" => Algorithm::Lz4,
                "comp.zstd1.decompress" => Algorithm::Zstd(1),
                "comp.zstd9.decompress" => Algorithm::Zstd(9),
                "comp.huffman.decompress" => Algorithm::Huffman,
                "comp.rans.decompress" => Algorithm::Rans,
                "comp.dictionary.decompress" => Algorithm::Dictionary,
                "comp.hybrid.decompress" => Algorithm::Hybrid,
                _ => Algorithm::SimdLz77,
            };
            if want_encs {
                for (pi, p) in pl.iter().enumerate() {
                    if let Ok(c) = CompressorFactory::create(algo, Some(p)) {
                        if let Ok(b) = c.compress(p) {
                            el.add(pi, b, 0, vec![]);
                        }
                    }
                }
            }
            match CompressorFactory::create(algo, Some(&pl[cp])) {
                Ok(c) => Box::new(move |x, _| c.decompress(x).is_ok()),
                Err(_) => Box::new(|_, _| false),
            }
        }
        "simdlz77.decompress" | "simdlz77.x1.decompress" | "simdlz77.x2.decompress" | "simdlz77.x4.decompress" | "simdlz77.x8.decompress"
        | "simdlz77.global.decompress" => {
            if want_encs {
                for (pi, p) in pl.iter().enumerate() {
                    if let Ok(mut c) = SimdLz77Compressor::new() {
                        if let Ok(b) = c.compress(p) {
                            el.add(pi, b, 0, vec![]);
                        }
                    }
                }
            }
            match name {
                "simdlz77.decompress" => match SimdLz77Compressor::new() {
                    Ok(mut c) => Box::new(move |x, _| c.decompress(x).is_ok()),
                    Err(_) => Box::new(|_, _| false),
                },
                "simdlz77.x1.decompress" => match SimdLz77CompressorX1::new() {
                    Ok(mut c) => Box::new(move |x, _| c.decompress(x).is_ok()),
                    Err(_) => Box::new(|_, _| false),
                },
                "simdlz77.x2.decompress" => match SimdLz77CompressorX2::new() {
                    Ok(mut c) => Box::new(move |x, _| c.decompress(x).is_ok()),
                    Err(_) => Box::new(|_, _| false),
                },
                "simdlz77.x4.decompress" => match SimdLz77CompressorX4::new() {
                    Ok(mut c) => Box::new(move |x, _| c.decompress(x).is_ok()),
                    Err(_) => Box::new(|_, _| false),
                },
                "simdlz77.x8.decompress" => match SimdLz77CompressorX8::new() {
                    Ok(mut c) => Box::new(move |x, _| c.decompress(x).is_ok()),
                    Err(_) => Box::new(|_, _| false),
                },
                _ => Box::new(|x, _| decompress_with_simd_lz77(x).is_ok()),
            }
        }
        "pazip.decompress" => {
            if want_encs {
                for (pi, p) in pl.iter().enumerate() {
                    if let Some(mut c) = pazip_new() {
                        let mut out = Vec::new();
                        if c.compress(p, &mut out).is_ok() && !out.is_empty() {
                            el.add(pi, out, 0, vec![]);
                        }
                    }
                }
            }
            match pazip_new() {
                Some(mut c) => Box::new(move |x, _| {
                    let mut out = Vec::new();
                    c.decompress(x, &mut out).is_ok()
                }),
                None => Box::new(|_, _| false),
            }
        }
        "dz.decode_matches" | "dz.decode_match" => {
            if want_encs {
                for (i, ms) in sample_matches().iter().enumerate() {
                    if let Ok((b, _)) = encode_matches(ms) {
                        el.add(i, b, 0, vec![]);
                    }
                }
            }
            if name == "dz.decode_matches" {
                Box::new(|x, _| decode_matches(x).is_ok())
            } else {
                Box::new(|x, _| {
                    let mut r = BitReader::new(x);
                    decode_match(&mut r).is_ok()
                })
            }
        }
        "zipoffset.load_from_reader" => {
            if want_encs {
                for (pi, p) in pl.iter().enumerate() {
                    // the real writer: a store built by the builder (+ put where the store takes it)
                    if let Ok(mut b) = ZipOffsetBlobStoreBuilder::new() {
                        let _ = b.add_record(p);
                        let _ = b.add_record(b"second record");
                        if let Ok(mut st) = b.finish() {
                            let _ = st.put(p);
                            let mut out = Vec::new();
                            if st.save_to_writer(&mut out).is_ok() {
                                el.add(pi, out, 0, vec![]);
                            }
                        }
                    }
                }
            }
            Box::new(|x, _| match ZipOffsetBlobStore::load_from_reader(&mut Cursor::new(x)) {
                Ok(st) => {
                    // a loaded store must be usable: touch what it claims to hold
                    let n = st.len();
                    if n > 0 {
                        let _ = st.get(0);
                        let _ = st.get((n - 1) as u32);
                    }
                    true
                }
                Err(_) => false,
            })
        }
        "zreorder.open" => {
            let path = tmp.join("zreorder.bin");
            if want_encs {
                for (i, (n, sign)) in [(40usize, 1i64), (25usize, -1i64)].iter().enumerate() {
                    let p = tmp.join(format!("zreorder-enc{i}.bin"));
                    let ok = (|| -> zipora::error::Result<()> {
                        let mut b = ZReorderMapBuilder::new(&p, *n, *sign)?;
                        for j in 0..*n {
                            // runs of consecutive values and jumps
                            let v = if *sign == 1 { (j / 5) * 100 + j % 5 } else { 1000 - ((j / 5) * 100 + j % 5) };
                            b.push(v)?;
                        }
                        b.finish()
                    })();
                    if ok.is_ok() {
                        if let Ok(bytes) = fs::read(&p) {
                            el.add(i, bytes, 0, vec![]);
                        }
                    }
                    let _ = fs::remove_file(&p);
                }
            }
            Box::new(move |x, _| {
                if fs::write(&path, x).is_err() {
                    panic!("c15: cannot write scratch file");
                }
                match ZReorderMap::open(&path) {
                    Ok(m) => {
                        let _ = m.size();
                        // walk what the header declares (bounded: a huge declared size is not walked to the end)
                        let mut m = m;
                        let mut k = 0;
                        while !m.eof() && k < 4096 {
                            let _ = m.current();
                            let _ = m.index();
                            if m.next().is_none() {
                                break;
                            }
                            k += 1;
                        }
                        // a second pass after rewind (re-reads the header and the first entry)
                        if m.rewind().is_ok() {
                            for (k, _v) in m.enumerate() {
                                if k >= 4096 {
                                    break;
                                }
                            }
                        }
                        true
                    }
                    Err(_) => false,
                }
            })
        }
        "mmapvec.open.u64" | "mmapvec.open_ro.u64" | "mmapvec.open_mutate.u64" => {
            let mode = name.split('.').nth(1).unwrap().to_string();
            mmapvec_setup::<u64>(mode, |j| 0x0101_0101_0101_0101u64.wrapping_mul(j as u64 + 1), tmp, &mut el)
        }
        "mmapvec.open.u8" | "mmapvec.open_mutate.u8" => {
            let mode = name.split('.').nth(1).unwrap().to_string();
            mmapvec_setup::<u8>(mode, |j| j as u8 + 1, tmp, &mut el)
        }
        "varint.decode" | "varint.decode_multiple" | "varint.decode_signed" | "varint.read_from" => {
            if want_encs {
                if name == "varint.decode_multiple" {
                    el.add(0, VarInt::encode_multiple([0u64, 1, 127, 128, 300, 1 << 32, u64::MAX]), 0, vec![]);
                    el.add(1, VarInt::encode_multiple((0..20u64).map(|i| i * i * 1000)), 0, vec![]);
                } else if name == "varint.decode_signed" {
                    el.add(0, <VarInt as SignedVarInt>::encode_signed(i64::MIN), 0, vec![]);
                    el.add(1, <VarInt as SignedVarInt>::encode_signed(-300), 0, vec![]);
                } else {
                    el.add(0, VarInt::encode(u64::MAX), 0, vec![]);
                    el.add(1, VarInt::encode(300), 0, vec![]);
                }
            }
            match name {
                "varint.decode" => Box::new(|x, _| VarInt::decode(x).is_ok()),
                "varint.decode_multiple" => Box::new(|x, _| VarInt::decode_multiple(x).is_ok()),
                "varint.decode_signed" => Box::new(|x, _| <VarInt as SignedVarInt>::decode_signed(x).is_ok()),
                _ => Box::new(|x, _| VarInt::read_from(&mut SliceDataInput::new(x)).is_ok()),
            }
        }
        n if n.starts_with("vie.") => {
            let parts: Vec<&str> = n.split('.').collect();
            let strat = STRATS.iter().find(|(s, _)| *s == parts[1]).map(|(_, v)| *v).unwrap_or(VarIntStrategy::Leb128);
            let op = parts[2].to_string();
            // the named constructors are twins of new(strategy)
            let enc = match strat {
                VarIntStrategy::Leb128 => VarIntEncoder::leb128(),
                VarIntStrategy::Zigzag => VarIntEncoder::zigzag(),
                VarIntStrategy::Delta => VarIntEncoder::delta(),
                VarIntStrategy::GroupVarint => VarIntEncoder::group_varint(),
                VarIntStrategy::PrefixFree => VarIntEncoder::prefix_free(),
                VarIntStrategy::Compact => VarIntEncoder::compact(),
                VarIntStrategy::Simd => VarIntEncoder::simd(),
            };
            assert!(enc.strategy() == strat && VarIntEncoder::new(strat).strategy() == strat);
            let us: [&[u64]; 2] = [&[0, 1, 127, 128, 300, 70000, 1 << 40, u64::MAX], &[5, 6, 7, 8, 1000, 1001, 1002, 5_000_000, 5_000_001]];
            let is: [&[i64]; 2] = [&[0, -1, 1, -128, 127, 300, -70000, i64::MAX, i64::MIN], &[-5, -4, -3, 10, 11, 12, 1000, 999, 998]];
            if want_encs {
                for i in 0..2 {
                    let r = match op.as_str() {
                        "u64" => enc.encode_u64(us[i][4 + i]),
                        "i64" => enc.encode_i64(is[i][6 + i]),
                        "u64seq" => enc.encode_u64_sequence(us[i]),
                        _ => enc.encode_i64_sequence(is[i]),
                    };
                    if let Ok(Ok(b)) = guard(|| r) {
                        el.add(i, b, 0, vec![]);
                    }
                }
            }
            match op.as_str() {
                "u64" => Box::new(move |x, _| enc.decode_u64(x).is_ok()),
                "i64" => Box::new(move |x, _| enc.decode_i64(x).is_ok()),
                "u64seq" => Box::new(move |x, _| enc.decode_u64_sequence(x).is_ok()),
                _ => Box::new(move |x, _| enc.decode_i64_sequence(x).is_ok()),
            }
        }
        n if n.starts_with("complex.meta.") || n.starts_with("complex.raw.") => {
            let meta = n.starts_with("complex.meta.");
            let s = |x: &str| x.to_string();
            match n.rsplit('.').next().unwrap() {
                "tuple2" => complex_setup::<(u32, String)>(meta, vec![(7, s("seven")), (u32::MAX, s(""))], &mut el),
                "array4" => complex_setup::<[u32; 4]>(meta, vec![[1, 2, 3, 4], [0, u32::MAX, 7, 9]], &mut el),
                "option" => complex_setup::<Option<String>>(meta, vec![Some(s("some text")), None], &mut el),
                "result" => complex_setup::<std::result::Result<u32, String>>(meta, vec![Ok(5), Err(s("bad"))], &mut el),
                "hashmap" => {
                    let mut m = HashMap::new();
                    m.insert(1u32, s("one"));
                    m.insert(2u32, s("two"));
                    m.insert(300u32, s("three hundred"));
                    complex_setup::<HashMap<u32, String>>(meta, vec![m, HashMap::new()], &mut el)
                }
                "hashset" => complex_setup::<HashSet<u32>>(meta, vec![[1u32, 5, 9, 1000].into_iter().collect(), HashSet::new()], &mut el),
                "btreemap" => {
                    let mut m = BTreeMap::new();
                    m.insert(s("a"), 1u32);
                    m.insert(s("bb"), 2u32);
                    m.insert(s("ccc"), 3u32);
                    complex_setup::<BTreeMap<String, u32>>(meta, vec![m, BTreeMap::new()], &mut el)
                }
                _ => complex_setup::<BTreeSet<u32>>(meta, vec![[3u32, 1, 2, 70000].into_iter().collect(), BTreeSet::new()], &mut el),
            }
        }
        "complex.batch.meta" | "complex.batch.raw" => {
            let meta = name.ends_with("meta");
            let cfg = if meta { ComplexTypeConfig::safe() } else { ComplexTypeConfig::compact() };
            let ser = ComplexTypeSerializer::new(cfg);
            if want_encs {
                let vals: Vec<Option<u32>> = vec![Some(1), None, Some(77), Some(u32::MAX)];
                if let Ok(b) = ser.serialize_batch(&vals) {
                    el.add(0, b, 0, vec![]);
                }
                if let Ok(b) = ser.serialize_batch(&vals[..1]) {
                    el.add(1, b, 0, vec![]);
                }
            }
            Box::new(move |x, _| ser.deserialize_batch::<Option<u32>>(x).is_ok())
        }
        "smartptr.box_string" => smart_setup::<String, Box<String>>(vec![Box::new("boxed text".to_string()), Box::new(String::new())], &mut el),
        "smartptr.rc_string" => smart_setup::<String, Rc<String>>(vec![Rc::new("shared text".to_string()), Rc::new("x".to_string())], &mut el),
        "smartptr.arc_u32" => smart_setup::<u32, Arc<u32>>(vec![Arc::new(7), Arc::new(u32::MAX)], &mut el),
        "smartptr.optbox_u32" => smart_setup::<u32, Option<Box<u32>>>(vec![Some(Box::new(9)), None], &mut el),
        "smartptr.box_vec_string" => smart_setup::<Vec<String>, Box<Vec<String>>>(
            vec![Box::new(vec!["a".to_string(), "bc".to_string(), "def".to_string()]), Box::new(vec![])],
            &mut el,
        ),
        "smartptr.rc_vec_u32" => smart_setup::<Vec<u32>, Rc<Vec<u32>>>(vec![Rc::new(vec![1, 2, 3, 400]), Rc::new(vec![])], &mut el),
        n if n.starts_with("din.") => {
            if want_encs {
                let mut o = zipora::io::VecDataOutput::new();
                use zipora::io::DataOutput;
                let lp = n.contains(".lp_");
                for (i, txt) in ["length prefixed text", "x"].iter().enumerate() {
                    let mut o2 = zipora::io::VecDataOutput::new();
                    if lp {
                        let _ = o2.write_length_prefixed_string(txt);
                        el.add(i, o2.into_vec(), 0, vec![]);
                    } else {
                        let _ = o2.write_bytes(txt.as_bytes());
                        el.add(i, o2.into_vec(), txt.len(), vec![]);
                    }
                }
                let _ = o.write_u8(0);
            }
            match n {
                "din.slice.lp_string" => Box::new(|x, _| SliceDataInput::new(x).read_length_prefixed_string().is_ok()),
                "din.slice.lp_bytes" => Box::new(|x, _| SliceDataInput::new(x).read_length_prefixed_bytes().is_ok()),
                "din.reader.lp_string" => Box::new(|x, _| ReaderDataInput::new(Cursor::new(x)).read_length_prefixed_string().is_ok()),
                "din.reader.lp_bytes" => Box::new(|x, _| ReaderDataInput::new(Cursor::new(x)).read_length_prefixed_bytes().is_ok()),
                "din.slice.read_string" => Box::new(|x, n| SliceDataInput::new(x).read_string(n).is_ok()),
                "din.slice.read_vec" => Box::new(|x, n| SliceDataInput::new(x).read_vec(n).is_ok()),
                _ => Box::new(|x, n| ReaderDataInput::new(Cursor::new(x)).read_vec(n).is_ok()),
            }
        }
        "hex.decode" | "hex.decode_bytes" | "hex.decode_to_slice" => {
            if want_encs {
                for (pi, p) in pl.iter().enumerate() {
                    // lower case, and upper case for the second payload (both alphabets are legal input)
                    let h = if pi == 1 { zipora::string::hex_encode_upper(p) } else { hex_encode(p) };
                    el.add(pi, h.into_bytes(), 0, vec![]);
                }
            }
            match name {
                "hex.decode" => Box::new(|x, _| hex_decode(&lossy(x)).is_ok()),
                "hex.decode_bytes" => Box::new(|x, _| hex_decode_bytes(x).is_ok()),
                _ => Box::new(|x, _| {
                    // exact-size and too-small output buffers
                    let mut exact = vec![0u8; x.len() / 2];
                    let mut small = vec![0u8; x.len() / 4];
                    let a = hex_decode_to_slice(x, &mut exact).is_ok();
                    let b = hex_decode_to_slice(x, &mut small).is_ok();
                    a || b
                }),
            }
        }
        n if n.starts_with("b64.") => {
            let cfg = match n {
                "b64.adaptive.url" => Base64Config { url_safe: true, padding: true, force_implementation: None },
                "b64.adaptive.nopad" => Base64Config { url_safe: false, padding: false, force_implementation: None },
                _ => Base64Config::default(),
            };
            let ad = AdaptiveBase64::with_config(cfg.clone());
            if want_encs {
                for (pi, p) in pl.iter().enumerate() {
                    let s = if n.starts_with("b64.adaptive") { ad.encode(p) } else { base64_encode_simd(p) };
                    el.add(pi, s.into_bytes(), 0, vec![]);
                }
            }
            match n {
                "b64.simd_decoder" => {
                    let d = SimdBase64Decoder::new();
                    Box::new(move |x, _| d.decode(&lossy(x)).is_ok())
                }
                "b64.fn" => Box::new(|x, _| base64_decode_simd(&lossy(x)).is_ok()),
                _ => Box::new(move |x, _| ad.decode(&lossy(x)).is_ok()),
            }
        }
        "dzdict.deserialize" => {
            if want_encs {
                for (pi, p) in pl.iter().enumerate().take(2) {
                    let cfg = DictionaryBuilderConfig { target_dict_size: 256, max_dict_size: 512, validate_result: true, ..Default::default() };
                    if let Ok(d) = DzDictionaryBuilder::with_config(cfg).build(p) {
                        if let Ok(b) = d.serialize() {
                            el.add(pi, b, 0, vec![]);
                        }
                    }
                }
            }
            Box::new(|x, _| zipora::compression::dict_zip::SuffixArrayDictionary::deserialize(x).is_ok())
        }
        "simdenc.varint.decode" | "simdenc.varint.decode_batch" => {
            use zipora::io::simd_encoding::varint::{decode_varint, decode_varint_batch, encode_varint, encode_varint_batch};
            if want_encs {
                if name.ends_with("batch") {
                    let a: Vec<u64> = vec![0, 1, 127, 128, 300, 70000, 1 << 40, u64::MAX];
                    let b: Vec<u64> = (0..20u64).map(|i| i * i * 1000).collect();
                    for (i, v) in [a, b].iter().enumerate() {
                        if let Ok(e) = encode_varint_batch(v) {
                            el.add(i, e, v.len(), vec![]);
                        }
                    }
                } else {
                    for (i, v) in [u64::MAX, 300u64].iter().enumerate() {
                        if let Ok(e) = encode_varint(*v) {
                            el.add(i, e, 0, vec![]);
                        }
                    }
                }
            }
            if name.ends_with("batch") {
                Box::new(|x, n| decode_varint_batch(x, n).is_ok())
            } else {
                Box::new(|x, _| decode_varint(x).is_ok())
            }
        }
        "simdenc.base64.decode" | "simdenc.base64.decode_from_buffer" => {
            use zipora::io::simd_encoding::{decode_base64, decode_base64_from_buffer, encode_base64};
            if want_encs {
                for (pi, p) in pl.iter().enumerate() {
                    if let Ok(s) = encode_base64(p) {
                        el.add(pi, s.into_bytes(), 0, vec![]);
                    }
                }
            }
            if name.ends_with("buffer") {
                Box::new(|x, _| {
                    // a large enough and a too small output buffer
                    let mut big = vec![0u8; x.len() + 8];
                    let mut small = vec![0u8; x.len() / 8];
                    let a = decode_base64_from_buffer(x, &mut big).is_ok();
                    let b = decode_base64_from_buffer(x, &mut small).is_ok();
                    a || b
                })
            } else {
                Box::new(|x, _| decode_base64(&lossy(x)).is_ok())
            }
        }
        "json.parse" => {
            if want_encs {
                el.add(0, br#"{"a":[1,2.5,-3e2,true,false,null],"b":{"c":"x\ny\u00e9","d":[]},"e":""}"#.to_vec(), 0, vec![]);
                el.add(1, br#"[[[[1]]],{"k":"v"}]"#.to_vec(), 0, vec![]);
            }
            Box::new(|x, _| zipora::io::simd_parsing::parse_json(x).is_ok())
        }
        "csv.parse_line" => {
            if want_encs {
                el.add(0, b"a,b,\"quoted, with comma\",\"esc\"\"aped\",,last".to_vec(), 0, vec![]);
                el.add(1, b"1,2,3".to_vec(), 0, vec![]);
            }
            Box::new(|x, _| zipora::io::simd_parsing::parse_csv_line(x, b',').is_ok())
        }
        "adaptive.decompress" => {
            use zipora::compression::{AdaptiveCompressor, AdaptiveConfig, PerformanceRequirements};
            let mk = || AdaptiveCompressor::new(AdaptiveConfig::default(), PerformanceRequirements::default()).ok();
            if want_encs {
                if let Some(c) = mk() {
                    for (pi, p) in pl.iter().enumerate() {
                        if let Ok(b) = c.compress(p) {
                            el.add(pi, b, 0, vec![]);
                        }
                    }
                }
            }
            match mk() {
                Some(c) => Box::new(move |x, _| c.decompress(x).is_ok()),
                None => Box::new(|_, _| false),
            }
        }
        _ => {
            eprintln!("c15: unknown parser {name}");
            std::process::exit(2)
        }
    };
    Setup { encs: el.v, run }
}

// ------------------------------------------------------------------ job plan (same in parent and child)

const KINDS: [u8; 9] = [b'b', b't', b's', b'm', b'a', b'c', b'o', b'p', b'u'];
/// expected-length arguments: the right one, 0, 1 (below the stream count of the parallel coders),
/// one less, one more, 2^31, usize::MAX
const VARIANTS: [&str; 7] = ["exact", "zero", "one", "minus1", "plus1", "p31", "max"];

#[derive(Clone, Debug)]
struct Seg {
    variant: &'static str,
    kind: u8,
    start: usize,
    count: usize,
    len: usize, // |E| of the class (kind R: the string length k)
    combo: String,
}

fn olen_arg(variant: &str, exact: usize) -> usize {
    match variant {
        "zero" => 0,
        "one" => 1,
        "minus1" => exact.saturating_sub(1),
        "plus1" => exact.wrapping_add(1),
        "p31" => 1usize << 31,
        "max" => usize::MAX,
        _ => exact,
    }
}

/// the flat case list of a job: every variant x every kind x every descriptor of the class
fn plan(def: &PDef, enc: Option<&Enc>, g: &Generated, thorough: bool) -> Vec<Seg> {
    let variants: &[&'static str] = if def.olen { &VARIANTS } else { &["-"] };
    let mut segs = vec![];
    let mut pos = 0;
    for &variant in variants {
        match enc {
            Some(e) => {
                let l = e.bytes.len();
                let cd = g.classes.get(&l).unwrap_or_else(|| {
                    eprintln!("c15: no descriptor class for length {l}");
                    std::process::exit(2)
                });
                for k in KINDS {
                    // window x truncation combinations of the 20-50 ms-per-call parsers: not in the quick tier;
                    // thorough: for the decoders with an expected-length argument under "exact" and "p31" only
                    if k == b'c' && def.slow() && (!thorough || (def.olen && variant != "exact" && variant != "p31")) {
                        continue;
                    }
                    // overflow values (o: one aligned field, p: two adjacent fields, u: unaligned offsets):
                    // the 20-50 ms-per-call parsers take no unaligned offsets; the file-backed ones take o / p in the
                    // quick tier for their first encoding only, the slow decoders under "exact" (thorough: and "p31")
                    if k == b'u' && def.slow() {
                        continue;
                    }
                    if (k == b'o' || k == b'p') && def.slow() {
                        let skip = if def.olen { variant != "exact" && !(thorough && variant == "p31") } else { !thorough && e.id != "e1" };
                        if skip {
                            continue;
                        }
                    }
                    let n = cd.by_kind.get(&k).map(|v| v.len()).unwrap_or(0);
                    segs.push(Seg { variant, kind: k, start: pos, count: n, len: l, combo: cd.combo.clone() });
                    pos += n;
                }
            }
            None => {
                // RawSeq lists the strings by length: a prefix of it is RawSeq(k) for a smaller k
                let n = raw_count(def.rawmax(g.raw)).min(g.raw_descs.len());
                segs.push(Seg { variant, kind: b'r', start: pos, count: n, len: 0, combo: "class".into() });
                pos += n;
                if thorough && def.raw3 && g.raw >= 3 {
                    segs.push(Seg { variant, kind: b'R', start: pos, count: 1 << 24, len: 3, combo: "class".into() });
                    pos += 1 << 24;
                }
            }
        }
    }
    segs
}

fn seg_of(segs: &[Seg], idx: usize) -> usize {
    segs.iter().position(|s| idx >= s.start && idx < s.start + s.count).expect("case index inside the plan")
}

fn desc_at(seg: &Seg, enc: Option<&Enc>, g: &Generated, idx: usize) -> Desc {
    let j = idx - seg.start;
    match seg.kind {
        b'r' => g.raw_descs[j].clone(),
        b'R' => Desc { kind: b'R', a: vec![seg.len as u32, j as u32] },
        k => g.classes[&enc.unwrap().bytes.len()].by_kind[&k][j].clone(),
    }
}

fn read_encs(p: &Path) -> BTreeMap<String, Vec<Enc>> {
    let mut m: BTreeMap<String, Vec<Enc>> = BTreeMap::new();
    for v in read_ndjson(p) {
        m.entry(v["parser"].as_str().unwrap().to_string()).or_default().push(enc_from_json(&v));
    }
    m
}

// ------------------------------------------------------------------ status page

struct StatusMap {
    ptr: *mut u8,
    len: usize,
}
unsafe impl Send for StatusMap {}
impl StatusMap {
    fn open(path: &Path) -> StatusMap {
        use std::os::unix::io::AsRawFd;
        let f = fs::OpenOptions::new().read(true).write(true).open(path).expect("status file");
        let len = f.metadata().unwrap().len() as usize;
        let ptr = unsafe { libc::mmap(std::ptr::null_mut(), len, libc::PROT_READ | libc::PROT_WRITE, libc::MAP_SHARED, f.as_raw_fd(), 0) };
        if ptr == libc::MAP_FAILED {
            eprintln!("c15: mmap of the status file failed");
            std::process::exit(2);
        }
        StatusMap { ptr: ptr as *mut u8, len }
    }
    fn set_u64(&self, slot: usize, v: u64) {
        unsafe { (self.ptr.add(slot * 8) as *mut u64).write_volatile(v) }
    }
    fn get_u64(&self, slot: usize) -> u64 {
        unsafe { (self.ptr.add(slot * 8) as *const u64).read_volatile() }
    }
    fn set_code(&self, idx: usize, c: u8) {
        assert!(HDR + idx < self.len);
        unsafe { self.ptr.add(HDR + idx).write_volatile(c) }
    }
    fn code(&self, idx: usize) -> u8 {
        unsafe { self.ptr.add(HDR + idx).read_volatile() }
    }
}
// slots: 0 = current case index, 1 = inside a parser call, 2 = size of a failed allocation,
//        3 = phase (0 starting, 1 running), 4 = watchdog fired, 5 = the case the watchdog stopped

// ------------------------------------------------------------------ child

static WATCH_CUR: AtomicU64 = AtomicU64::new(u64::MAX);

/// CPU time consumed by this process, in milliseconds
fn cpu_ms() -> u64 {
    let mut ts = libc::timespec { tv_sec: 0, tv_nsec: 0 };
    unsafe { libc::clock_gettime(libc::CLOCK_PROCESS_CPUTIME_ID, &mut ts) };
    ts.tv_sec as u64 * 1000 + ts.tv_nsec as u64 / 1_000_000
}

/// Containment self-test (env C15_INJECT="hang@3,segv@5,abort@7,panic@9,oom@11"): the named failure
/// is produced by the HARNESS inside the call of that case, so that the check can prove on every
/// run that a hang / crash / abort / panic / failed allocation is contained, attributed to the
/// right case and reported with the right outcome.  Never set in a normal run.
fn parse_injections() -> Vec<(String, usize)> {
    std::env::var("C15_INJECT")
        .unwrap_or_default()
        .split(',')
        .filter_map(|p| p.split_once('@').and_then(|(k, i)| i.parse().ok().map(|i| (k.to_string(), i))))
        .collect()
}

fn inject(inj: &[(String, usize)], idx: usize) {
    for (k, i) in inj {
        if *i != idx {
            continue;
        }
        match k.as_str() {
            "hang" => loop {
                std::hint::black_box(0u64);
            },
            "segv" => unsafe { std::ptr::write_volatile(8 as *mut u64, 1) },
            "abort" => std::process::abort(),
            "panic" => panic!("injected panic"),
            "oom" => {
                let v: Vec<u8> = Vec::with_capacity(3usize << 30);
                std::hint::black_box(v);
            }
            _ => {}
        }
    }
}

fn child_main(a: &Args) -> i32 {
    quiet_panics();
    let thorough = a.thorough();
    let name = a.get("parser").expect("--parser");
    let def = *registry().iter().find(|d| d.name == name).expect("known parser");
    let encid = a.get("encid").expect("--encid");
    let encs = read_encs(Path::new(a.get("encs").expect("--encs")));
    let mine = encs.get(name).cloned().unwrap_or_default();
    let enc: Option<Enc> = if encid == "raw" { None } else { mine.iter().find(|e| e.id == encid).cloned() };
    let g = load_generated(a.input.as_ref().expect("--in"), enc.as_ref().map(|e| e.bytes.len()).or(Some(usize::MAX)), enc.is_none());
    let segs = plan(&def, enc.as_ref(), &g, thorough);
    let total: usize = segs.iter().map(|s| s.count).sum();
    let from = a.get_u64("from", 0) as usize;
    let st = StatusMap::open(Path::new(a.get("status").expect("--status")));
    STATUS.store(st.ptr, Ordering::SeqCst);
    let tmp = PathBuf::from(a.get("tmp").expect("--tmp"));
    let mut panics = fs::OpenOptions::new().create(true).append(true).open(a.get("panics").expect("--panics")).expect("panics file");
    let pl = payloads(thorough);
    // context of the decoder: the encoding this job mutates (raw jobs: the first encoding of the parser)
    let ctx_enc = enc.clone().or_else(|| mine.first().cloned());
    let mut s = setup(name, &pl, false, ctx_enc.as_ref(), &tmp);
    let exact = ctx_enc.as_ref().map(|e| e.olen).unwrap_or(16);
    let empty: Vec<u8> = vec![];
    let ebytes: &[u8] = enc.as_ref().map(|e| &e.bytes[..]).unwrap_or(&empty);

    // watchdog: a case that has burnt CASE_TIMEOUT_MS of CPU time (a loop) or has been blocked for
    // CASE_BLOCKED_MS of wall time ends the process with code 3.  CPU time, not wall time: the
    // sandbox is paused / starved for many seconds now and then, which is not the parser's doing.
    {
        let stp = StatusMap { ptr: st.ptr, len: st.len };
        std::thread::spawn(move || {
            let mut last = u64::MAX;
            let mut since = std::time::Instant::now();
            let mut cpu0 = cpu_ms();
            loop {
                std::thread::sleep(std::time::Duration::from_millis(50));
                let cur = WATCH_CUR.load(Ordering::Relaxed);
                if cur != last {
                    last = cur;
                    since = std::time::Instant::now();
                    cpu0 = cpu_ms();
                } else if stp.get_u64(1) == 1
                    && (cpu_ms().saturating_sub(cpu0) >= CASE_TIMEOUT_MS || since.elapsed().as_millis() as u64 >= CASE_BLOCKED_MS)
                    && WATCH_CUR.load(Ordering::Relaxed) == cur
                {
                    stp.set_code(cur as usize, O_TIMEOUT);
                    stp.set_u64(5, cur);
                    stp.set_u64(4, 1);
                    unsafe { libc::_exit(3) };
                }
            }
        });
    }
    let injections = parse_injections();
    st.set_u64(3, 1);
    let mut done = 0usize;
    let mut si = 0usize;
    let mut idx = from;
    while idx < total {
        if st.code(idx) == O_SKIPPED {
            idx += 1;
            continue;
        }
        if !(idx >= segs[si].start && idx < segs[si].start + segs[si].count) {
            si = seg_of(&segs, idx);
        }
        let seg = &segs[si];
        let d = desc_at(seg, enc.as_ref(), &g, idx);
        let input = apply(ebytes, &d);
        let olen = olen_arg(seg.variant, exact);
        st.set_u64(0, idx as u64);
        st.set_u64(2, 0);
        WATCH_CUR.store(idx as u64, Ordering::Relaxed);
        st.set_u64(1, 1);
        let r = guard(|| {
            inject(&injections, idx);
            (s.run)(&input, olen)
        });
        st.set_u64(1, 0);
        match r {
            Ok(true) => st.set_code(idx, O_OK),
            Ok(false) => st.set_code(idx, O_ERR),
            Err(msg) => {
                st.set_code(idx, O_PANIC);
                let m: String = msg.chars().take(160).collect();
                let _ = writeln!(panics, "{}\t{}", idx, m.replace('\n', " "));
                let _ = panics.flush();
                if def.restart {
                    st.set_u64(0, idx as u64 + 1);
                    return 5;
                }
            }
        }
        idx += 1;
        done += 1;
        if done >= CHILD_CHUNK || LIVE.load(Ordering::Relaxed) > LIVE_LIMIT {
            st.set_u64(0, idx as u64);
            return 5; // recycle: the parent starts a fresh child at idx
        }
    }
    st.set_u64(0, total as u64);
    0
}

// ------------------------------------------------------------------ parent: one job

struct JobSpec {
    def: PDef,
    enc: Option<Enc>,
    segs: Vec<Seg>,
    total: usize,
}

struct JobResult {
    codes: Vec<u8>,
    panics: BTreeMap<usize, String>,
    sigs: BTreeMap<usize, String>, // how a fatal case ended
    ooms: BTreeMap<usize, u64>,    // size of the allocation that failed (outcome oom)
    children: usize,
    tool_err: Option<String>,
    wall_ms: u64,
}

const MAX_FATAL_PER_SEG: usize = 3;
const MAX_TIMEOUT_PER_SEG: usize = 2;

fn run_job(a: &Args, job: &JobSpec, dir: &Path, encs_file: &Path) -> JobResult {
    fs::create_dir_all(dir.join("tmp")).expect("job dir");
    let status = dir.join("status.bin");
    {
        let f = File::create(&status).expect("status file");
        f.set_len((HDR + job.total.max(1)) as u64).expect("size status file");
    }
    let panics_path = dir.join("panics.txt");
    let st = StatusMap::open(&status);
    let t0 = std::time::Instant::now();
    let mut res = JobResult { codes: vec![], panics: BTreeMap::new(), sigs: BTreeMap::new(), ooms: BTreeMap::new(), children: 0, tool_err: None, wall_ms: 0 };
    let mut from = 0usize;
    let mut fatal = vec![0usize; job.segs.len()];
    let mut timeouts = vec![0usize; job.segs.len()];
    let mut no_progress = 0;
    while from < job.total {
        for s in 0..6 {
            st.set_u64(s, 0);
        }
        st.set_u64(0, from as u64);
        let args: Vec<String> = vec![
            "--mode".into(),
            "child".into(),
            "--tier".into(),
            a.tier.clone(),
            "--parser".into(),
            job.def.name.into(),
            "--encid".into(),
            job.enc.as_ref().map(|e| e.id.clone()).unwrap_or_else(|| "raw".into()),
            "--encs".into(),
            encs_file.display().to_string(),
            "--in".into(),
            a.input.as_ref().unwrap().display().to_string(),
            "--status".into(),
            status.display().to_string(),
            "--panics".into(),
            panics_path.display().to_string(),
            "--tmp".into(),
            dir.join("tmp").display().to_string(),
            "--from".into(),
            from.to_string(),
        ];
        // the per-case limit is enforced by the watchdog inside the child; this is the safety net
        let budget = a.get_u64("job-secs", if a.thorough() { 2400 } else { 300 });
        let left = budget.saturating_sub(t0.elapsed().as_secs());
        if left == 0 {
            res.tool_err = Some(format!("job exceeded its wall budget of {budget} s at case {from} of {}", job.total));
            break;
        }
        let o = run_child(&args, left.max(CASE_BLOCKED_MS / 1000 + 5), AS_LIMIT_MB, true);
        res.children += 1;
        let cur = st.get_u64(0) as usize;
        let in_case = st.get_u64(1) == 1;
        let phase = st.get_u64(3);
        let fatal_at: Option<(usize, u8, String)> = match o {
            ChildOutcome::Exit(0) => break,
            ChildOutcome::Exit(5) => {
                if cur <= from {
                    no_progress += 1;
                    if no_progress > 3 {
                        res.tool_err = Some(format!("child made no progress at case {from}"));
                        break;
                    }
                } else {
                    no_progress = 0;
                }
                from = cur.max(from);
                continue;
            }
            ChildOutcome::Exit(3) if st.get_u64(4) == 1 => {
                Some((st.get_u64(5) as usize, O_TIMEOUT, format!("no result after {} ms of CPU time (or {} ms blocked)", CASE_TIMEOUT_MS, CASE_BLOCKED_MS)))
            }
            ChildOutcome::Exit(c) => {
                if in_case && phase == 1 {
                    Some((cur, O_ABORT, format!("process exited with code {c} inside the call")))
                } else {
                    res.tool_err = Some(format!("child exited with code {c} outside a parser call (phase {phase}, case {cur})"));
                    break;
                }
            }
            ChildOutcome::Signal(sig) => {
                if in_case && phase == 1 {
                    let oom = st.get_u64(2);
                    if oom != 0 {
                        res.ooms.insert(cur, oom);
                        Some((cur, O_OOM, format!("allocation of {oom} bytes failed under RLIMIT_AS {AS_LIMIT_MB} MiB, process aborted (signal {sig})")))
                    } else if sig == libc::SIGABRT {
                        Some((cur, O_ABORT, "SIGABRT".into()))
                    } else {
                        Some((cur, O_SIGNAL, format!("signal {sig}")))
                    }
                } else {
                    res.tool_err = Some(format!("child killed by signal {sig} outside a parser call (phase {phase}, case {cur})"));
                    break;
                }
            }
            ChildOutcome::Timeout => {
                if t0.elapsed().as_secs() >= budget {
                    res.tool_err = Some(format!("job exceeded its wall budget of {budget} s at case {cur} of {}", job.total));
                    break;
                }
                if in_case && phase == 1 {
                    Some((cur, O_TIMEOUT, "batch limit".into()))
                } else {
                    res.tool_err = Some("child timed out outside a parser call".into());
                    break;
                }
            }
        };
        if let Some((idx, code, how)) = fatal_at {
            st.set_code(idx, code);
            res.sigs.insert(idx, how);
            let si = seg_of(&job.segs, idx);
            fatal[si] += 1;
            if code == O_TIMEOUT {
                timeouts[si] += 1;
            }
            from = idx + 1;
            // (the containment self-test injects five failures into one batch and lifts the cap)
            let cap = if std::env::var("C15_INJECT").is_ok() { usize::MAX } else { MAX_FATAL_PER_SEG };
            if fatal[si] >= cap || (timeouts[si] >= MAX_TIMEOUT_PER_SEG && cap != usize::MAX) {
                // the rest of this batch is not run: it is reported as skipped (never as passed)
                let end = job.segs[si].start + job.segs[si].count;
                for j in from..end {
                    st.set_code(j, O_SKIPPED);
                }
                from = end;
            }
        }
    }
    res.codes = (0..job.total).map(|i| st.code(i)).collect();
    if let Ok(s) = fs::read_to_string(&panics_path) {
        for line in s.lines() {
            if let Some((i, m)) = line.split_once('\t') {
                if let Ok(i) = i.parse::<usize>() {
                    res.panics.insert(i, m.to_string());
                }
            }
        }
    }
    unsafe { libc::munmap(st.ptr as *mut libc::c_void, st.len) };
    let _ = fs::remove_dir_all(dir);
    res.wall_ms = t0.elapsed().as_millis() as u64;
    res
}

// ------------------------------------------------------------------ parent: modes

fn encode_main(a: &Args) -> i32 {
    quiet_panics();
    fs::create_dir_all(&a.out).unwrap();
    let tmp = a.out.join("enc-tmp");
    fs::create_dir_all(&tmp).unwrap();
    let pl = payloads(a.thorough());
    let mut f = File::create(a.out.join("encs.ndjson")).unwrap();
    let mut lens: BTreeMap<usize, ()> = BTreeMap::new();
    let mut n = 0;
    let mut without: Vec<String> = vec![];
    let max_encs = if a.thorough() { 4 } else { 2 };
    for d in registry() {
        if !wants(a, d.name) {
            continue;
        }
        let encs = match guard(|| setup(d.name, &pl, true, None, &tmp).encs) {
            Ok(v) => v,
            Err(m) => {
                eprintln!("c15: encoder of {} panicked: {m}", d.name);
                vec![]
            }
        };
        let mut encs = encs;
        let max_encs = if d.slow() && d.olen {
            encs.sort_by_key(|e| e.bytes.len());
            max_encs / 2
        } else {
            max_encs
        };
        // distinct encodings only
        let mut seen: Vec<Vec<u8>> = vec![];
        let mut k = 0;
        for mut e in encs {
            if e.bytes.is_empty() || seen.contains(&e.bytes) || k >= max_encs {
                continue;
            }
            seen.push(e.bytes.clone());
            k += 1;
            e.id = format!("e{k}");
            lens.insert(e.bytes.len(), ());
            writeln!(f, "{}", enc_to_json(d.name, &e)).unwrap();
            n += 1;
        }
        if k == 0 {
            without.push(d.name.to_string());
        }
    }
    let _ = fs::remove_dir_all(&tmp);
    let all_max = a.get_u64("combo-all-max", if a.thorough() { 320 } else { 0 }) as usize;
    let classes: Vec<Value> = lens.keys().map(|&l| json!({"len": l, "combo": if l <= all_max { "all" } else { "class" }})).collect();
    let raw = a.get_u64("raw", if a.thorough() { 3 } else { 2 });
    let params = json!({"win": a.get_u64("win", 96), "raw": raw, "classes": classes});
    fs::write(a.out.join("params.json"), serde_json::to_vec(&params).unwrap()).unwrap();
    write_summary(&a.out, &json!({"encodings": n, "length_classes": lens.len(), "parsers_without_encoding": without}));
    0
}

fn applycheck_main(a: &Args) -> i32 {
    let g = load_generated(a.input.as_ref().expect("--in"), None, true);
    let v = match g.apply_check {
        Some(v) => v,
        None => {
            eprintln!("c15: generator output has no apply line");
            return 2;
        }
    };
    let e: Vec<u8> = v["enc"].as_array().unwrap().iter().map(|x| x.as_u64().unwrap() as u8).collect();
    let mut n = 0;
    let mut bad = 0;
    for c in v["cases"].as_array().unwrap() {
        let d = desc_from_json(&c["d"]);
        let want: Vec<u8> = c["out"].as_array().unwrap().iter().map(|x| x.as_u64().unwrap() as u8).collect();
        let got = apply(&e, &d);
        n += 1;
        if got != want {
            bad += 1;
            if bad < 5 {
                eprintln!("c15: apply differs from TLC for {}", c["d"]);
            }
        }
    }
    fs::create_dir_all(&a.out).unwrap();
    write_summary(&a.out, &json!({"apply_cases": n, "apply_mismatches": bad}));
    if bad > 0 || n == 0 {
        1
    } else {
        0
    }
}

fn run_main(a: &Args) -> i32 {
    fs::create_dir_all(&a.out).unwrap();
    let thorough = a.thorough();
    let encs_file = PathBuf::from(a.get("encs").expect("--encs"));
    let encs = read_encs(&encs_file);
    let g = load_generated(a.input.as_ref().expect("--in"), None, true);
    let mut jobs: Vec<JobSpec> = vec![];
    for d in registry() {
        if !wants(a, d.name) {
            continue;
        }
        for e in encs.get(d.name).cloned().unwrap_or_default() {
            let segs = plan(&d, Some(&e), &g, thorough);
            let total = segs.iter().map(|s| s.count).sum();
            jobs.push(JobSpec { def: d, enc: Some(e), segs, total });
        }
        let segs = plan(&d, None, &g, thorough);
        let total = segs.iter().map(|s| s.count).sum();
        jobs.push(JobSpec { def: d, enc: None, segs, total });
    }
    let njobs = jobs.len();
    let workers = std::env::var("VERIF_JOBS").ok().and_then(|s| s.parse::<usize>().ok()).unwrap_or(8).clamp(1, 16);
    let jobs = Arc::new(jobs);
    let next = Arc::new(AtomicUsize::new(0));
    let results: Arc<Mutex<Vec<Option<JobResult>>>> = Arc::new(Mutex::new((0..njobs).map(|_| None).collect()));
    // biggest jobs first
    let mut order: Vec<usize> = (0..njobs).collect();
    order.sort_by_key(|&i| std::cmp::Reverse(jobs[i].total));
    let order = Arc::new(order);
    let mut hs = vec![];
    for _ in 0..workers {
        let (jobs, next, results, order, a2, ef) = (jobs.clone(), next.clone(), results.clone(), order.clone(), a.clone(), encs_file.clone());
        hs.push(std::thread::spawn(move || loop {
            let k = next.fetch_add(1, Ordering::SeqCst);
            if k >= order.len() {
                break;
            }
            let i = order[k];
            let dir = a2.out.join(format!("job-{i}"));
            let r = run_job(&a2, &jobs[i], &dir, &ef);
            results.lock().unwrap()[i] = Some(r);
        }));
    }
    for h in hs {
        let _ = h.join();
    }
    let results = Arc::try_unwrap(results).ok().unwrap().into_inner().unwrap();

    // ---- events
    // parsers with a non-allowed outcome get a trace file of their own (the two-pass validation
    // cuts a rejected subject out of its file; one subject per file keeps that linear)
    let mut dirty: BTreeMap<&str, bool> = BTreeMap::new();
    for (i, job) in jobs.iter().enumerate() {
        let r = results[i].as_ref().expect("job result");
        let bad = r.codes.iter().any(|&c| c != O_OK && c != O_ERR);
        *dirty.entry(family(job.def.name)).or_insert(false) |= bad;
    }
    let mut tr = Tracer::new(&a.out, "c15");
    tr.max_events = 400;
    let mut bad_tracers: BTreeMap<&str, Tracer> = BTreeMap::new();
    let mut subjects = serde_json::Map::new();
    let (mut cases, mut nontrivial, mut children) = (0u64, 0u64, 0usize);
    let mut totals = [0u64; 9];
    let mut tool_errs: Vec<String> = vec![];
    let mut base_ok = 0;
    let mut base_all = 0;
    let mut cur_parser = "";
    let mut pstat = [0u64; 9];
    let mut ptime: BTreeMap<String, u64> = BTreeMap::new();
    let mut samples: Vec<Value> = vec![];
    let empty: Vec<u8> = vec![];
    for (i, job) in jobs.iter().enumerate() {
        let r = results[i].as_ref().expect("job result");
        children += r.children;
        *ptime.entry(job.def.name.to_string()).or_default() += r.wall_ms;
        if let Some(t) = &r.tool_err {
            tool_errs.push(format!("{} {}: {}", job.def.name, job.enc.as_ref().map(|e| e.id.as_str()).unwrap_or("raw"), t));
        }
        if job.def.name != cur_parser {
            if !cur_parser.is_empty() {
                subjects.insert(cur_parser.to_string(), stat_json(&pstat));
            }
            pstat = [0; 9];
            cur_parser = job.def.name;
            let cfg = json!({"parser": job.def.name, "win": g.win, "raw": job.def.rawmax(g.raw), "olen": job.def.olen});
            let fam = family(job.def.name);
            if dirty[fam] {
                let n = bad_tracers.len();
                let t = bad_tracers.entry(fam).or_insert_with(|| {
                    let mut t = Tracer::new(&a.out, &format!("c15-bad-{:02}-{}", n, fam));
                    t.max_events = usize::MAX;
                    t
                });
                t.reset("Parser", fam, cfg);
            } else {
                tr.reset("Parser", fam, cfg);
            }
        }
        let ebytes: &[u8] = job.enc.as_ref().map(|e| &e.bytes[..]).unwrap_or(&empty);
        for seg in &job.segs {
            let mut cnt = [0u64; 9];
            let mut bad: Vec<Value> = vec![];
            let mut listed = [0usize; 9];
            let mut unlisted = 0u64;
            for idx in seg.start..seg.start + seg.count {
                let c = r.codes[idx] as usize;
                // a case without a result (tool error) is counted as skipped, never as passed
                let c = if c == O_NONE as usize { O_SKIPPED as usize } else { c };
                cnt[c] += 1;
                if c >= O_PANIC as usize && c != O_SKIPPED as usize {
                    if listed[c] < 6 {
                        listed[c] += 1;
                        let d = desc_at(seg, job.enc.as_ref(), &g, idx);
                        let input = apply(ebytes, &d);
                        let msg = r.panics.get(&idx).or_else(|| r.sigs.get(&idx)).cloned().unwrap_or_default();
                        // size class of the failed allocation (MiB): part of the semantic trigger of the oom findings
                        let alloc_mb = r.ooms.get(&idx).map(|&n| (n >> 20).min(i32::MAX as u64)).unwrap_or(0);
                        let mut b = json!({"d": desc_to_json(&d), "o": ONAMES[c], "msg": msg, "in_len": input.len(), "alloc_mb": alloc_mb});
                        if input.len() <= 64 {
                            b["hex"] = json!(hex(&input));
                        }
                        bad.push(b);
                    } else {
                        unlisted += 1;
                    }
                }
            }
            let ev = json!({
                "op": "parse", "parser": job.def.name, "variant": seg.variant,
                "enc": job.enc.as_ref().map(|e| e.id.as_str()).unwrap_or("raw"),
                "len": seg.len, "combo": seg.combo, "kind": (seg.kind as char).to_string(),
                "n_cases": seg.count,
                "outcomes": {"ok": cnt[1], "err": cnt[2], "panic": cnt[3], "abort": cnt[4], "signal": cnt[5], "timeout": cnt[6], "oom": cnt[7]},
                "skipped": cnt[8], "bad": bad, "bad_unlisted": unlisted,
            });
            if seg.kind == b'b' && seg.count == 1 && (seg.variant == "exact" || seg.variant == "-") {
                base_all += 1;
                if cnt[1] == 1 {
                    base_ok += 1;
                }
            }
            if samples.len() < 4 && (seg.kind == b't' || seg.kind == b'm') && i % 7 == 0 {
                samples.push(ev.clone());
            }
            if dirty[family(job.def.name)] {
                bad_tracers.get_mut(family(job.def.name)).unwrap().ev(ev);
            } else {
                tr.ev(ev);
            }
            for k in 0..9 {
                totals[k] += cnt[k];
                pstat[k] += cnt[k];
            }
            cases += seg.count as u64;
            if seg.kind != b'b' {
                nontrivial += seg.count as u64 - cnt[8];
            }
        }
    }
    if !cur_parser.is_empty() {
        subjects.insert(cur_parser.to_string(), stat_json(&pstat));
    }
    tr.close();
    let mut n_events = tr.total_events;
    let mut n_runs = tr.runs;
    for t in bad_tracers.values_mut() {
        t.close();
        n_events += t.total_events;
        n_runs += t.runs;
    }
    let vacuous: Vec<&str> = registry().iter().filter(|d| wants(a, d.name) && encs.get(d.name).map(|v| v.is_empty()).unwrap_or(true)).map(|d| d.name).collect();
    write_summary(
        &a.out,
        &json!({
            "events": n_events, "runs": n_runs, "dirty_families": dirty.values().filter(|&&b| b).count(), "cases": cases, "nontrivial_cases": nontrivial, "jobs": njobs, "children": children,
            "outcomes": stat_json(&totals), "subjects": subjects, "tool_errors": tool_errs,
            "base_cases": base_all, "base_cases_ok_exact": base_ok, "parsers_without_valid_encoding": vacuous, "samples": samples,
            "length_classes": g.classes.len(), "win": g.win, "raw": g.raw, "job_wall_ms": ptime,
        }),
    );
    if tool_errs.is_empty() {
        0
    } else {
        for t in &tool_errs {
            eprintln!("c15: tool error: {t}");
        }
        3
    }
}

/// the validation subject: the family of a parser (first component of its name)
fn family(name: &str) -> &str {
    name.split('.').next().unwrap_or(name)
}

fn wants(a: &Args, name: &str) -> bool {
    a.wants(name) || a.wants(family(name))
}

fn stat_json(c: &[u64; 9]) -> Value {
    json!({"ok": c[1], "err": c[2], "panic": c[3], "abort": c[4], "signal": c[5], "timeout": c[6], "oom": c[7], "skipped": c[8]})
}

fn main() {
    let a = Args::parse();
    let rc = match a.mode.as_str() {
        "child" => child_main(&a),
        "encode" => encode_main(&a),
        "applycheck" => applycheck_main(&a),
        "run" | "drive" => run_main(&a),
        m => {
            eprintln!("c15: unknown mode {m}");
            2
        }
    };
    std::process::exit(rc);
}
