//! C18 (extension) — the streaming / batching / yielding / async-I/O helpers listed by the property
//! besides the executor and the fiber pool.  Runs the real objects on a tokio multi-thread runtime
//! and logs what happened; TLC judges the log against spec/PipelineStream.tla
//! (Trace_PipelineStream.tla) and, for the async blob stores, against spec/BlobStore.tla
//! (Trace_BlobStore.tla).  No model of any zipora structure lives here: the harness projects
//! (ids, values, bytes, digests) and TLC compares.
//!
//! modes
//!   stream   Pipeline::execute_stream (stage chains over F / G / a stage that sleeps past the stage
//!            timeout; channel capacities 1..; slow consumers), execute_two_stage, execute_single,
//!            BatchMapStage (with / without batch function, batching on / off), FilterStage
//!   collect  BatchCollector: seeded sequential add / check_timeout / flush / len histories, and
//!            concurrent producers + start_timeout_checker
//!   store    AsyncMemoryBlobStore / AsyncFileStore / AsyncCompressedBlobStore under concurrent
//!            callers; the log is a linearisation (each id is published only after its put is logged,
//!            removes only by the owner of an unpublished id)
//!   storeq   the same stores shared by 2 / 4 / 8 tasks (bursts of put, put_batch of 1 / 2 / 17 / 200, get,
//!            get_batch, remove, contains, len), 100 rounds, judged at quiescence (AsQuiesce)
//!   yield    fibers driving FiberYield / FiberYieldHandle / YieldPoint / GlobalYield with seeded yield
//!            patterns and budgets; CooperativeUtils / YieldingIterator helpers
//!   aio      FiberFile read / read_at / seek / read_to_end / write, FiberAio copy / write_all /
//!            read_to_vec, VectoredIo, parallel reads of one file, FiberIoUtils
use serde_json::{json, Value};
use std::future::Future;
use std::path::{Path, PathBuf};
use std::pin::Pin;
use std::sync::atomic::{AtomicU64, Ordering};
use std::sync::{Arc, Mutex};
use std::time::{Duration, Instant};
use tokio::sync::mpsc;
use zipora::concurrency::async_blob_store::AsyncCompressedBlobStore;
use zipora::concurrency::pipeline::{BatchCollector, BatchMapStage, FilterStage, MapStage, PipelineConfig, PipelineStage};
use zipora::concurrency::{
    AdaptiveYieldScheduler, AsyncBlobStore, AsyncFileStore, AsyncMemoryBlobStore, CooperativeUtils, FiberAio, FiberAioConfig,
    FiberIoUtils, FiberYield, GlobalYield, IoProvider, Pipeline, VectoredIo, YieldConfig, YieldPoint, YieldingIterator,
};
use zipora::error::{Result as ZResult, ZiporaError};
use zv::*;

type Log = Arc<Mutex<Vec<Value>>>;
type It = (u32, u32); // (id = position in the input, value)

fn t0() -> Instant {
    static T0: Mutex<Option<Instant>> = Mutex::new(None);
    *T0.lock().unwrap().get_or_insert_with(Instant::now)
}
fn now_ms() -> u64 {
    t0().elapsed().as_millis() as u64
}
fn rt() -> tokio::runtime::Runtime {
    tokio::runtime::Builder::new_multi_thread().worker_threads(4).enable_all().build().unwrap()
}
fn fail_err() -> ZiporaError {
    ZiporaError::invalid_data("stage failure requested by the harness")
}
/// F of the specification (PipelineStream.tla F(x) = 2x+1), failing on the listed inputs
fn f_fn(x: u32, fail: &[u32]) -> ZResult<u32> {
    if fail.contains(&x) {
        Err(fail_err())
    } else {
        Ok(2 * x + 1)
    }
}
/// G of the specification (G(x) = x+3), failing on the listed inputs
fn g_fn(x: u32, fail: &[u32]) -> ZResult<u32> {
    if fail.contains(&x) {
        Err(fail_err())
    } else {
        Ok(x + 3)
    }
}

// ---------------------------------------------------------------- stage pipelines

/// the identity stage "S": sleeps (asynchronously) far past the stage timeout on the listed values
struct SlowStage<T> {
    slow: Vec<u32>,
    nap: Duration,
    key: fn(&T) -> u32,
}
impl<T: Send + 'static> PipelineStage<T, T> for SlowStage<T> {
    fn process(&self, input: T) -> Pin<Box<dyn Future<Output = ZResult<T>> + Send + '_>> {
        let nap = self.nap;
        let is_slow = self.slow.contains(&(self.key)(&input));
        Box::pin(async move {
            if is_slow {
                tokio::time::sleep(nap).await;
            }
            Ok(input)
        })
    }
    fn name(&self) -> &str {
        "S"
    }
}

fn make_stage(kind: &str, fail_f: &[u32], fail_g: &[u32], slow: &[u32], nap: Duration) -> Box<dyn PipelineStage<It, It>> {
    match kind {
        "F" => {
            let fl = fail_f.to_vec();
            Box::new(MapStage::new("F".to_string(), move |(id, x): It| f_fn(x, &fl).map(|v| (id, v))))
        }
        "G" => {
            let fl = fail_g.to_vec();
            Box::new(MapStage::new("G".to_string(), move |(id, x): It| g_fn(x, &fl).map(|v| (id, v))))
        }
        _ => Box::new(SlowStage::<It> { slow: slow.to_vec(), nap, key: |it: &It| it.1 }),
    }
}

const STAGE_TIMEOUT_MS: u64 = 25;
const NAP_MS: u64 = 600;

async fn stream_once(rng: &mut Rng, c: &mut Counters) -> Value {
    let n = *rng.pick(&[0usize, 1, 2, 3, 5, 8, 20]);
    let input: Vec<u32> = (0..n).map(|_| rng.below(40) as u32).collect();
    let ns = rng.range(1, 4) as usize;
    let stages: Vec<&str> = (0..ns).map(|_| *rng.pick(&["F", "G", "F", "G", "S"])).collect();
    // failing inputs: chosen among values that can actually reach a stage
    let mut fail_f: Vec<u32> = vec![];
    let mut fail_g: Vec<u32> = vec![];
    let mut slow: Vec<u32> = vec![];
    if !input.is_empty() && rng.chance(1, 2) {
        let x = *rng.pick(&input);
        match rng.below(4) {
            0 => fail_f.push(x),
            1 => fail_g.push(if stages[0] == "G" { x } else { 2 * x + 1 }),
            2 => fail_f.push(if stages[0] == "F" { x } else { x + 3 }),
            _ => slow.push(if stages[0] == "S" { x } else if stages[0] == "F" { 2 * x + 1 } else { x + 3 }),
        }
    }
    let mut pc = PipelineConfig::default();
    pc.stage_timeout = Duration::from_millis(STAGE_TIMEOUT_MS);
    pc.buffer_size = *rng.pick(&[1usize, 2, 1000]);
    let in_cap = *rng.pick(&[1usize, 2, 64]);
    let out_cap = *rng.pick(&[1usize, 4, 64]);
    let lazy_consumer = rng.chance(1, 3);
    let p = Pipeline::new(pc.clone());
    let boxed: Vec<Box<dyn PipelineStage<It, It>>> =
        stages.iter().map(|k| make_stage(k, &fail_f, &fail_g, &slow, Duration::from_millis(NAP_MS))).collect();
    let (in_tx, in_rx) = mpsc::channel::<It>(in_cap);
    let (out_tx, mut out_rx) = mpsc::channel::<It>(out_cap);
    let inp = input.clone();
    let producer = tokio::spawn(async move {
        for (i, x) in inp.iter().enumerate() {
            if in_tx.send((i as u32 + 1, *x)).await.is_err() {
                break;
            }
        }
    });
    let collector = tokio::spawn(async move {
        let mut v: Vec<It> = vec![];
        while let Some(it) = out_rx.recv().await {
            v.push(it);
            if lazy_consumer && v.len() % 2 == 1 {
                tokio::time::sleep(Duration::from_millis(1)).await;
            }
        }
        v
    });
    // in a task of its own: a panic of the code under test is data
    let call = tokio::spawn(async move { tokio::time::timeout(Duration::from_secs(90), p.execute_stream(boxed, in_rx, out_tx)).await });
    let r = match call.await {
        Ok(r) => r,
        Err(e) => {
            producer.abort();
            collector.abort();
            return json!({"op":"panic","in":"Pipeline::execute_stream","msg":panic_msg(e),"stages":stages,"input":input});
        }
    };
    let cfgj = json!({"buffer":pc.buffer_size,"in_cap":in_cap,"out_cap":out_cap,"lazy_consumer":lazy_consumer});
    match r {
        Err(_) => {
            producer.abort();
            collector.abort();
            json!({"op":"hang","in":"Pipeline::execute_stream","stages":stages,"input":input,"cfg":cfgj})
        }
        Ok(res) => {
            let _ = producer.await;
            let out = collector.await.unwrap_or_default();
            c.items += input.len();
            if !fail_f.is_empty() || !fail_g.is_empty() || !slow.is_empty() {
                c.with_failure += 1;
            }
            let ids: Vec<u32> = out.iter().map(|o| o.0).collect();
            let vals: Vec<u32> = out.iter().map(|o| o.1).collect();
            json!({"op":"stream","stages":stages,"in":input,"failF":fail_f,"failG":fail_g,"slow":slow,"ok":res.is_ok(),
                   "out_ids":ids,"out_vals":vals,"cfg":cfgj})
        }
    }
}

#[derive(Default)]
struct Counters {
    items: usize,
    with_failure: usize,
    calls: usize,
}

fn mode_stream(a: &Args) {
    let mut tr = Tracer::new(&a.out, "pst");
    tr.max_events = 400;
    let rng0 = Rng::new(a.seed).derive("stream");
    let rt = rt();
    let mut c = Counters::default();
    let runs = a.get_u64("n", if a.thorough() { 1500 } else { 220 });
    // execute_stream
    for run in 0..runs {
        let mut rng = rng0.derive(&format!("s{run}"));
        if !a.wants("Pipeline::execute_stream") {
            continue;
        }
        tr.reset("pipeline", "Pipeline::execute_stream", json!({"fam":"stream","variant":"execute_stream"}));
        let e = rt.block_on(stream_once(&mut rng, &mut c));
        tr.ev(e);
        c.calls += 1;
    }
    // execute_two_stage / execute_single with a slow stage
    tr.max_events = 0;
    for run in 0..runs {
        let mut rng = rng0.derive(&format!("t{run}"));
        if !a.wants("Pipeline::execute_two_stage") {
            continue;
        }
        tr.reset("pipeline", "Pipeline::execute_two_stage", json!({"fam":"chain","variant":"two_stage"}));
        tr.max_events = 400;
        let x = rng.below(40) as u32;
        let (mut fail_f, mut fail_g, mut slow): (Vec<u32>, Vec<u32>, Vec<u32>) = (vec![], vec![], vec![]);
        match rng.below(6) {
            0 => fail_f.push(x),
            1 => fail_g.push(2 * x + 1),
            2 => slow.push(x),
            3 => slow.push(2 * x + 1),
            _ => {}
        }
        let mut pc = PipelineConfig::default();
        pc.stage_timeout = Duration::from_millis(STAGE_TIMEOUT_MS);
        let p = Pipeline::new(pc);
        let nap = Duration::from_millis(NAP_MS);
        let (ff, fg) = (fail_f.clone(), fail_g.clone());
        let kind = rng.below(4);
        let (stages, r): (Vec<&str>, ZResult<u32>) = match kind {
            0 => (
                vec!["F", "G"],
                rt.block_on(p.execute_two_stage(
                    MapStage::new("F".to_string(), move |x: u32| f_fn(x, &ff)),
                    MapStage::new("G".to_string(), move |x: u32| g_fn(x, &fg)),
                    x,
                )),
            ),
            1 => (
                vec!["S", "F"],
                rt.block_on(p.execute_two_stage(
                    SlowStage::<u32> { slow: slow.clone(), nap, key: |v: &u32| *v },
                    MapStage::new("F".to_string(), move |x: u32| f_fn(x, &ff)),
                    x,
                )),
            ),
            2 => (
                vec!["F", "S"],
                rt.block_on(p.execute_two_stage(
                    MapStage::new("F".to_string(), move |x: u32| f_fn(x, &ff)),
                    SlowStage::<u32> { slow: slow.clone(), nap, key: |v: &u32| *v },
                    x,
                )),
            ),
            _ => (vec!["S"], rt.block_on(p.execute_single(SlowStage::<u32> { slow: slow.clone(), nap, key: |v: &u32| *v }, x))),
        };
        let api = if kind == 3 { "Pipeline::execute_single" } else { "Pipeline::execute_two_stage" };
        let out: Vec<u32> = r.as_ref().map(|v| vec![*v]).unwrap_or_default();
        tr.ev(json!({"op":"chain","api":api,"stages":stages,"x":x,"failF":fail_f,"failG":fail_g,"slow":slow,"ok":r.is_ok(),"out":out}));
        c.calls += 1;
    }
    // BatchMapStage / FilterStage through process_batch and execute_single
    tr.max_events = 0;
    for run in 0..runs {
        let mut rng = rng0.derive(&format!("b{run}"));
        if !a.wants("BatchMapStage+FilterStage") {
            continue;
        }
        tr.reset("pipeline", "BatchMapStage+FilterStage", json!({"fam":"stages","variant":"batch_map_filter"}));
        tr.max_events = 400;
        let n = *rng.pick(&[0usize, 1, 2, 3, 7, 30]);
        let input: Vec<u32> = (0..n).map(|_| rng.below(50) as u32).collect();
        let fail: Vec<u32> = if !input.is_empty() && rng.chance(1, 3) { vec![*rng.pick(&input)] } else { vec![] };
        let mut pc = PipelineConfig::default();
        pc.stage_timeout = Duration::from_millis(500);
        pc.enable_batching = rng.chance(1, 2);
        pc.batch_size = *rng.pick(&[1usize, 2, 100]);
        let p = Pipeline::new(pc.clone());
        let with_batch = rng.chance(1, 2);
        let (f1, f2) = (fail.clone(), fail.clone());
        let r: ZResult<Vec<u32>> = if with_batch {
            let st = BatchMapStage::with_batch_support(
                "bm".to_string(),
                move |x: u32| f_fn(x, &f1),
                move |xs: Vec<u32>| xs.into_iter().map(|x| f_fn(x, &f2)).collect::<ZResult<Vec<u32>>>(),
            )
            .with_max_concurrency(rng.range(1, 4) as usize);
            rt.block_on(p.process_batch(st, input.clone()))
        } else {
            let st = BatchMapStage::<_, fn(Vec<u32>) -> ZResult<Vec<u32>>>::new("bm".to_string(), move |x: u32| f_fn(x, &f1));
            rt.block_on(p.process_batch(st, input.clone()))
        };
        let out = r.as_ref().cloned().unwrap_or_default();
        tr.ev(json!({"op":"mapf","api":"Pipeline::process_batch(BatchMapStage)","in":input,"fail":fail,"ok":r.is_ok(),"out":out,
                     "batching":pc.enable_batching,"batch_fn":with_batch}));
        if let Some(&x) = input.first() {
            let f1 = fail.clone();
            let st = BatchMapStage::<_, fn(Vec<u32>) -> ZResult<Vec<u32>>>::new("bm1".to_string(), move |x: u32| f_fn(x, &f1));
            let r = rt.block_on(p.execute_single(st, x));
            let out: Vec<u32> = r.as_ref().map(|v| vec![*v]).unwrap_or_default();
            tr.ev(json!({"op":"mapf","api":"Pipeline::execute_single(BatchMapStage)","in":[x],"fail":fail,"ok":r.is_ok(),"out":out}));
        }
        // one stage over the whole vector, built through PipelineBuilder; an item in the MIDDLE sleeps past
        // the stage timeout (kind S), fails (F / G): the call is an error, nothing is shifted
        let kind = *rng.pick(&["S", "F", "G"]);
        let mid = if input.len() >= 3 { vec![input[input.len() / 2]] } else if !input.is_empty() && rng.chance(1, 2) { vec![input[0]] } else { vec![] };
        let mid = if rng.chance(2, 3) { mid } else { vec![] };
        let in_flight = *rng.pick(&[1usize, input.len().max(1), input.len() + 1, 10_000]);
        let pb = zipora::concurrency::PipelineBuilder::new()
            .buffer_size(*rng.pick(&[1usize, 1000]))
            .max_in_flight(in_flight)
            .stage_timeout(Duration::from_millis(STAGE_TIMEOUT_MS))
            .enable_batching(rng.chance(1, 2))
            .batch_size(*rng.pick(&[1usize, 2, 100]))
            .batch_timeout(Duration::from_millis(5))
            .build();
        let m2 = mid.clone();
        let r: ZResult<Vec<u32>> = match kind {
            "S" => rt.block_on(pb.process_batch(SlowStage::<u32> { slow: mid.clone(), nap: Duration::from_millis(NAP_MS), key: |v: &u32| *v }, input.clone())),
            "F" => rt.block_on(pb.process_batch(MapStage::new("F".to_string(), move |x: u32| f_fn(x, &m2)), input.clone())),
            _ => rt.block_on(pb.process_batch(MapStage::new("G".to_string(), move |x: u32| g_fn(x, &m2)), input.clone())),
        };
        let (ff, fg, sl): (Vec<u32>, Vec<u32>, Vec<u32>) = match kind {
            "S" => (vec![], vec![], mid.clone()),
            "F" => (mid.clone(), vec![], vec![]),
            _ => (vec![], mid.clone(), vec![]),
        };
        tr.ev(json!({"op":"batch1","api":"PipelineBuilder..build().process_batch","kind":kind,"in":input,"failF":ff,"failG":fg,"slow":sl,
                     "ok":r.is_ok(),"out":r.unwrap_or_default(),"max_in_flight":in_flight}));
        c.calls += 1;
        // the predicate P of the specification: x % 3 != 0
        let r = rt.block_on(p.process_batch(FilterStage::new("flt".to_string(), |x: &u32| *x % 3 != 0), input.clone()));
        let out: Vec<Value> = r.as_ref().map(|v| v.iter().map(|o| opt(*o)).collect()).unwrap_or_default();
        tr.ev(json!({"op":"filter","in":input,"ok":r.is_ok(),"out":out}));
        c.calls += 3;
    }
    tr.close();
    write_summary(
        &a.out,
        &json!({"mode":"stream","events":tr.total_events,"runs":tr.runs,"items":c.items,"runs_with_failing_item":c.with_failure,"calls":c.calls}),
    );
}

// ---------------------------------------------------------------- batch collector

async fn collect_seq(rng: &mut Rng, max: usize, tmo_ms: u64) -> Vec<Value> {
    let mut ev = vec![];
    let c = BatchCollector::<u32>::new(max, Duration::from_millis(tmo_ms));
    // taken AFTER the constructor / a hand-out returned: never earlier than the collector's own last_flush
    let mut last_out = Instant::now();
    let mut next = 1u32;
    let steps = rng.range(3, 28);
    for _ in 0..steps {
        match rng.below(100) {
            0..=59 => {
                let id = next;
                next += 1;
                let r = c.add(id).await;
                match r {
                    Ok(Some(b)) => {
                        last_out = Instant::now();
                        ev.push(json!({"op":"add","id":id,"some":true,"b":b}));
                    }
                    Ok(None) => ev.push(json!({"op":"add","id":id,"some":false,"b":[]})),
                    Err(_) => ev.push(json!({"op":"refused","in":"add","id":id})),
                }
            }
            60..=77 => {
                if tmo_ms <= 20 && rng.chance(1, 2) {
                    tokio::time::sleep(Duration::from_millis(tmo_ms + 1)).await;
                }
                let due = last_out.elapsed() >= Duration::from_millis(tmo_ms);
                match c.check_timeout().await {
                    Ok(Some(b)) => {
                        last_out = Instant::now();
                        ev.push(json!({"op":"timeout","some":true,"due":due,"b":b}));
                    }
                    Ok(None) => ev.push(json!({"op":"timeout","some":false,"due":due,"b":[]})),
                    Err(_) => ev.push(json!({"op":"refused","in":"check_timeout"})),
                }
            }
            78..=87 => match c.flush().await {
                Ok(Some(b)) => {
                    last_out = Instant::now();
                    ev.push(json!({"op":"flush","some":true,"b":b}));
                }
                Ok(None) => ev.push(json!({"op":"flush","some":false,"b":[]})),
                Err(_) => ev.push(json!({"op":"refused","in":"flush"})),
            },
            _ => ev.push(json!({"op":"len","n":c.len().await})),
        }
    }
    // the end: flush until nothing comes, then nothing may be left
    for _ in 0..4 {
        match c.flush().await {
            Ok(Some(b)) => ev.push(json!({"op":"flush","some":true,"b":b})),
            _ => {
                ev.push(json!({"op":"flush","some":false,"b":[]}));
                break;
            }
        }
    }
    ev.push(json!({"op":"bc_end","n":c.len().await}));
    ev
}

struct ConcCfg {
    max: usize,
    tmo_us: u64,
    producers: u32,
    per: u32,
    checker_only: bool,
    grace_ms: u64,
}

async fn collect_conc(rng: &mut Rng, cfg: &ConcCfg) -> Vec<Value> {
    let c = Arc::new(BatchCollector::<u32>::new(cfg.max, Duration::from_micros(cfg.tmo_us)));
    let log: Log = Arc::new(Mutex::new(vec![]));
    let last = Arc::new(AtomicU64::new(now_ms()));
    let (l2, la2) = (log.clone(), last.clone());
    let checker = c.start_timeout_checker(move |b: Vec<u32>| {
        let (l3, la3) = (l2.clone(), la2.clone());
        Box::pin(async move {
            l3.lock().unwrap().push(json!({"op":"deliver","b":b}));
            la3.store(now_ms(), Ordering::SeqCst);
        })
    });
    let mut handles = vec![];
    for p in 0..cfg.producers {
        let (c, log, last) = (c.clone(), log.clone(), last.clone());
        let mut r = rng.derive(&format!("p{p}"));
        let per = cfg.per;
        handles.push(tokio::spawn(async move {
            for s in 1..=per {
                let id = 1000 * p + s;
                log.lock().unwrap().push(json!({"op":"offer","id":id}));
                let res = c.add(id).await;
                let e = match res {
                    Ok(Some(b)) => json!({"op":"add","id":id,"some":true,"b":b}),
                    Ok(None) => json!({"op":"add","id":id,"some":false,"b":[]}),
                    Err(_) => json!({"op":"refused","in":"add","id":id}),
                };
                log.lock().unwrap().push(e);
                last.store(now_ms(), Ordering::SeqCst);
                match r.below(4) {
                    0 => tokio::task::yield_now().await,
                    1 => tokio::time::sleep(Duration::from_micros(r.range(50, 1500))).await,
                    _ => {}
                }
            }
        }));
    }
    for h in handles {
        let _ = h.await;
    }
    let total = (cfg.producers * cfg.per) as usize;
    let handed = |log: &Log| -> usize {
        log.lock().unwrap().iter().filter(|e| e["op"] == "deliver" || e["op"] == "add" || e["op"] == "flush").map(|e| e["b"].as_array().map_or(0, |b| b.len())).sum()
    };
    if !cfg.checker_only {
        // flush while the checker is still running (both drain under the same lock)
        for _ in 0..4 {
            let r = c.flush().await;
            let some = matches!(r, Ok(Some(_)));
            let b = r.ok().flatten().unwrap_or_default();
            log.lock().unwrap().push(json!({"op":"flush","some":some,"b":b}));
            last.store(now_ms(), Ordering::SeqCst);
            if !some {
                break;
            }
        }
    }
    // checker_only: the timeout checker alone has to hand out what add() left in the buffer.
    // Wait until everything came out or nothing has happened for the grace period.
    loop {
        if handed(&log) >= total || now_ms().saturating_sub(last.load(Ordering::SeqCst)) > cfg.grace_ms {
            break;
        }
        tokio::time::sleep(Duration::from_millis(2)).await;
    }
    let mut ev: Vec<Value> = log.lock().unwrap().clone();
    if checker.is_finished() {
        // the checker loops forever: it can only have ended by a panic
        if let Err(e) = checker.await {
            ev.push(json!({"op":"panic","in":"BatchCollector::start_timeout_checker","msg":panic_msg(e)}));
        }
    } else {
        ev.push(json!({"op":"quiet","ms":cfg.grace_ms}));
        // (everything is out, or the run is already rejected: stopping the checker loses nothing)
        checker.abort();
        let _ = checker.await;
    }
    for _ in 0..4 {
        match c.flush().await {
            Ok(Some(b)) => ev.push(json!({"op":"flush","some":true,"b":b})),
            _ => {
                ev.push(json!({"op":"flush","some":false,"b":[]}));
                break;
            }
        }
    }
    ev.push(json!({"op":"bc_end","n":c.len().await}));
    ev
}

fn mode_collect(a: &Args) {
    let mut tr = Tracer::new(&a.out, "pbc");
    tr.max_events = 1500;
    let rng0 = Rng::new(a.seed).derive("collect");
    let rt = rt();
    let runs = a.get_u64("n", if a.thorough() { 1200 } else { 160 });
    for run in 0..runs {
        let mut rng = rng0.derive(&format!("q{run}"));
        let max = *rng.pick(&[1usize, 2, 3, 5]);
        let tmo = *rng.pick(&[0u64, 2, 8, 10_000]);
        if !a.wants("BatchCollector:sequential") {
            continue;
        }
        tr.reset("pipeline", "BatchCollector:sequential", json!({"fam":"bc_seq","variant":format!("max{max}_t{tmo}ms"),"max":max,"timeout_ms":tmo}));
        for e in rt.block_on(collect_seq(&mut rng, max, tmo)) {
            tr.ev(e);
        }
    }
    let grace = a.get_u64("grace_ms", 400);
    let cruns = a.get_u64("nc", if a.thorough() { 300 } else { 48 });
    let mut stuck = 0;
    for run in 0..cruns {
        let mut rng = rng0.derive(&format!("c{run}"));
        // a zero timeout is a configuration the module's own tests use (test_batch_collector_zero_timeout)
        let tmo_us = if run % 8 == 7 { 0 } else { *rng.pick(&[400u64, 1000, 4000]) };
        let cfg = ConcCfg {
            max: *rng.pick(&[1usize, 2, 3, 5]),
            tmo_us,
            producers: if run % 2 == 0 { 1 } else { rng.range(2, 3) as u32 },
            per: rng.range(1, 12) as u32,
            checker_only: run % 3 != 2,
            grace_ms: grace,
        };
        let subject = if tmo_us == 0 { "BatchCollector:timeout_checker@zero_timeout" } else { "BatchCollector:timeout_checker" };
        tr.max_events = if tmo_us == 0 { 0 } else { 1500 };
        if !a.wants(subject) {
            continue;
        }
        tr.reset(
            "pipeline",
            subject,
            json!({"fam":"bc_conc","variant":format!("max{}_p{}", cfg.max, cfg.producers),"max":cfg.max,"timeout_us":cfg.tmo_us,
                   "producers":cfg.producers,"per":cfg.per,"checker_only":cfg.checker_only}),
        );
        let ev = rt.block_on(collect_conc(&mut rng, &cfg));
        if ev.iter().any(|e| e["op"] == "panic") {
            stuck += 1;
        }
        for e in ev {
            tr.ev(e);
        }
    }
    tr.close();
    write_summary(&a.out, &json!({"mode":"collect","events":tr.total_events,"runs":tr.runs,"seq_runs":runs,"conc_runs":cruns,"checker_panics":stuck}));
}

// ---------------------------------------------------------------- async blob stores

const NEVER: [u32; 3] = [0, 999_983, 2_000_000_000];

fn get_json(r: &ZResult<Vec<u8>>) -> Value {
    match r {
        Ok(b) => json!({"ok": true, "d": digest(b)}),
        Err(_) => json!({"ok": false, "d": digest(&[])}),
    }
}
fn size_json(r: &ZResult<Option<usize>>) -> Value {
    match r {
        Ok(o) => json!({"ok": true, "r": opt(o.map(|x| x as u64))}),
        Err(_) => json!({"ok": false, "r": []}),
    }
}

async fn store_run(store: Arc<dyn AsyncBlobStore>, rng: &Rng, tasks: usize, ops: usize, sizes_ok: bool) -> (Vec<Value>, usize) {
    let log: Log = Arc::new(Mutex::new(vec![]));
    let published: Arc<Mutex<Vec<u32>>> = Arc::new(Mutex::new(vec![]));
    let all_ids: Arc<Mutex<Vec<u32>>> = Arc::new(Mutex::new(vec![]));
    let mut hs = vec![];
    for t in 0..tasks {
        let (store, log, published, all_ids) = (store.clone(), log.clone(), published.clone(), all_ids.clone());
        let mut r = rng.derive(&format!("task{t}"));
        hs.push(tokio::spawn(async move {
            let mut private: Vec<u32> = vec![]; // ids only this task knows: it alone may remove them
            let mut removed: Vec<u32> = vec![];
            for _ in 0..ops {
                match r.below(100) {
                    0..=44 => {
                        let len = *r.pick(&[0usize, 1, 17, 300, 5000]);
                        let data = r.bytes(len);
                        let res = store.put(&data).await;
                        match res {
                            Ok(id) => {
                                // logged first, published afterwards: every get of another task is logged after this line
                                log.lock().unwrap().push(json!({"op":"put","d":digest(&data),"ok":true,"id":id,"stored":[]}));
                                all_ids.lock().unwrap().push(id);
                                if r.chance(1, 3) {
                                    private.push(id);
                                } else {
                                    published.lock().unwrap().push(id);
                                }
                            }
                            Err(_) => log.lock().unwrap().push(json!({"op":"put","d":digest(&data),"ok":false,"id":0,"stored":[]})),
                        }
                    }
                    45..=52 => {
                        let ds: Vec<Vec<u8>> = (0..r.range(0, 4)).map(|_| {
                            let n = r.below(40) as usize;
                            r.bytes(n)
                        }).collect();
                        let refs: Vec<&[u8]> = ds.iter().map(|d| d.as_slice()).collect();
                        let res = store.put_batch(refs).await;
                        let dj: Vec<Value> = ds.iter().map(|d| digest(d)).collect();
                        match res {
                            Ok(ids) => {
                                log.lock().unwrap().push(json!({"op":"put_batch","ds":dj,"ok":true,"ids":ids,"len_after":0}));
                                all_ids.lock().unwrap().extend(ids.iter().copied());
                                published.lock().unwrap().extend(ids.iter().copied());
                            }
                            Err(_) => log.lock().unwrap().push(json!({"op":"put_batch","ds":dj,"ok":false,"ids":[],"len_after":0})),
                        }
                    }
                    53..=79 => {
                        // get: an id that stays (published), one of my own, one I removed, or one never issued
                        let id = match r.below(10) {
                            0 => *r.pick(&NEVER),
                            1 if !removed.is_empty() => *r.pick(&removed),
                            2..=4 if !private.is_empty() => *r.pick(&private),
                            _ => {
                                let p = published.lock().unwrap();
                                if p.is_empty() {
                                    NEVER[1]
                                } else {
                                    *r.pick(&p)
                                }
                            }
                        };
                        let res = store.get(id).await;
                        let mut e = get_json(&res);
                        e["op"] = json!("get");
                        e["id"] = json!(id);
                        log.lock().unwrap().push(e);
                    }
                    80..=87 if !private.is_empty() => {
                        let i = r.below(private.len() as u64) as usize;
                        let id = private.swap_remove(i);
                        let ok = store.remove(id).await.is_ok();
                        log.lock().unwrap().push(json!({"op":"remove","id":id,"ok":ok}));
                        if ok {
                            removed.push(id);
                        } else {
                            private.push(id);
                        }
                    }
                    88..=93 => {
                        let id = if !private.is_empty() && r.chance(1, 2) { *r.pick(&private) } else if !removed.is_empty() { *r.pick(&removed) } else { NEVER[0] };
                        let c = store.contains(id).await;
                        log.lock().unwrap().push(json!({"op":"contains","id":id,"r":c}));
                    }
                    _ => {
                        if sizes_ok && !private.is_empty() {
                            let id = *r.pick(&private);
                            let mut e = size_json(&store.size(id).await);
                            e["op"] = json!("size");
                            e["id"] = json!(id);
                            log.lock().unwrap().push(e);
                        } else {
                            tokio::task::yield_now().await;
                        }
                    }
                }
            }
        }));
    }
    let mut panics = 0;
    for h in hs {
        if h.await.is_err() {
            panics += 1;
        }
    }
    let mut ev: Vec<Value> = log.lock().unwrap().clone();
    if panics > 0 {
        ev.push(json!({"op":"panic","in":"async store task","msg":format!("{panics} tasks panicked")}));
        return (ev, 0);
    }
    // quiescent: the whole observable projection
    let mut ids: Vec<u32> = all_ids.lock().unwrap().clone();
    ids.sort();
    let nput = ids.len();
    ids.extend(NEVER.iter().copied());
    let _ = store.flush().await;
    if sizes_ok {
        let mut g = vec![];
        let mut c = vec![];
        let mut z = vec![];
        for &i in &ids {
            g.push(get_json(&store.get(i).await));
            c.push(store.contains(i).await);
            z.push(size_json(&store.size(i).await));
        }
        ev.push(json!({"op":"probe","ids":ids,"get":g,"contains":c,"size":z,"len":store.len().await}));
    } else {
        for &i in &ids {
            let mut e = get_json(&store.get(i).await);
            e["op"] = json!("get");
            e["id"] = json!(i);
            ev.push(e);
            ev.push(json!({"op":"contains","id":i,"r":store.contains(i).await}));
        }
        ev.push(json!({"op":"len","r":store.len().await}));
    }
    // get_batch of everything that stayed
    (ev, nput)
}

fn mode_store(a: &Args) {
    let mut tr = Tracer::new(&a.out, "pas");
    tr.max_events = 2500;
    let rng0 = Rng::new(a.seed).derive("store");
    let rt = rt();
    let reps = a.get_u64("n", if a.thorough() { 30 } else { 5 });
    let mut puts = 0usize;
    for name in ["async_mem", "async_file", "async_zstd_mem"] {
        if !a.wants(name) {
            continue;
        }
        tr.max_events = 0;
        for rep in 0..reps {
            for tasks in [1usize, 2, 4, 8] {
                let rng = rng0.derive(&format!("{name}/{rep}/{tasks}"));
                let dir = a.out.join(format!("afs-{rep}-{tasks}"));
                let store: Arc<dyn AsyncBlobStore> = match name {
                    "async_mem" if rep % 2 == 1 => Arc::new(AsyncMemoryBlobStore::with_capacity(tasks)),
                    "async_mem" => Arc::new(AsyncMemoryBlobStore::new()),
                    "async_file" => match rt.block_on(AsyncFileStore::new(&dir)) {
                        Ok(s) => Arc::new(s),
                        Err(_) => continue,
                    },
                    _ => Arc::new(AsyncCompressedBlobStore::new(AsyncMemoryBlobStore::new(), 3)),
                };
                tr.reset("blobstore", name, json!({"fam":name,"variant":format!("tasks{tasks}"),"regime":"concurrent","seed":a.seed,"keyed":false,"tasks":tasks}));
                tr.max_events = 2500;
                let ops = if name == "async_file" { 14 } else { 24 };
                let (ev, n) = rt.block_on(store_run(store, &rng, tasks, ops, name != "async_zstd_mem"));
                puts += n;
                for e in ev {
                    tr.ev(e);
                }
                let _ = std::fs::remove_dir_all(&dir);
            }
        }
    }
    tr.close();
    write_summary(&a.out, &json!({"mode":"store","events":tr.total_events,"runs":tr.runs,"records_put":puts}));
}

// ---------------------------------------------------------------- async blob stores: stress, judged at quiescence

#[derive(Default)]
struct TaskRec {
    puts: Vec<(u32, Value)>, // (id, digest of the bytes this task supplied)
    removed: Vec<u32>,
    reads: Vec<Value>,
    calls: usize,
    refused: usize,
}

/// payloads are unique over the whole round: task, sequence number, then seeded bytes
fn payload(t: usize, seq: &mut u32, r: &mut Rng) -> Vec<u8> {
    *seq += 1;
    let mut v = vec![t as u8, (*seq & 0xff) as u8, (*seq >> 8) as u8, 0xA5];
    let extra = *r.pick(&[0usize, 3, 40]);
    v.extend(r.bytes(extra));
    v
}

async fn stress_task(store: Arc<dyn AsyncBlobStore>, t: usize, mut r: Rng, ops: usize, batch_sizes: &'static [usize], start: Arc<tokio::sync::Barrier>) -> TaskRec {
    let mut rec = TaskRec::default();
    let mut seq = 0u32;
    let mut mine: Vec<(u32, Value)> = vec![]; // ids I put and did not remove
    start.wait().await;
    for _ in 0..ops {
        rec.calls += 1;
        match r.below(100) {
            0..=39 => {
                // a burst of single puts
                for _ in 0..*r.pick(&[1usize, 5, 30]) {
                    let data = payload(t, &mut seq, &mut r);
                    match store.put(&data).await {
                        Ok(id) => {
                            rec.puts.push((id, digest(&data)));
                            mine.push((id, digest(&data)));
                        }
                        Err(_) => rec.refused += 1,
                    }
                }
            }
            40..=69 => {
                let n = *r.pick(batch_sizes);
                let ds: Vec<Vec<u8>> = (0..n).map(|_| payload(t, &mut seq, &mut r)).collect();
                let refs: Vec<&[u8]> = ds.iter().map(|d| d.as_slice()).collect();
                match store.put_batch(refs).await {
                    Ok(ids) => {
                        if ids.len() != ds.len() {
                            // one result per input: recorded as a read that cannot be right
                            rec.reads.push(json!({"ok":false,"d":digest(&[]),"want":digest(&[]),"what":"put_batch returned another number of ids","n":ds.len(),"got":ids.len()}));
                        }
                        for (id, d) in ids.iter().zip(ds.iter()) {
                            rec.puts.push((*id, digest(d)));
                            mine.push((*id, digest(d)));
                        }
                    }
                    Err(_) => rec.refused += 1,
                }
            }
            70..=79 if !mine.is_empty() => {
                let (id, want) = mine[r.below(mine.len() as u64) as usize].clone();
                let mut e = get_json(&store.get(id).await);
                e["want"] = want;
                e["id"] = json!(id);
                rec.reads.push(e);
            }
            80..=85 if !mine.is_empty() => {
                let k = (r.range(1, 6) as usize).min(mine.len());
                let from = r.below((mine.len() - k + 1) as u64) as usize;
                let part: Vec<(u32, Value)> = mine[from..from + k].to_vec();
                match store.get_batch(part.iter().map(|p| p.0).collect()).await {
                    Ok(v) if v.len() == part.len() => {
                        for (b, p) in v.iter().zip(part.iter()) {
                            rec.reads.push(json!({"ok":true,"d":digest(b),"want":p.1,"id":p.0,"via":"get_batch"}));
                        }
                    }
                    _ => rec.reads.push(json!({"ok":false,"d":digest(&[]),"want":part[0].1,"id":part[0].0,"via":"get_batch"})),
                }
            }
            86..=93 if !mine.is_empty() => {
                let i = r.below(mine.len() as u64) as usize;
                let (id, _) = mine.swap_remove(i);
                if store.remove(id).await.is_ok() {
                    rec.removed.push(id);
                } else {
                    // a refused remove of an id I own: it must still be there - judged at quiescence
                    rec.refused += 1;
                }
            }
            94..=96 if !mine.is_empty() => {
                let (id, want) = mine[r.below(mine.len() as u64) as usize].clone();
                let c = store.contains(id).await;
                rec.reads.push(json!({"ok":c,"d":want.clone(),"want":want,"id":id,"via":"contains"}));
            }
            _ => {
                let _ = store.len().await;
                tokio::task::yield_now().await;
            }
        }
    }
    rec
}

/// duel payload: exactly 4 bytes = task (1 byte) and sequence number (3 bytes); read back as an integer
fn duel_payload(t: usize, seq: u32) -> Vec<u8> {
    vec![t as u8, (seq & 0xff) as u8, ((seq >> 8) & 0xff) as u8, ((seq >> 16) & 0x7f) as u8]
}
fn duel_value(b: &[u8]) -> i64 {
    if b.len() == 4 {
        u32::from_le_bytes([b[0], b[1], b[2], b[3]]) as i64
    } else {
        -1
    }
}
#[derive(Default)]
struct DuelRec {
    puts: Vec<(u32, i64)>,
    rv: Vec<i64>,
    rw: Vec<i64>,
    calls: usize,
}

/// "duel" round roles: a batcher stores `batches` batches of `blen` records back to back (payloads made
/// before the start, so that it spends its time inside put_batch) ...
async fn duel_batcher(store: Arc<dyn AsyncBlobStore>, t: usize, batches: usize, blen: usize, start: Arc<tokio::sync::Barrier>, left: Arc<AtomicU64>) -> DuelRec {
    let mut rec = DuelRec::default();
    let all: Vec<Vec<Vec<u8>>> = (0..batches).map(|b| (0..blen).map(|i| duel_payload(t, (b * blen + i) as u32 + 1)).collect()).collect();
    let mut got: Vec<Option<Vec<u32>>> = vec![];
    start.wait().await;
    for ds in &all {
        rec.calls += 1;
        let refs: Vec<&[u8]> = ds.iter().map(|d| d.as_slice()).collect();
        got.push(store.put_batch(refs).await.ok());
        tokio::task::yield_now().await;
    }
    left.fetch_sub(1, Ordering::SeqCst);
    for (ds, ids) in all.iter().zip(got) {
        if let Some(ids) = ids {
            if ids.len() != ds.len() {
                // one id per input: recorded as a read that cannot be right
                rec.rv.push(ids.len() as i64);
                rec.rw.push(ds.len() as i64);
            }
            for (id, d) in ids.iter().zip(ds.iter()) {
                rec.puts.push((*id, duel_value(d)));
            }
        }
    }
    rec
}

/// ... while a putter stores single records (and reads some back) until the batchers are done
async fn duel_putter(store: Arc<dyn AsyncBlobStore>, t: usize, cap: usize, start: Arc<tokio::sync::Barrier>, left: Arc<AtomicU64>) -> DuelRec {
    let mut rec = DuelRec::default();
    let mut seq = 0u32;
    start.wait().await;
    while left.load(Ordering::SeqCst) > 0 && rec.puts.len() < cap {
        rec.calls += 1;
        seq += 1;
        let data = duel_payload(t, seq);
        if let Ok(id) = store.put(&data).await {
            rec.puts.push((id, duel_value(&data)));
            if seq % 64 == 0 {
                rec.rv.push(store.get(id).await.map_or(-1, |b| duel_value(&b)));
                rec.rw.push(duel_value(&data));
            }
        }
        if seq % 4 == 0 {
            tokio::task::yield_now().await;
        }
    }
    rec
}

async fn duel_round(store: Arc<dyn AsyncBlobStore>, k: usize, batches: usize, blen: usize) -> (Value, usize, usize) {
    let start = Arc::new(tokio::sync::Barrier::new(k));
    let nb = if k == 2 { 1 } else { 2 };
    let left = Arc::new(AtomicU64::new(nb as u64));
    let hs: Vec<_> = (0..k)
        .map(|t| {
            if t < nb {
                tokio::spawn(duel_batcher(store.clone(), t, batches, blen, start.clone(), left.clone()))
            } else {
                tokio::spawn(duel_putter(store.clone(), t, batches * blen / 2, start.clone(), left.clone()))
            }
        })
        .collect();
    let (mut ids, mut vs, mut rv, mut rw, mut calls) = (vec![], vec![], vec![], vec![], 0usize);
    for h in hs {
        match h.await {
            Ok(r) => {
                calls += r.calls;
                ids.extend(r.puts.iter().map(|p| p.0));
                vs.extend(r.puts.iter().map(|p| p.1));
                rv.extend(r.rv);
                rw.extend(r.rw);
            }
            Err(e) => return (json!({"op":"panic","in":"async store task","msg":panic_msg(e)}), 0, 0),
        }
    }
    let mut fv = vec![];
    for id in &ids {
        fv.push(store.get(*id).await.map_or(-1, |b| duel_value(&b)));
    }
    let (gbok, gbv) = match store.get_batch(ids.clone()).await {
        Ok(v) if v.len() == ids.len() => (true, v.iter().map(|b| duel_value(b)).collect::<Vec<i64>>()),
        _ => (false, vec![]),
    };
    let n = ids.len();
    (json!({"op":"as_quiesce_c","ids":ids,"vs":vs,"fv":fv,"gbok":gbok,"gbv":gbv,"rv":rv,"rw":rw,"len":store.len().await}), calls, n)
}

fn mode_storeq(a: &Args) {
    let mut tr = Tracer::new(&a.out, "paq");
    tr.max_events = 0;
    let rng0 = Rng::new(a.seed).derive("storeq");
    let rt = rt();
    let rounds = a.get_u64("n", if a.thorough() { 400 } else { 80 }) as usize;
    let (mut calls, mut records, mut big_batches) = (0usize, 0usize, 0usize);
    static BIG: [usize; 4] = [1, 2, 17, 200];
    static SMALL: [usize; 3] = [1, 2, 17];
    for (name, share) in [("async_mem", 6usize), ("async_zstd_mem", 2), ("async_file", 1), ("async_zstd_file", 1)] {
        if !a.wants(name) {
            continue;
        }
        let n_rounds = (rounds * share / 10).max(4);
        for round in 0..n_rounds {
            let rng = rng0.derive(&format!("{name}/{round}"));
            let k = [2usize, 4, 8][round % 3];
            let on_disk = name.ends_with("file");
            let dir = a.out.join(format!("aq-{name}-{round}"));
            let store: Arc<dyn AsyncBlobStore> = match name {
                "async_mem" if round % 2 == 1 => Arc::new(AsyncMemoryBlobStore::with_capacity(64)),
                "async_mem" => Arc::new(AsyncMemoryBlobStore::new()),
                "async_zstd_mem" => Arc::new(AsyncCompressedBlobStore::new(AsyncMemoryBlobStore::new(), 1)),
                _ => {
                    let inner = match rt.block_on(AsyncFileStore::new(&dir)) {
                        Ok(s) => s,
                        Err(_) => continue,
                    };
                    if name == "async_file" {
                        Arc::new(inner)
                    } else {
                        Arc::new(AsyncCompressedBlobStore::new(inner, 1))
                    }
                }
            };
            if tr.runs % 4 == 0 {
                tr.max_events = 0;
            }
            tr.reset("pipeline", &format!("{name}@stress"), json!({"fam":"as_stress","variant":name,"tasks":k,"round":round,"duel":name == "async_mem" && round % 2 == 1}));
            tr.max_events = 1_000_000;
            let ops = if on_disk { 6 } else { 10 };
            let sizes: &'static [usize] = if on_disk { &SMALL } else { &BIG };
            // every second round of AsyncMemoryBlobStore is a duel: batchers (8 x put_batch of 2000, back to
            // back) against putters that store single records for as long as the batchers run
            if name == "async_mem" && round % 2 == 1 {
                let (ev, c, n) = rt.block_on(duel_round(store.clone(), k, 8, 2000));
                calls += c;
                records += n;
                big_batches += n / 200;
                tr.ev(ev);
                continue;
            }
            let ev = rt.block_on(async {
                let start = Arc::new(tokio::sync::Barrier::new(k));
                let hs: Vec<_> = (0..k).map(|t| tokio::spawn(stress_task(store.clone(), t, rng.derive(&format!("t{t}")), ops, sizes, start.clone()))).collect();
                let mut recs = vec![];
                for h in hs {
                    match h.await {
                        Ok(r) => recs.push(r),
                        Err(e) => return json!({"op":"panic","in":"async store task","msg":panic_msg(e)}),
                    }
                }
                // quiescence: everything the tasks were told, and what the store says now
                let _ = store.flush().await;
                let mut puts: Vec<(u32, Value)> = vec![];
                let mut removed: Vec<u32> = vec![];
                let mut reads: Vec<Value> = vec![];
                for r in recs {
                    calls += r.calls;
                    puts.extend(r.puts);
                    removed.extend(r.removed);
                    reads.extend(r.reads);
                }
                let mut fin = vec![];
                let mut cont = vec![];
                for (id, _) in &puts {
                    fin.push(get_json(&store.get(*id).await));
                    cont.push(store.contains(*id).await);
                }
                let gone: std::collections::HashSet<u32> = removed.iter().copied().collect();
                let live_ids: Vec<u32> = puts.iter().map(|p| p.0).filter(|id| !gone.contains(id)).collect();
                let gb = match store.get_batch(live_ids.clone()).await {
                    Ok(v) if v.len() == live_ids.len() => json!({"ok":true,"items":v.iter().zip(live_ids.iter()).map(|(b, id)| json!({"id":id,"d":digest(b)})).collect::<Vec<_>>()}),
                    Ok(v) => json!({"ok":false,"items":[],"what":"get_batch returned another number of records","got":v.len()}),
                    Err(_) => json!({"ok":false,"items":[]}),
                };
                let pj: Vec<Value> = puts.iter().map(|(id, d)| json!({"id":id,"d":d})).collect();
                records += pj.len();
                json!({"op":"as_quiesce","puts":pj,"removed":removed,"final":fin,"contains":cont,"reads":reads,"gb":gb,"len":store.len().await})
            });
            big_batches += ev["puts"].as_array().map_or(0, |p| p.len() / 200);
            tr.ev(ev);
            if on_disk {
                let _ = std::fs::remove_dir_all(&dir);
            }
        }
    }
    tr.close();
    write_summary(&a.out, &json!({"mode":"storeq","events":tr.total_events,"runs":tr.runs,"calls":calls,"records_put":records,"approx_big_batches":big_batches}));
}

// ---------------------------------------------------------------- yielding fibers

#[derive(Clone, Copy)]
enum FKind {
    Own,
    Handle,
    Point,
    Global,
}

async fn global_body(want: u32, mut r: Rng) -> u32 {
    let mut iters = 0u32;
    for _ in 0..want {
        match r.below(3) {
            0 => GlobalYield::force_yield().await,
            1 => GlobalYield::yield_if_needed().await,
            _ => GlobalYield::yield_now().await,
        }
        iters += 1;
    }
    iters
}

async fn fiber_body(kind: FKind, cfg: YieldConfig, sched: Arc<AdaptiveYieldScheduler>, interval: usize, want: u32, mut r: Rng) -> u32 {
    let mut iters = 0u32;
    match kind {
        FKind::Own => {
            let y = FiberYield::with_config(cfg);
            for _ in 0..want {
                match r.below(7) {
                    0 => y.force_yield().await,
                    1 => y.yield_if_needed().await,
                    2 => y.yield_for(Duration::from_micros(r.range(1, 300))).await,
                    3 => {
                        y.update_budget(*r.pick(&[0.0, 0.5, 1.0]));
                        y.yield_now().await
                    }
                    4 if r.chance(1, 4) => y.reset(),
                    _ => y.yield_now().await,
                }
                iters += 1;
            }
        }
        FKind::Handle => {
            let h = sched.register_fiber();
            for _ in 0..want {
                h.yield_now().await;
                iters += 1;
            }
        }
        FKind::Point => {
            let p = YieldPoint::new(interval);
            for _ in 0..want {
                if r.chance(1, 5) {
                    p.yield_now().await;
                } else {
                    p.checkpoint().await;
                }
                iters += 1;
            }
        }
        FKind::Global => {}
    }
    iters
}

fn panic_msg(e: tokio::task::JoinError) -> String {
    if e.is_panic() {
        guard(|| std::panic::resume_unwind(e.into_panic())).err().unwrap_or_default()
    } else {
        "cancelled".to_string()
    }
}

fn mode_yield(a: &Args) {
    let mut tr = Tracer::new(&a.out, "pfy");
    tr.max_events = 1500;
    let rng0 = Rng::new(a.seed).derive("yield");
    let rt = rt();
    let runs = a.get_u64("n", if a.thorough() { 600 } else { 80 });
    let grace = a.get_u64("grace_ms", 400);
    let mut fibers_total = 0usize;
    let mut first_zero = true;
    for run in 0..runs {
        let mut rng = rng0.derive(&format!("y{run}"));
        let zero_interval = run % 10 == 9;
        let cfg = YieldConfig {
            initial_budget: *rng.pick(&[0u8, 1, 2, 16, 255]),
            max_budget: *rng.pick(&[0u8, 1, 32, 255]),
            min_budget: *rng.pick(&[0u8, 1, 40]),
            decay_rate: 0.1,
            yield_threshold: *rng.pick(&[Duration::ZERO, Duration::from_micros(100), Duration::from_millis(10)]),
            adaptive_budgeting: rng.chance(1, 2),
        };
        let nf = *rng.pick(&[1usize, 3, 8, 20]);
        let interval = if zero_interval { 0 } else { *rng.pick(&[1usize, 2, 5, 1000]) };
        let subject = if zero_interval { "fiber_yield@interval0" } else { "fiber_yield" };
        if zero_interval && first_zero {
            tr.max_events = 0;
            first_zero = false;
        }
        if !a.wants(subject) {
            continue;
        }
        tr.reset(
            "pipeline",
            subject,
            json!({"fam":"fibers","variant":format!("b{}", cfg.initial_budget),"fibers":nf,"interval":interval,"initial_budget":cfg.initial_budget,
                   "max_budget":cfg.max_budget,"min_budget":cfg.min_budget,"adaptive":cfg.adaptive_budgeting}),
        );
        tr.max_events = 1500;
        let log: Log = Arc::new(Mutex::new(vec![]));
        let last = Arc::new(AtomicU64::new(now_ms()));
        let sched = Arc::new(AdaptiveYieldScheduler::with_config(cfg.clone()));
        let local = tokio::task::LocalSet::new();
        let ev: Vec<Value> = rt.block_on(local.run_until(async {
            let mut hs = vec![];
            for i in 0..nf {
                let id = i as u32 + 1;
                let kind = if zero_interval { FKind::Point } else { *rng.pick(&[FKind::Own, FKind::Handle, FKind::Point, FKind::Global]) };
                let want = rng.below(40) as u32;
                let r = rng.derive(&format!("f{i}"));
                log.lock().unwrap().push(json!({"op":"fspawn","id":id}));
                let (l2, la2, c2, s2) = (log.clone(), last.clone(), cfg.clone(), sched.clone());
                // GlobalYield futures are Send: they run on the worker threads; the others hold a
                // FiberYield (Cell inside) across an await and live on the LocalSet
                if matches!(kind, FKind::Global) {
                    hs.push(tokio::spawn(async move {
                        let iters = global_body(want, r).await;
                        l2.lock().unwrap().push(json!({"op":"fdone","id":id,"want":want,"iters":iters}));
                        la2.store(now_ms(), Ordering::SeqCst);
                    }));
                } else {
                    hs.push(tokio::task::spawn_local(async move {
                        let iters = fiber_body(kind, c2, s2, interval, want, r).await;
                        l2.lock().unwrap().push(json!({"op":"fdone","id":id,"want":want,"iters":iters}));
                        la2.store(now_ms(), Ordering::SeqCst);
                    }));
                }
            }
            last.store(now_ms(), Ordering::SeqCst);
            loop {
                let done = hs.iter().filter(|h| h.is_finished()).count();
                if done == hs.len() || now_ms().saturating_sub(last.load(Ordering::SeqCst)) > grace {
                    break;
                }
                tokio::time::sleep(Duration::from_millis(1)).await;
            }
            let mut ev: Vec<Value> = log.lock().unwrap().clone();
            let mut pending = 0;
            for h in hs {
                if h.is_finished() {
                    if let Err(e) = h.await {
                        ev.push(json!({"op":"panic","in":"fiber","msg":panic_msg(e)}));
                        break;
                    }
                } else {
                    pending += 1;
                    h.abort();
                }
            }
            if !ev.iter().any(|e| e["op"] == "panic") {
                ev.push(json!({"op":"fend","pending":pending}));
            }
            ev
        }));
        fibers_total += nf;
        for e in ev {
            tr.ev(e);
        }
    }
    // the order-keeping helpers
    tr.max_events = 0;
    let mut calls = 0;
    for run in 0..runs {
        let mut rng = rng0.derive(&format!("u{run}"));
        let zero_interval = run % 10 == 9;
        let interval = if zero_interval { 0usize } else { *rng.pick(&[1usize, 2, 3, 7, 1000]) };
        let subject = if zero_interval { "CooperativeUtils@interval0" } else { "CooperativeUtils+YieldingIterator" };
        if run == 0 || run == 9 {
            tr.max_events = 0;
        }
        if !a.wants(subject) {
            continue;
        }
        tr.reset("pipeline", subject, json!({"fam":"yield_utils","variant":format!("i{interval}"),"interval":interval}));
        tr.max_events = 1500;
        let n = *rng.pick(&[0usize, 1, 2, 5, 12, 30]);
        let input: Vec<u32> = (0..n).map(|_| rng.below(50) as u32).collect();
        let fail: Vec<u32> = if !input.is_empty() && rng.chance(1, 3) { vec![*rng.pick(&input)] } else { vec![] };
        let failn: Vec<u32> = if n > 0 && rng.chance(1, 3) { vec![rng.below(n as u64) as u32] } else { vec![] };
        let which = if zero_interval { rng.below(4) } else { rng.below(5) };
        let (inp, fl, fln) = (input.clone(), fail.clone(), failn.clone());
        let res: Result<Value, String> = rt.block_on(async move {
            let jh = tokio::task::LocalSet::new()
                .run_until(async move {
                    tokio::task::spawn_local(async move {
                        match which {
                            0 => {
                                let r = CooperativeUtils::run_with_yield(inp.len(), interval, |i| f_fn(i as u32, &fln)).await;
                                json!({"op":"rwy","api":"CooperativeUtils::run_with_yield","n":inp.len(),"fail":fln,"ok":r.is_ok(),"out":r.unwrap_or_default()})
                            }
                            1 => {
                                let f2 = fl.clone();
                                let r = CooperativeUtils::process_vec_yielding(inp.clone(), interval, move |x| f_fn(x, &f2)).await;
                                json!({"op":"mapf","api":"CooperativeUtils::process_vec_yielding","in":inp,"fail":fl,"ok":r.is_ok(),"out":r.unwrap_or_default()})
                            }
                            2 => {
                                let mut seen: Vec<u32> = vec![];
                                let r = YieldingIterator::new(inp.clone().into_iter(), interval)
                                    .for_each(|x| {
                                        seen.push(x);
                                        Ok(())
                                    })
                                    .await;
                                json!({"op":"iter","api":"YieldingIterator::for_each","in":inp,"ok":r.is_ok(),"count":r.unwrap_or(0),"seen":seen})
                            }
                            3 => {
                                let v: Vec<u32> = YieldingIterator::new(inp.clone().into_iter(), interval).collect().await;
                                json!({"op":"iter","api":"YieldingIterator::collect","in":inp,"ok":true,"count":v.len(),"seen":v})
                            }
                            _ => {
                                // operation i finishes the earlier the later it was submitted
                                let nn = inp.len() as u64;
                                let ops: Vec<_> = inp
                                    .iter()
                                    .enumerate()
                                    .map(|(i, &x)| {
                                        let f2 = fl.clone();
                                        async move {
                                            tokio::time::sleep(Duration::from_micros(300 * (nn - i as u64))).await;
                                            f_fn(x, &f2)
                                        }
                                    })
                                    .collect();
                                let maxc = interval.clamp(1, 8);
                                let r = CooperativeUtils::concurrent_with_yield(ops, maxc).await;
                                json!({"op":"mapf","api":"CooperativeUtils::concurrent_with_yield","in":inp,"fail":fl,"ok":r.is_ok(),"out":r.unwrap_or_default(),"max_concurrent":maxc})
                            }
                        }
                    })
                    .await
                })
                .await;
            jh.map_err(panic_msg)
        });
        match res {
            Ok(e) => tr.ev(e),
            Err(msg) => {
                let api = ["run_with_yield", "process_vec_yielding", "YieldingIterator::for_each", "YieldingIterator::collect", "concurrent_with_yield"][which as usize];
                tr.ev(json!({"op":"panic","in":api,"msg":msg}))
            }
        }
        calls += 1;
    }
    tr.close();
    write_summary(&a.out, &json!({"mode":"yield","events":tr.total_events,"runs":tr.runs,"fibers":fibers_total,"helper_calls":calls}));
}

// ---------------------------------------------------------------- async file I/O

fn aio_with(rb: usize, ra: usize) -> FiberAio {
    FiberAio::with_config(FiberAioConfig {
        io_provider: IoProvider::Tokio,
        read_buffer_size: rb,
        write_buffer_size: rb,
        enable_vectored_io: true,
        enable_direct_io: false,
        read_ahead_size: ra,
    })
    .expect("FiberAio::with_config")
}

fn write_file(p: &Path, b: &[u8]) {
    std::fs::write(p, b).expect("harness: write input file");
}

/// one seeded history on an opened (read-only) FiberFile.  `flavour` selects the operations offered.
async fn file_read_history(rng: &mut Rng, path: &Path, flavour: &str, rb: usize, ra: usize) -> Vec<Value> {
    let len = *rng.pick(&[0usize, 1, 7, 50, 200]);
    let content = rng.bytes(len);
    write_file(path, &content);
    let aio = aio_with(rb, ra);
    let mut ev = vec![];
    let mut f = match aio.open(path).await {
        Ok(f) => f,
        Err(_) => return vec![json!({"op":"note","what":"open refused"})],
    };
    ev.push(json!({"op":"fopen","content":bytes_json(&content),"rb":rb,"ra":ra}));
    let steps = rng.range(2, 14);
    for _ in 0..steps {
        let pick = rng.below(100);
        let n_choices = [0usize, 1, 3, rb.saturating_sub(1), rb, rb + 5, 300];
        if pick < 45 {
            let n = (*rng.pick(&n_choices)).min(400);
            let mut buf = vec![0u8; n];
            match f.read(&mut buf).await {
                Ok(k) => ev.push(json!({"op":"fread","n":n,"ok":true,"got":bytes_json(&buf[..k.min(n)]),"k":k})),
                Err(_) => ev.push(json!({"op":"fread","n":n,"ok":false,"got":[],"k":0})),
            }
        } else if pick < 65 {
            let d = rng.below(len as u64 + 20);
            match f.seek(tokio::io::SeekFrom::Start(d)).await {
                Ok(r) => ev.push(json!({"op":"fseek","kind":"start","d":d,"ok":true,"r":r})),
                Err(_) => ev.push(json!({"op":"fseek","kind":"start","d":d,"ok":false,"r":0})),
            }
        } else if pick < 75 {
            ev.push(json!({"op":"fpos","r":f.position()}));
        } else {
            match flavour {
                "read_at" => {
                    let n = (*rng.pick(&n_choices)).min(400);
                    let off = rng.below(len as u64 + 10);
                    let mut buf = vec![0u8; n];
                    match f.read_at(&mut buf, off).await {
                        Ok(k) => ev.push(json!({"op":"fread_at","n":n,"off":off,"ok":true,"got":bytes_json(&buf[..k.min(n)])})),
                        Err(_) => ev.push(json!({"op":"fread_at","n":n,"off":off,"ok":false,"got":[]})),
                    }
                }
                "seek_rel" => {
                    let (kind, d): (&str, i64) = if rng.chance(1, 2) {
                        ("cur", rng.below(30) as i64 - 10)
                    } else {
                        ("end", -(rng.below(len as u64 + 1) as i64))
                    };
                    let sf = if kind == "cur" { tokio::io::SeekFrom::Current(d) } else { tokio::io::SeekFrom::End(d) };
                    match f.seek(sf).await {
                        Ok(r) => ev.push(json!({"op":"fseek","kind":kind,"d":d,"ok":true,"r":r})),
                        Err(_) => ev.push(json!({"op":"fseek","kind":kind,"d":d,"ok":false,"r":0})),
                    }
                }
                _ => ev.push(json!({"op":"fpos","r":f.position()})),
            }
        }
    }
    if flavour == "read_to_end" {
        match f.read_to_end().await {
            Ok(v) => ev.push(json!({"op":"fread_to_end","ok":true,"got":bytes_json(&v)})),
            Err(_) => ev.push(json!({"op":"fread_to_end","ok":false,"got":[]})),
        }
        ev.push(json!({"op":"fpos","r":f.position()}));
    }
    ev
}

async fn file_write_history(rng: &mut Rng, path: &Path, rb: usize, ra: usize) -> Vec<Value> {
    let aio = aio_with(rb, ra);
    let mut ev = vec![];
    let _ = std::fs::remove_file(path);
    let mut f = match aio.create(path).await {
        Ok(f) => f,
        Err(_) => return vec![json!({"op":"note","what":"create refused"})],
    };
    ev.push(json!({"op":"fcreate"}));
    let steps = rng.range(1, 10);
    for _ in 0..steps {
        let pick = rng.below(100);
        let n = rng.below(20) as usize;
        let data = rng.bytes(n);
        if pick < 40 {
            match f.write(&data).await {
                Ok(k) => ev.push(json!({"op":"fwrite","data":bytes_json(&data),"ok":true,"k":k})),
                Err(_) => ev.push(json!({"op":"fwrite","data":bytes_json(&data),"ok":false,"k":0})),
            }
        } else if pick < 70 {
            let ok = f.write_all(&data).await.is_ok();
            ev.push(json!({"op":"fwrite_all","data":bytes_json(&data),"ok":ok}));
        } else if pick < 90 {
            let d = rng.below(60);
            match f.seek(tokio::io::SeekFrom::Start(d)).await {
                Ok(r) => ev.push(json!({"op":"fseek","kind":"start","d":d,"ok":true,"r":r})),
                Err(_) => ev.push(json!({"op":"fseek","kind":"start","d":d,"ok":false,"r":0})),
            }
        } else {
            ev.push(json!({"op":"fpos","r":f.position()}));
        }
    }
    let _ = f.flush().await;
    if rng.chance(1, 2) {
        let _ = f.sync_all().await;
    } else {
        let _ = f.sync_data().await;
    }
    drop(f);
    // observation of where the bytes landed
    let got = std::fs::read(path).unwrap_or_default();
    ev.push(json!({"op":"fcontent","bytes":bytes_json(&got)}));
    ev
}

fn mode_aio(a: &Args) {
    let mut tr = Tracer::new(&a.out, "pio");
    let rng0 = Rng::new(a.seed).derive("aio");
    let rt = rt();
    let dir = a.out.join("files");
    std::fs::create_dir_all(&dir).expect("mkdir");
    let runs = a.get_u64("n", if a.thorough() { 800 } else { 120 });
    let mut reads = 0usize;
    for flavour in ["plain", "read_at", "seek_rel", "read_to_end", "ra0"] {
        tr.max_events = 0;
        for run in 0..(if flavour == "ra0" { runs / 4 } else { runs }) {
            let mut rng = rng0.derive(&format!("{flavour}{run}"));
            let (rb, ra) = if flavour == "ra0" {
                // read-ahead switched off
                (16usize, 0usize)
            } else {
                *rng.pick(&[(4usize, 8usize), (16, 32), (8, 8), (64 * 1024, 256 * 1024), (4, 64)])
            };
            let subject = format!("FiberFile:{}", match flavour {
                "plain" => "read+seek(Start)",
                "read_at" => "read_at",
                "seek_rel" => "seek(Current|End)",
                "ra0" => "read@read_ahead_size=0",
                _ => "read_to_end",
            });
            if !a.wants(&subject) {
                continue;
            }
            tr.reset("pipeline", &subject, json!({"fam":"fiber_file","variant":flavour,"rb":rb,"ra":ra}));
            tr.max_events = 1500;
            let p = dir.join("r.bin");
            for e in rt.block_on(file_read_history(&mut rng, &p, flavour, rb, ra)) {
                tr.ev(e);
                reads += 1;
            }
        }
    }
    tr.max_events = 0;
    for run in 0..runs {
        let mut rng = rng0.derive(&format!("w{run}"));
        let (rb, ra) = *rng.pick(&[(4usize, 8usize), (16, 32), (64 * 1024, 256 * 1024)]);
        if !a.wants("FiberFile:write") {
            continue;
        }
        tr.reset("pipeline", "FiberFile:write", json!({"fam":"fiber_file_w","variant":"write","rb":rb,"ra":ra}));
        tr.max_events = 1500;
        let p = dir.join("w.bin");
        for e in rt.block_on(file_write_history(&mut rng, &p, rb, ra)) {
            tr.ev(e);
        }
    }
    // whole-file helpers, vectored I/O, parallel reads, FiberIoUtils
    tr.max_events = 0;
    let hruns = runs / 2;
    // (many: a write still in flight when copy / write_all return is seen only now and then)
    for run in 0..runs * 3 {
        let mut rng = rng0.derive(&format!("h{run}"));
        if !a.wants("FiberAio:copy+write_all+read_to_vec") {
            continue;
        }
        tr.reset("pipeline", "FiberAio:copy+write_all+read_to_vec", json!({"fam":"fiber_aio","variant":"whole_file"}));
        tr.max_events = 1500;
        let (rb, ra) = *rng.pick(&[(4usize, 8usize), (16, 32), (64 * 1024, 256 * 1024)]);
        let aio = aio_with(rb, ra);
        let len = *rng.pick(&[0usize, 1, 3, 16, 33, 150]);
        let data = rng.bytes(len);
        let (src, dst) = (dir.join("c-src.bin"), dir.join("c-dst.bin"));
        write_file(&src, &data);
        let _ = std::fs::remove_file(&dst);
        let r = rt.block_on(aio.copy(&src, &dst));
        let got = std::fs::read(&dst).unwrap_or_default();
        tr.ev(json!({"op":"copy","src":bytes_json(&data),"ok":r.is_ok(),"n":r.unwrap_or(0),"dst":bytes_json(&got),"rb":rb,"ra":ra}));
        // FiberFile::copy_to from a position inside the source (after a small read: the read-ahead is ahead)
        if len > 0 {
            let pos = rng.below(len as u64 + 1);
            let dst2 = dir.join("c-dst2.bin");
            let _ = std::fs::remove_file(&dst2);
            let (ok, n) = rt.block_on(async {
                let mut s = aio.open(&src).await?;
                let mut d = aio.create(&dst2).await?;
                let mut one = [0u8; 1];
                let _ = s.read(&mut one).await?;
                s.seek(tokio::io::SeekFrom::Start(pos)).await?;
                let n = s.copy_to(&mut d).await?;
                d.sync_data().await?;
                ZResult::Ok(n)
            })
            .map_or((false, 0), |n| (true, n));
            let got2 = std::fs::read(&dst2).unwrap_or_default();
            tr.ev(json!({"op":"copy_from","api":"FiberFile::copy_to","src":bytes_json(&data),"pos":pos,"ok":ok,"n":n,"dst":bytes_json(&got2)}));
        }
        let p = dir.join("rt.bin");
        let _ = std::fs::remove_file(&p);
        let wok = rt.block_on(aio.write_all(&p, &data)).is_ok();
        // what a reader sees the moment write_all has returned
        let now = std::fs::read(&p).unwrap_or_default();
        let rr = rt.block_on(aio.read_to_vec(&p));
        tr.ev(json!({"op":"roundtrip","data":bytes_json(&data),"wok":wok,"now":bytes_json(&now),"rok":rr.is_ok(),"got":bytes_json(&rr.unwrap_or_default())}));
    }
    tr.max_events = 0;
    for run in 0..hruns {
        let mut rng = rng0.derive(&format!("v{run}"));
        if !a.wants("VectoredIo") {
            continue;
        }
        tr.reset("pipeline", "VectoredIo", json!({"fam":"vectored","variant":"read+write"}));
        tr.max_events = 1500;
        let len = *rng.pick(&[0usize, 1, 10, 40, 120]);
        let data = rng.bytes(len);
        let src = dir.join("v-src.bin");
        write_file(&src, &data);
        let nb = rng.range(0, 4) as usize;
        let sizes: Vec<usize> = (0..nb).map(|_| rng.below(50) as usize).collect();
        let (ok, total, got) = rt.block_on(async {
            let mut f = tokio::fs::File::open(&src).await.expect("open");
            let mut store: Vec<Vec<u8>> = sizes.iter().map(|&s| vec![0u8; s]).collect();
            let mut bufs: Vec<tokio::io::ReadBuf<'_>> = store.iter_mut().map(|v| tokio::io::ReadBuf::new(v.as_mut_slice())).collect();
            let r = VectoredIo::read_vectored(&mut f, &mut bufs).await;
            let got: Vec<Value> = bufs.iter().map(|b| bytes_json(b.filled())).collect();
            (r.is_ok(), r.unwrap_or(0), got)
        });
        tr.ev(json!({"op":"vread","src":bytes_json(&data),"sizes":sizes,"ok":ok,"total":total,"got":got}));
        let dst = dir.join("v-dst.bin");
        let parts: Vec<Vec<u8>> = (0..rng.range(0, 4)).map(|_| {
            let n = rng.below(30) as usize;
            rng.bytes(n)
        }).collect();
        let (ok, total) = rt.block_on(async {
            let mut f = tokio::fs::File::create(&dst).await.expect("create");
            let slices: Vec<std::io::IoSlice<'_>> = parts.iter().map(|p| std::io::IoSlice::new(p)).collect();
            let r = VectoredIo::write_vectored(&mut f, &slices).await;
            use tokio::io::AsyncWriteExt;
            let _ = f.flush().await;
            let _ = f.sync_all().await;
            (r.is_ok(), r.unwrap_or(0))
        });
        let got = std::fs::read(&dst).unwrap_or_default();
        let pj: Vec<Value> = parts.iter().map(|p| bytes_json(p)).collect();
        tr.ev(json!({"op":"vwrite","bufs":pj,"ok":ok,"total":total,"dst":bytes_json(&got)}));
    }
    tr.max_events = 0;
    for run in 0..hruns {
        let mut rng = rng0.derive(&format!("p{run}"));
        if !a.wants("FiberAio:parallel_reads") {
            continue;
        }
        tr.reset("pipeline", "FiberAio:parallel_reads", json!({"fam":"par_read","variant":"one_file"}));
        tr.max_events = 1500;
        let (rb, ra) = *rng.pick(&[(4usize, 8usize), (16, 32), (64 * 1024, 256 * 1024)]);
        let aio = Arc::new(aio_with(rb, ra));
        let len = *rng.pick(&[1usize, 30, 200]);
        let data = rng.bytes(len);
        let src = dir.join("p-src.bin");
        write_file(&src, &data);
        let k = rng.range(1, 8) as usize;
        let reqs: Vec<(u64, usize)> = (0..k).map(|_| (rng.below(len as u64 + 5), rng.below(60) as usize)).collect();
        let got: Vec<Value> = rt.block_on(async {
            let mut hs = vec![];
            for (i, &(off, n)) in reqs.iter().enumerate() {
                let (aio, src) = (aio.clone(), src.clone());
                hs.push(tokio::spawn(async move {
                    let mut f = aio.open(&src).await?;
                    let mut out = vec![0u8; n];
                    let mut filled = 0usize;
                    if i % 2 == 0 {
                        f.seek(tokio::io::SeekFrom::Start(off)).await?;
                        while filled < n {
                            let k = f.read(&mut out[filled..]).await?;
                            if k == 0 {
                                break;
                            }
                            filled += k;
                            tokio::task::yield_now().await;
                        }
                    } else {
                        while filled < n {
                            let k = f.read_at(&mut out[filled..], off + filled as u64).await?;
                            if k == 0 {
                                break;
                            }
                            filled += k;
                        }
                    }
                    out.truncate(filled);
                    ZResult::Ok(out)
                }));
            }
            let mut got = vec![];
            for h in hs {
                got.push(match h.await {
                    Ok(Ok(b)) => json!({"ok":true,"b":bytes_json(&b)}),
                    _ => json!({"ok":false,"b":[]}),
                });
            }
            got
        });
        let rj: Vec<Value> = reqs.iter().map(|r| json!([r.0, r.1])).collect();
        tr.ev(json!({"op":"par_read","src":bytes_json(&data),"reqs":rj,"got":got,"rb":rb,"ra":ra}));
    }
    tr.max_events = 0;
    for run in 0..hruns {
        let mut rng = rng0.derive(&format!("u{run}"));
        if !a.wants("FiberIoUtils") {
            continue;
        }
        tr.reset("pipeline", "FiberIoUtils", json!({"fam":"io_utils","variant":"process_files_parallel+batch_process"}));
        tr.max_events = 1500;
        // file i holds lens[i] bytes (all different); the processor returns the length it read; the
        // later a file is in the list the sooner its processor finishes
        let k = rng.range(0, 6) as usize;
        let mut lens: Vec<usize> = (1..=12usize).collect();
        rng.shuffle(&mut lens);
        lens.truncate(k);
        let paths: Vec<PathBuf> = lens.iter().enumerate().map(|(i, &l)| {
            let p = dir.join(format!("u-{i}.bin"));
            write_file(&p, &vec![7u8; l]);
            p
        }).collect();
        let maxc = rng.range(1, 4) as usize;
        let first = paths.first().cloned();
        let r = rt.block_on(FiberIoUtils::process_files_parallel(paths, maxc, move |p: PathBuf| {
            let slow = Some(&p) == first.as_ref();
            Box::pin(async move {
                if slow {
                    tokio::time::sleep(Duration::from_millis(3)).await;
                }
                let v = FiberAio::new()?.read_to_vec(&p).await?;
                Ok(v.len())
            }) as Pin<Box<dyn Future<Output = ZResult<usize>> + Send>>
        }));
        tr.ev(json!({"op":"inorder","api":"FiberIoUtils::process_files_parallel","in":lens,"ok":r.is_ok(),"out":r.unwrap_or_default(),"max_concurrent":maxc}));
        let n = *rng.pick(&[0usize, 1, 5, 13]);
        let input: Vec<u32> = (0..n).map(|_| rng.below(50) as u32).collect();
        let fail: Vec<u32> = if !input.is_empty() && rng.chance(1, 3) { vec![*rng.pick(&input)] } else { vec![] };
        let bs = rng.range(1, 5) as usize;
        let f2 = fail.clone();
        let r = rt.block_on(FiberIoUtils::batch_process(input.clone(), bs, move |chunk: Vec<u32>| {
            let f3 = f2.clone();
            Box::pin(async move { chunk.into_iter().map(|x| f_fn(x, &f3)).collect::<ZResult<Vec<u32>>>() }) as Pin<Box<dyn Future<Output = ZResult<Vec<u32>>> + Send>>
        }));
        tr.ev(json!({"op":"mapf","api":"FiberIoUtils::batch_process","in":input,"fail":fail,"ok":r.is_ok(),"out":r.unwrap_or_default(),"batch_size":bs}));
    }
    tr.close();
    let _ = std::fs::remove_dir_all(&dir);
    write_summary(&a.out, &json!({"mode":"aio","events":tr.total_events,"runs":tr.runs,"file_ops":reads}));
}

fn main() {
    let a = Args::parse();
    if std::env::var("ZV_LOUD").is_err() {
        quiet_panics();
    }
    let _ = t0();
    match a.mode.as_str() {
        "stream" => mode_stream(&a),
        "collect" => mode_collect(&a),
        "store" => mode_store(&a),
        "storeq" => mode_storeq(&a),
        "yield" => mode_yield(&a),
        "aio" => mode_aio(&a),
        m => {
            eprintln!("c18b: unknown mode {m}");
            std::process::exit(2)
        }
    }
}
