//! C01 — entropy codecs are lossless.  Runs the real zipora codecs (src/entropy/*.rs) through
//! train / encode / decode sessions and logs every call as one NDJSON event; TLC judges the
//! events against spec/CodecSession.tla (session protocol), spec/FreqNorm.tla (normalised
//! frequency tables read out of the real rANS / FSE objects) and spec/PrefixCode.tla (code tables
//! read through HuffmanTree::get_code) in spec/Trace_Codec.tla.
//!
//! The harness contains no codec, no normaliser and no code builder: it generates inputs, calls
//! through, and projects (zv::digest of payloads and blobs, table entries as read from the
//! accessors).  It never compares an output with an input.
//!
//! modes:
//!   drive   one child process per subject (a crash / timeout of the code under test is data:
//!           reported as an event, the child is restarted behind the session that killed it)
//!   child   --subject S [--from k] [--only k]: the sessions of one subject
use serde_json::{json, Value};
use std::marker::PhantomData;
use zipora::entropy::dictionary::DictionaryBuilder;
use zipora::entropy::bit_ops::BitOps;
use zipora::entropy::fse::{fse_compress, fse_compress_with_config, fse_decompress, fse_decompress_with_config, EntropyNormalizer, FseDecoder, FseTable};
use zipora::entropy::parallel::AdaptiveParallelEncoder;
use zipora::entropy::rans::Rans64State;
use zipora::entropy::huffman::InterleavingFactor;
use zipora::entropy::parallel::{
    ParallelConfig, ParallelHuffmanDecoder, ParallelHuffmanEncoder, ParallelVariant as HuffVariant, ParallelX2Variant, ParallelX4Variant,
    ParallelX8Variant,
};
use zipora::entropy::rans::{
    AdaptiveRans64Encoder, ParallelVariant as RansVariant, ParallelX1, ParallelX2, ParallelX4, ParallelX8, Rans64Decoder, Rans64Encoder,
};
use zipora::entropy::{
    fse_unzip, fse_zip, ContextualHuffmanDecoder, ContextualHuffmanEncoder, DictionaryCompressor, FseConfig, FseEncoder, HuffmanDecoder,
    HuffmanEncoder, HuffmanOrder, HuffmanSimdTier, HuffmanTree, OptimizedDictionaryCompressor, SimdHuffmanConfig, SimdHuffmanEncoder,
};
use zv::*;

// ---------------------------------------------------------------- projections of inputs / tables

fn hist(d: &[u8]) -> [u32; 256] {
    let mut h = [0u32; 256];
    for &b in d {
        h[b as usize] += 1;
    }
    h
}
fn present(d: &[u8]) -> Vec<u8> {
    let h = hist(d);
    (0..=255u8).filter(|&s| h[s as usize] > 0).collect()
}
fn estr<E: std::fmt::Display>(e: E) -> String {
    let mut s = e.to_string();
    s.truncate(160);
    s
}

/// the code table of one real HuffmanTree, read through get_code for every byte
fn codes_event(c: &str, ctx: i64, tree: &HuffmanTree, must: &[u8]) -> Value {
    let mut sym = vec![];
    let mut codes = vec![];
    for s in 0..=255u8 {
        if let Some(code) = tree.get_code(s) {
            sym.push(s);
            codes.push(code.iter().map(|&b| b as u8).collect::<Vec<u8>>());
        }
    }
    json!({"op":"codes","c":c,"ctx":ctx,"sym":sym,"codes":codes,"must":must,"maxlen":tree.max_code_length()})
}

/// the normalised table of a real coder: one entry per symbol that is present or owns slots
fn table_event(c: &str, kind: &str, freq: &[u32; 256], entry: impl Fn(u8) -> (u32, u32), total: u32) -> Value {
    let (mut sym, mut f, mut norm, mut start) = (vec![], vec![], vec![], vec![]);
    for s in 0..=255u8 {
        let (st, n) = entry(s);
        if freq[s as usize] > 0 || n > 0 {
            sym.push(s);
            // counts beyond 2^31 do not occur (inputs <= 4 MiB)
            f.push(freq[s as usize]);
            norm.push(n);
            start.push(st);
        }
    }
    json!({"op":"table","c":c,"kind":kind,"sym":sym,"freq":f,"norm":norm,"start":start,"total":total})
}

/// split ContextualHuffmanEncoder::serialize() into (context id, tree bytes); the container layout is
/// [order u8][tree_count u32][ctx_count u32][(ctx u32, idx u32)*][(len u32, tree bytes)*]; tree 0 is the
/// baseline tree (reported as context -1)
fn ctx_trees(ser: &[u8]) -> Vec<(i64, Vec<u8>)> {
    let rd = |o: usize| -> Option<usize> { ser.get(o..o + 4).map(|b| u32::from_le_bytes([b[0], b[1], b[2], b[3]]) as usize) };
    let mut out = vec![];
    let (Some(nt), Some(nc)) = (rd(1), rd(5)) else { return out };
    let mut o = 9;
    let mut ctx_of = vec![-1i64; nt];
    for _ in 0..nc {
        let (Some(c), Some(i)) = (rd(o), rd(o + 4)) else { return out };
        if i < nt {
            ctx_of[i] = c as i64;
        }
        o += 8;
    }
    for i in 0..nt {
        let Some(l) = rd(o) else { return out };
        o += 4;
        let Some(b) = ser.get(o..o + l) else { return out };
        out.push((ctx_of[i], b.to_vec()));
        o += l;
    }
    out
}

// ---------------------------------------------------------------- subjects

/// Uniform view of a codec under test; every method is a thin call-through.
trait Codec {
    /// separate training step? (false: the model is derived from the payload inside encode)
    fn trains(&self) -> bool {
        true
    }
    fn train(&mut self, _t: &[u8]) -> Result<Value, String> {
        Ok(json!({}))
    }
    /// mechanism events after training
    fn mech(&self, _c: &str, _seed: u64, _all: bool) -> Vec<Value> {
        vec![]
    }
    /// mechanism events for the model an encode of `x` derives by itself (self-training codecs)
    fn mech_for(&self, _c: &str, _x: &[u8]) -> Vec<Value> {
        vec![]
    }
    fn encode(&mut self, x: &[u8]) -> Result<Vec<u8>, String>;
    fn decode(&mut self, blob: &[u8], n: usize) -> Result<Vec<u8>, String>;
    /// largest payload this subject is driven with (quadratic coders)
    fn max_len(&self, _thorough: bool) -> usize {
        usize::MAX
    }
    /// does this subject take the sessions of input family `klass`?
    fn takes(&self, klass: &str) -> bool {
        klass != "bitfield"
    }
}

const NO_MODEL: &str = "harness: training was refused, no model";

struct Huff0 {
    enc: Option<HuffmanEncoder>,
    t: Vec<u8>,
}
impl Codec for Huff0 {
    fn train(&mut self, t: &[u8]) -> Result<Value, String> {
        self.enc = None;
        self.enc = Some(HuffmanEncoder::new(t).map_err(estr)?);
        self.t = t.to_vec();
        Ok(json!({}))
    }
    fn mech(&self, c: &str, _seed: u64, _all: bool) -> Vec<Value> {
        self.enc.iter().map(|e| codes_event(c, -1, e.tree(), &present(&self.t))).collect()
    }
    fn encode(&mut self, x: &[u8]) -> Result<Vec<u8>, String> {
        self.enc.as_ref().ok_or(NO_MODEL.to_string())?.encode(x).map_err(estr)
    }
    fn decode(&mut self, blob: &[u8], n: usize) -> Result<Vec<u8>, String> {
        let tree = self.enc.as_ref().ok_or(NO_MODEL.to_string())?.tree().clone();
        HuffmanDecoder::new(tree).decode(blob, n).map_err(estr)
    }
}

struct Simd {
    tier: HuffmanSimdTier,
    enc: Option<SimdHuffmanEncoder>,
    t: Vec<u8>,
}
impl Codec for Simd {
    fn train(&mut self, t: &[u8]) -> Result<Value, String> {
        self.enc = None;
        let cfg = SimdHuffmanConfig { preferred_tier: self.tier, ..Default::default() };
        let e = SimdHuffmanEncoder::with_config(t, cfg).map_err(estr)?;
        let tier = format!("{:?}", e.tier());
        self.enc = Some(e);
        self.t = t.to_vec();
        Ok(json!({"tier": tier}))
    }
    fn mech(&self, c: &str, _seed: u64, _all: bool) -> Vec<Value> {
        self.enc.iter().map(|e| codes_event(c, -1, e.tree(), &present(&self.t))).collect()
    }
    fn encode(&mut self, x: &[u8]) -> Result<Vec<u8>, String> {
        self.enc.as_ref().ok_or(NO_MODEL.to_string())?.encode(x).map_err(estr)
    }
    fn decode(&mut self, blob: &[u8], n: usize) -> Result<Vec<u8>, String> {
        let tree = self.enc.as_ref().ok_or(NO_MODEL.to_string())?.tree().clone();
        HuffmanDecoder::new(tree).decode(blob, n).map_err(estr)
    }
}

struct ParHuff<P: HuffVariant> {
    enc: Option<ParallelHuffmanEncoder<P>>,
    tree: Option<HuffmanTree>,
    t: Vec<u8>,
}
impl<P: HuffVariant> Codec for ParHuff<P> {
    fn train(&mut self, t: &[u8]) -> Result<Value, String> {
        self.enc = None;
        self.tree = None;
        // low_latency: min_parallel_size 32 KiB, so that the 64 KiB inputs take the "parallel" branch
        let mut e = ParallelHuffmanEncoder::<P>::new(ParallelConfig::low_latency()).map_err(estr)?;
        e.train(t).map_err(estr)?;
        self.tree = Some(HuffmanTree::from_data(t).map_err(estr)?);
        self.enc = Some(e);
        self.t = t.to_vec();
        Ok(json!({}))
    }
    fn mech(&self, c: &str, _seed: u64, _all: bool) -> Vec<Value> {
        self.tree.iter().map(|t| codes_event(c, -1, t, &present(&self.t))).collect()
    }
    fn encode(&mut self, x: &[u8]) -> Result<Vec<u8>, String> {
        self.enc.as_mut().ok_or(NO_MODEL.to_string())?.encode(x).map_err(estr)
    }
    fn decode(&mut self, blob: &[u8], n: usize) -> Result<Vec<u8>, String> {
        let tree = self.tree.as_ref().ok_or(NO_MODEL.to_string())?.clone();
        let mut d = ParallelHuffmanDecoder::<P>::new(ParallelConfig::low_latency());
        d.set_tree(tree).map_err(estr)?;
        d.decode(blob, n).map_err(estr)
    }
}

#[derive(Clone, Copy, PartialEq)]
enum CtxHow {
    Plain,
    Xn(usize),
    Il(usize),
}
struct Ctx {
    order: HuffmanOrder,
    how: CtxHow,
    enc: Option<ContextualHuffmanEncoder>,
    dec: Option<ContextualHuffmanDecoder>,
    t: Vec<u8>,
}
fn factor(n: usize) -> InterleavingFactor {
    match n {
        1 => InterleavingFactor::X1,
        2 => InterleavingFactor::X2,
        4 => InterleavingFactor::X4,
        _ => InterleavingFactor::X8,
    }
}
impl Codec for Ctx {
    fn train(&mut self, t: &[u8]) -> Result<Value, String> {
        self.enc = None;
        self.dec = None;
        let e = ContextualHuffmanEncoder::new(t, self.order).map_err(estr)?;
        let info = json!({"order": format!("{:?}", e.order()), "trees": e.tree_count()});
        if self.how == CtxHow::Plain {
            // the matching decoder owns an encoder trained on the same data
            let e2 = ContextualHuffmanEncoder::new(t, self.order).map_err(estr)?;
            self.dec = Some(ContextualHuffmanDecoder::new(e2));
        }
        self.enc = Some(e);
        self.t = t.to_vec();
        Ok(info)
    }
    fn mech(&self, c: &str, seed: u64, all: bool) -> Vec<Value> {
        let Some(e) = self.enc.as_ref() else { return vec![] };
        let trees = ctx_trees(&e.serialize());
        let all256: Vec<u8> = (0..=255u8).collect();
        // order-0 (also what order 1/2 fall back to on tiny training data): the symbols of the training
        // data must be codable; order 1/2: every byte in every context
        let must = if e.order() == HuffmanOrder::Order0 { present(&self.t) } else { all256 };
        let mut pick: Vec<usize> = vec![];
        if all || trees.len() <= 2 {
            pick = (0..trees.len()).collect();
        } else {
            let mut r = Rng::new(seed).derive("ctxpick");
            pick.push(0);
            let want = if all { usize::MAX } else if seed & (1 << 40) != 0 { 4 } else { 2 };
            while pick.len() < want.min(trees.len()) {
                let k = 1 + r.below(trees.len() as u64 - 1) as usize;
                if !pick.contains(&k) {
                    pick.push(k);
                }
            }
        }
        let mut out = vec![];
        for k in pick {
            let (ctx, bytes) = &trees[k];
            match HuffmanTree::deserialize(bytes) {
                Ok(t) => out.push(codes_event(c, *ctx, &t, &must)),
                Err(e) => out.push(json!({"op":"codes_unreadable","c":c,"ctx":ctx,"err":estr(e)})),
            }
        }
        out
    }
    fn encode(&mut self, x: &[u8]) -> Result<Vec<u8>, String> {
        let e = self.enc.as_ref().ok_or(NO_MODEL.to_string())?;
        match self.how {
            CtxHow::Plain => e.encode(x),
            CtxHow::Xn(1) => e.encode_x1(x),
            CtxHow::Xn(2) => e.encode_x2(x),
            CtxHow::Xn(4) => e.encode_x4(x),
            CtxHow::Xn(_) => e.encode_x8(x),
            CtxHow::Il(n) => e.encode_with_interleaving(x, factor(n)),
        }
        .map_err(estr)
    }
    fn decode(&mut self, blob: &[u8], n: usize) -> Result<Vec<u8>, String> {
        let e = self.enc.as_ref().ok_or(NO_MODEL.to_string())?;
        match self.how {
            CtxHow::Plain => self.dec.as_ref().ok_or(NO_MODEL.to_string())?.decode(blob, n),
            CtxHow::Xn(1) => e.decode_x1(blob, n),
            CtxHow::Xn(2) => e.decode_x2(blob, n),
            CtxHow::Xn(4) => e.decode_x4(blob, n),
            CtxHow::Xn(_) => e.decode_x8(blob, n),
            CtxHow::Il(k) => e.decode_with_interleaving(blob, n, factor(k)),
        }
        .map_err(estr)
    }
}

struct Rans<P: RansVariant> {
    enc: Option<Rans64Encoder<P>>,
    f: [u32; 256],
    _p: PhantomData<P>,
}
impl<P: RansVariant> Codec for Rans<P> {
    fn train(&mut self, t: &[u8]) -> Result<Value, String> {
        self.enc = None;
        self.f = hist(t);
        self.enc = Some(Rans64Encoder::<P>::new(&self.f).map_err(estr)?);
        Ok(json!({}))
    }
    fn mech(&self, c: &str, _seed: u64, _all: bool) -> Vec<Value> {
        self.enc
            .iter()
            .map(|e| {
                table_event(c, "rans", &self.f, |s| (e.get_symbol(s).start, e.get_symbol(s).freq), e.total_freq())
            })
            .collect()
    }
    fn encode(&mut self, x: &[u8]) -> Result<Vec<u8>, String> {
        self.enc.as_ref().ok_or(NO_MODEL.to_string())?.encode(x).map_err(estr)
    }
    fn decode(&mut self, blob: &[u8], n: usize) -> Result<Vec<u8>, String> {
        let e = self.enc.as_ref().ok_or(NO_MODEL.to_string())?;
        Rans64Decoder::new(e).decode(blob, n).map_err(estr)
    }
}

/// AdaptiveRans64Encoder::encode_adaptive derives frequencies and stream count from the payload; the matching
/// decoder is a Rans64Decoder<variant select_variant(len) names> over an encoder built from the same counts
struct RansAd {
    a: AdaptiveRans64Encoder,
    f: [u32; 256],
    v: &'static str,
}
fn rans_dec<P: RansVariant>(f: &[u32; 256], blob: &[u8], n: usize) -> Result<Vec<u8>, String> {
    let e = Rans64Encoder::<P>::new(f).map_err(estr)?;
    Rans64Decoder::new(&e).decode(blob, n).map_err(estr)
}
fn rans_table<P: RansVariant>(c: &str, f: &[u32; 256]) -> Vec<Value> {
    match Rans64Encoder::<P>::new(f) {
        Ok(e) => vec![table_event(c, "rans", f, |s| (e.get_symbol(s).start, e.get_symbol(s).freq), e.total_freq())],
        Err(_) => vec![],
    }
}
impl Codec for RansAd {
    fn trains(&self) -> bool {
        false
    }
    fn mech_for(&self, c: &str, x: &[u8]) -> Vec<Value> {
        let f = hist(x);
        match self.a.select_variant(x.len()) {
            "x1" => rans_table::<ParallelX1>(c, &f),
            "x2" => rans_table::<ParallelX2>(c, &f),
            "x4" => rans_table::<ParallelX4>(c, &f),
            _ => rans_table::<ParallelX8>(c, &f),
        }
    }
    fn encode(&mut self, x: &[u8]) -> Result<Vec<u8>, String> {
        // what the matching decoder has to be built from: the counts and the stream count of this payload
        self.f = hist(x);
        self.v = self.a.select_variant(x.len());
        self.a.encode_adaptive(x).map_err(estr)
    }
    fn decode(&mut self, blob: &[u8], n: usize) -> Result<Vec<u8>, String> {
        match self.v {
            "x1" => rans_dec::<ParallelX1>(&self.f, blob, n),
            "x2" => rans_dec::<ParallelX2>(&self.f, blob, n),
            "x4" => rans_dec::<ParallelX4>(&self.f, blob, n),
            _ => rans_dec::<ParallelX8>(&self.f, blob, n),
        }
    }
}

struct Fse {
    cfg: FseConfig,
    enc: Option<FseEncoder>,
    model: Option<Vec<u8>>,
}
fn fse_table(c: &str, cfg: &FseConfig, data: &[u8]) -> Vec<Value> {
    let f = hist(data);
    match FseTable::new(&f, cfg) {
        Ok(t) => vec![table_event(c, "fse", &f, |s| (t.dec_symbols[s as usize].start as u32, t.dec_symbols[s as usize].freq as u32), t.table_size() as u32)],
        Err(_) => vec![],
    }
}
impl Codec for Fse {
    fn trains(&self) -> bool {
        // a table survives from one compress call to the next only when adaptive is off
        !self.cfg.adaptive
    }
    fn train(&mut self, t: &[u8]) -> Result<Value, String> {
        self.model = None;
        let mut e = FseEncoder::new(self.cfg.clone()).map_err(estr)?;
        let r = e.compress(t).map(|_| ()).map_err(estr);
        // keep the encoder even when the call failed: it has no table then and derives one from the payload
        self.enc = Some(e);
        r?;
        if !t.is_empty() {
            self.model = Some(t.to_vec());
        }
        Ok(json!({}))
    }
    fn mech(&self, c: &str, _seed: u64, _all: bool) -> Vec<Value> {
        match &self.model {
            Some(m) => fse_table(c, &self.cfg, m),
            None => vec![],
        }
    }
    fn mech_for(&self, c: &str, x: &[u8]) -> Vec<Value> {
        if self.model.is_some() || x.is_empty() {
            vec![]
        } else {
            fse_table(c, &self.cfg, x)
        }
    }
    fn encode(&mut self, x: &[u8]) -> Result<Vec<u8>, String> {
        if self.enc.is_none() {
            self.enc = Some(FseEncoder::new(self.cfg.clone()).map_err(estr)?);
        }
        let had_table = self.model.is_some();
        let r = self.enc.as_mut().unwrap().compress(x).map_err(estr);
        if !self.cfg.adaptive && !had_table && r.is_ok() && !x.is_empty() {
            // the first successful compress of a non-adaptive encoder fixed its table
            self.model = Some(x.to_vec());
        }
        r
    }
    fn decode(&mut self, blob: &[u8], _n: usize) -> Result<Vec<u8>, String> {
        fse_decompress_with_config(blob, self.cfg.clone()).map_err(estr)
    }
}

struct FseZip;
impl Codec for FseZip {
    fn trains(&self) -> bool {
        false
    }
    fn mech_for(&self, c: &str, x: &[u8]) -> Vec<Value> {
        if x.is_empty() {
            vec![]
        } else {
            fse_table(c, &FseConfig::default(), x)
        }
    }
    fn encode(&mut self, x: &[u8]) -> Result<Vec<u8>, String> {
        fse_zip(x).map_err(estr)
    }
    fn decode(&mut self, blob: &[u8], _n: usize) -> Result<Vec<u8>, String> {
        fse_unzip(blob).map_err(estr)
    }
}

struct Dict {
    c: Option<DictionaryCompressor>,
}
impl Codec for Dict {
    fn train(&mut self, t: &[u8]) -> Result<Value, String> {
        let d = DictionaryBuilder::new().build(t);
        let n = d.len();
        self.c = Some(DictionaryCompressor::new(d));
        Ok(json!({"entries": n}))
    }
    fn encode(&mut self, x: &[u8]) -> Result<Vec<u8>, String> {
        self.c.as_ref().ok_or(NO_MODEL.to_string())?.compress(x).map_err(estr)
    }
    fn decode(&mut self, blob: &[u8], _n: usize) -> Result<Vec<u8>, String> {
        self.c.as_ref().ok_or(NO_MODEL.to_string())?.decompress(blob).map_err(estr)
    }
    fn max_len(&self, thorough: bool) -> usize {
        // compress() compares every position with the whole 32 KiB window and DictionaryBuilder::build every
        // position with every earlier one of the same hash, up to 258 bytes each: minutes on repetitive data
        if thorough {
            16384
        } else {
            8192
        }
    }
}

struct ODict {
    c: Option<OptimizedDictionaryCompressor>,
}
impl Codec for ODict {
    fn train(&mut self, t: &[u8]) -> Result<Value, String> {
        self.c = None;
        self.c = Some(OptimizedDictionaryCompressor::new(t).map_err(estr)?);
        Ok(json!({}))
    }
    fn encode(&mut self, x: &[u8]) -> Result<Vec<u8>, String> {
        self.c.as_ref().ok_or(NO_MODEL.to_string())?.compress(x).map_err(estr)
    }
    fn decode(&mut self, blob: &[u8], _n: usize) -> Result<Vec<u8>, String> {
        self.c.as_ref().ok_or(NO_MODEL.to_string())?.decompress(blob).map_err(estr)
    }
    fn max_len(&self, thorough: bool) -> usize {
        if thorough {
            1 << 20
        } else {
            65536
        }
    }
}


// ---------------------------------------------------------------- twins and lower-level entry points

/// HuffmanEncoder::from_frequencies: the constructor twin of HuffmanEncoder::new
struct Huff0Freq {
    enc: Option<HuffmanEncoder>,
    t: Vec<u8>,
}
impl Codec for Huff0Freq {
    fn train(&mut self, t: &[u8]) -> Result<Value, String> {
        self.enc = None;
        self.enc = Some(HuffmanEncoder::from_frequencies(&hist(t)).map_err(estr)?);
        self.t = t.to_vec();
        Ok(json!({}))
    }
    fn mech(&self, c: &str, _seed: u64, _all: bool) -> Vec<Value> {
        self.enc.iter().map(|e| codes_event(c, -1, e.tree(), &present(&self.t))).collect()
    }
    fn encode(&mut self, x: &[u8]) -> Result<Vec<u8>, String> {
        self.enc.as_ref().ok_or(NO_MODEL.to_string())?.encode(x).map_err(estr)
    }
    fn decode(&mut self, blob: &[u8], n: usize) -> Result<Vec<u8>, String> {
        // the decoder's tree comes from the twin constructor of the tree
        let tree = HuffmanTree::from_frequencies(&hist(&self.t)).map_err(estr)?;
        HuffmanDecoder::new(tree).decode(blob, n).map_err(estr)
    }
}

/// symbol-level rANS API (Rans64State + encode_symbol / decode_symbol), driven the way encode_single /
/// decode_single drive it, crossed with the bulk API: sym_enc = symbol-level encode + bulk decode,
/// sym_dec = bulk encode + symbol-level decode.  The twins must agree.
struct RansSym {
    sym_enc: bool,
    enc: Option<Rans64Encoder<ParallelX1>>,
    f: [u32; 256],
}
impl Codec for RansSym {
    fn train(&mut self, t: &[u8]) -> Result<Value, String> {
        self.enc = None;
        self.f = hist(t);
        self.enc = Some(Rans64Encoder::<ParallelX1>::new(&self.f).map_err(estr)?);
        Ok(json!({}))
    }
    fn mech(&self, c: &str, seed: u64, _all: bool) -> Vec<Value> {
        let Some(e) = self.enc.as_ref() else { return vec![] };
        let mut v = vec![table_event(c, "rans", &self.f, |s| (e.get_symbol(s).start, e.get_symbol(s).freq), e.total_freq())];
        // the symbol-step law on states that need no renormalisation: 2^16 <= x < 2^12 * slots
        let d = Rans64Decoder::new(e);
        let mut r = Rng::new(seed).derive("symsteps");
        let mut items = vec![];
        for s in 0..=255u8 {
            let f = e.get_symbol(s).freq as u64;
            if f <= 16 || items.len() >= 60 {
                continue;
            }
            let (lo, hi) = (1u64 << 16, (1u64 << 12) * f);
            for x in [lo, lo + 1, hi - 1, lo + r.below(hi - lo), lo + r.below(hi - lo)] {
                let mut st = Rans64State::new();
                st.set_state(x);
                let mut out = vec![];
                let need = st.needs_renorm_encode(f as u32);
                let ok = e.encode_symbol(&mut st, s, &mut out).is_ok() && out.is_empty();
                let ns = st.state();
                let mut pos = 0usize;
                let mut st2 = Rans64State::from_state(ns);
                let back = !st2.needs_renorm_decode();
                let ds = d.decode_symbol(&mut st2, &out, &mut pos).unwrap_or(0);
                items.push(json!({"s":s,"f":f,"x":x.to_string(),"xh":x >> 32,"ok":ok && back,"ns":ns.to_string(),"ds":ds,"dx":st2.state().to_string(),"need":need}));
            }
        }
        if !items.is_empty() {
            v.push(json!({"op":"symsteps","c":c,"kind":"rans","items":items}));
        }
        v
    }
    fn encode(&mut self, x: &[u8]) -> Result<Vec<u8>, String> {
        let e = self.enc.as_ref().ok_or(NO_MODEL.to_string())?;
        if !self.sym_enc {
            return e.encode(x).map_err(estr);
        }
        let mut st = Rans64State::new();
        let mut out = Vec::new();
        for &b in x.iter().rev() {
            e.encode_symbol(&mut st, b, &mut out).map_err(estr)?;
        }
        out.extend_from_slice(&st.state().to_le_bytes());
        Ok(out)
    }
    fn decode(&mut self, blob: &[u8], n: usize) -> Result<Vec<u8>, String> {
        let e = self.enc.as_ref().ok_or(NO_MODEL.to_string())?;
        let d = Rans64Decoder::new(e);
        if self.sym_enc {
            return d.decode(blob, n).map_err(estr);
        }
        if blob.len() < 8 {
            return Err("harness: blob shorter than a state".into());
        }
        let mut pos = blob.len() - 8;
        let mut w = [0u8; 8];
        w.copy_from_slice(&blob[pos..]);
        let mut st = Rans64State::from_state(u64::from_le_bytes(w));
        let mut out = Vec::with_capacity(n);
        for _ in 0..n {
            out.push(d.decode_symbol(&mut st, blob, &mut pos).map_err(estr)?);
        }
        Ok(out)
    }
}

/// the free functions fse_compress / fse_decompress and fse_compress_with_config / fse_decompress_with_config
struct FseFn {
    cfg: Option<FseConfig>,
}
impl Codec for FseFn {
    fn trains(&self) -> bool {
        false
    }
    fn mech_for(&self, c: &str, x: &[u8]) -> Vec<Value> {
        if x.is_empty() {
            return vec![];
        }
        let cfg = self.cfg.clone().unwrap_or_default();
        let mut v = fse_table(c, &cfg, x);
        // EntropyNormalizer::normalize_frequencies_entropy_preserving is public with a free table size
        let f = hist(x);
        for total in [1024u32, 8192] {
            if let Ok(n) = EntropyNormalizer::new().normalize_frequencies_entropy_preserving(&f[..], total) {
                let (mut fs, mut ns) = (vec![], vec![]);
                for s in 0..256 {
                    if f[s] > 0 || n.get(s).copied().unwrap_or(0) > 0 {
                        fs.push(f[s]);
                        ns.push(n.get(s).copied().unwrap_or(0));
                    }
                }
                v.push(json!({"op":"norm","c":c,"kind":"fse","freq":fs,"norm":ns,"total":total}));
            }
        }
        v
    }
    fn encode(&mut self, x: &[u8]) -> Result<Vec<u8>, String> {
        match &self.cfg {
            None => fse_compress(x),
            Some(c) => fse_compress_with_config(x, c.clone()),
        }
        .map_err(estr)
    }
    fn decode(&mut self, blob: &[u8], _n: usize) -> Result<Vec<u8>, String> {
        match &self.cfg {
            None => fse_decompress(blob),
            Some(c) => fse_decompress_with_config(blob, c.clone()),
        }
        .map_err(estr)
    }
}

/// FseEncoder / FseDecoder objects with a configuration (block-parallel, table_log extremes) and optionally a
/// dictionary (FseEncoder::with_dictionary: its bytes are added to the counts the table is built from)
struct FseObj {
    cfg: FseConfig,
    dict: Option<Vec<u8>>,
}
impl Codec for FseObj {
    fn trains(&self) -> bool {
        false
    }
    fn mech_for(&self, c: &str, x: &[u8]) -> Vec<Value> {
        if x.is_empty() {
            return vec![];
        }
        let mut all = x.to_vec();
        if let Some(d) = &self.dict {
            all.extend_from_slice(d);
        }
        fse_table(c, &self.cfg, &all)
    }
    fn encode(&mut self, x: &[u8]) -> Result<Vec<u8>, String> {
        let mut e = match &self.dict {
            Some(d) => FseEncoder::with_dictionary(self.cfg.clone(), d.clone()),
            None => FseEncoder::new(self.cfg.clone()),
        }
        .map_err(estr)?;
        e.compress(x).map_err(estr)
    }
    fn decode(&mut self, blob: &[u8], _n: usize) -> Result<Vec<u8>, String> {
        let mut d = FseDecoder::with_config(self.cfg.clone()).map_err(estr)?;
        d.decompress(blob).map_err(estr)
    }
}

/// non-adaptive encoder trained through the public analyze_frequencies (instead of a first compress call)
struct FseAnalyze {
    cfg: FseConfig,
    enc: Option<FseEncoder>,
    model: Option<Vec<u8>>,
}
impl Codec for FseAnalyze {
    fn train(&mut self, t: &[u8]) -> Result<Value, String> {
        self.model = None;
        let mut e = FseEncoder::new(self.cfg.clone()).map_err(estr)?;
        let r = e.analyze_frequencies(t).map_err(estr);
        self.enc = Some(e);
        r?;
        self.model = Some(t.to_vec());
        Ok(json!({}))
    }
    fn mech(&self, c: &str, _seed: u64, _all: bool) -> Vec<Value> {
        match &self.model {
            Some(m) => fse_table(c, &self.cfg, m),
            None => vec![],
        }
    }
    fn mech_for(&self, c: &str, x: &[u8]) -> Vec<Value> {
        if self.model.is_some() || x.is_empty() {
            vec![]
        } else {
            fse_table(c, &self.cfg, x)
        }
    }
    fn encode(&mut self, x: &[u8]) -> Result<Vec<u8>, String> {
        if self.enc.is_none() {
            self.enc = Some(FseEncoder::new(self.cfg.clone()).map_err(estr)?);
        }
        let had = self.model.is_some();
        let r = self.enc.as_mut().unwrap().compress(x).map_err(estr);
        if !had && r.is_ok() && !x.is_empty() {
            self.model = Some(x.to_vec());
        }
        r
    }
    fn decode(&mut self, blob: &[u8], _n: usize) -> Result<Vec<u8>, String> {
        fse_decompress_with_config(blob, self.cfg.clone()).map_err(estr)
    }
}

/// symbol-level FSE API on a public FseTable: renormalize_encode + encode_symbol(_accelerated) in reverse order and
/// the final state appended; decode_symbol + renormalize_decode forwards - the order FseEncoder / FseDecoder use
struct FseSym {
    t: Option<FseTable>,
    model: Vec<u8>,
}
impl Codec for FseSym {
    fn train(&mut self, t: &[u8]) -> Result<Value, String> {
        self.t = None;
        self.t = Some(FseTable::new(&hist(t), &FseConfig::default()).map_err(estr)?);
        self.model = t.to_vec();
        Ok(json!({}))
    }
    fn mech(&self, c: &str, seed: u64, _all: bool) -> Vec<Value> {
        let Some(t) = self.t.as_ref() else { return vec![] };
        let mut v = fse_table(c, &FseConfig::default(), &self.model);
        // the symbol-step law decode_symbol(encode_symbol(s, x)) = (s, x) on states the encoder can be in
        // (1 <= x < 2^36 * slots, what renormalize_encode leaves) for the symbols with the fewest / most slots
        let mut syms: Vec<u8> = present(&self.model);
        syms.sort_by_key(|&s| t.dec_symbols[s as usize].freq);
        let pick: Vec<u8> = syms.iter().take(3).chain(syms.iter().rev().take(2)).copied().collect();
        let mut r = Rng::new(seed).derive("symsteps");
        let mut items = vec![];
        for &s in &pick {
            let f = t.dec_symbols[s as usize].freq as u64;
            let top = (1u64 << 36) * f.max(1);
            let mut xs = vec![1u64, 2, 65535, 65536, (1 << 32) - 1, 1 << 32, (1 << 33) - 1, (3 << 32) + 0xFFFF_FFFE, (1 << 35) + 0xF000_0000, top - 1, top / 2 + 0xFFFF_FFFF];
            for _ in 0..3 {
                xs.push(1 + r.below(top - 1));
                xs.push(((1 + r.below(15)) << 32) | 0xFFFF_0000 | r.below(0x10000));
            }
            for x in xs {
                if x == 0 || x >= top {
                    continue;
                }
                match t.encode_symbol(s, x) {
                    Some((ns, _)) => {
                        let (ds, dx) = t.decode_symbol(ns);
                        items.push(json!({"s":s,"f":f,"x":x.to_string(),"xh":x >> 32,"ok":true,"ns":ns.to_string(),"ds":ds,"dx":dx.to_string()}));
                    }
                    None => items.push(json!({"s":s,"f":f,"x":x.to_string(),"xh":x >> 32,"ok":false,"ns":"0","ds":0,"dx":"0"})),
                }
            }
        }
        if !items.is_empty() {
            v.push(json!({"op":"symsteps","c":c,"kind":"fse","items":items}));
        }
        v
    }
    fn encode(&mut self, x: &[u8]) -> Result<Vec<u8>, String> {
        let t = self.t.as_ref().ok_or(NO_MODEL.to_string())?;
        let mut out = Vec::new();
        let mut st = 1u64;
        for (k, &b) in x.iter().rev().enumerate() {
            let f = t.enc_symbols[b as usize].freq as u32;
            st = t.renormalize_encode(st, &mut out, f);
            let r = if k % 2 == 0 { t.encode_symbol(b, st) } else { t.encode_symbol_accelerated(b, st) };
            st = r.ok_or(format!("encode_symbol({b}) -> None"))?.0;
        }
        out.extend_from_slice(&st.to_le_bytes());
        Ok(out)
    }
    fn decode(&mut self, blob: &[u8], n: usize) -> Result<Vec<u8>, String> {
        let t = self.t.as_ref().ok_or(NO_MODEL.to_string())?;
        if blob.len() < 8 {
            return Err("harness: blob shorter than a state".into());
        }
        let body = &blob[..blob.len() - 8];
        let mut w = [0u8; 8];
        w.copy_from_slice(&blob[blob.len() - 8..]);
        let mut st = u64::from_le_bytes(w);
        let mut pos = body.len();
        let mut out = Vec::with_capacity(n);
        for _ in 0..n {
            let (s, ns) = t.decode_symbol(st);
            out.push(s);
            st = t.renormalize_decode(ns, body, &mut pos).ok_or("renormalize_decode -> None".to_string())?;
        }
        Ok(out)
    }
}

/// builder / compressor configuration setters of the LZ coders
struct DictCfg {
    c: Option<DictionaryCompressor>,
}
impl Codec for DictCfg {
    fn train(&mut self, t: &[u8]) -> Result<Value, String> {
        let d = DictionaryBuilder::new().max_entries(64).min_match_length(4).max_match_length(32).window_size(1024).build(t);
        let n = d.len();
        self.c = Some(DictionaryCompressor::new(d).min_match_length(12).max_match_length(20));
        Ok(json!({"entries": n}))
    }
    fn encode(&mut self, x: &[u8]) -> Result<Vec<u8>, String> {
        self.c.as_ref().ok_or(NO_MODEL.to_string())?.compress(x).map_err(estr)
    }
    fn decode(&mut self, blob: &[u8], _n: usize) -> Result<Vec<u8>, String> {
        self.c.as_ref().ok_or(NO_MODEL.to_string())?.decompress(blob).map_err(estr)
    }
    fn max_len(&self, thorough: bool) -> usize {
        if thorough {
            16384
        } else {
            8192
        }
    }
}
struct ODictCfg {
    c: Option<OptimizedDictionaryCompressor>,
}
impl Codec for ODictCfg {
    fn train(&mut self, t: &[u8]) -> Result<Value, String> {
        self.c = None;
        self.c = Some(OptimizedDictionaryCompressor::with_config(t, 4, 20, 512).map_err(estr)?);
        Ok(json!({}))
    }
    fn encode(&mut self, x: &[u8]) -> Result<Vec<u8>, String> {
        self.c.as_ref().ok_or(NO_MODEL.to_string())?.compress(x).map_err(estr)
    }
    fn decode(&mut self, blob: &[u8], _n: usize) -> Result<Vec<u8>, String> {
        self.c.as_ref().ok_or(NO_MODEL.to_string())?.decompress(blob).map_err(estr)
    }
    fn max_len(&self, thorough: bool) -> usize {
        if thorough {
            1 << 20
        } else {
            210_000
        }
    }
}

/// AdaptiveParallelEncoder::encode_adaptive picks algorithm and stream count from the payload
/// (select_optimal_encoding is public); the matching decoder is the one of the algorithm it names:
/// Huffman: tree of the payload; rANS: the uniform table the adaptive encoder is built with; FSE: default.
struct ParAdaptive {
    how: (&'static str, &'static str),
    x: Vec<u8>,
}
fn par_huff_dec<P: HuffVariant>(x: &[u8], blob: &[u8], n: usize) -> Result<Vec<u8>, String> {
    let mut d = ParallelHuffmanDecoder::<P>::new(ParallelConfig::default());
    d.set_tree(HuffmanTree::from_data(x).map_err(estr)?).map_err(estr)?;
    d.decode(blob, n).map_err(estr)
}
impl Codec for ParAdaptive {
    fn trains(&self) -> bool {
        false
    }
    fn mech_for(&self, c: &str, x: &[u8]) -> Vec<Value> {
        // when the selection names FSE the table is the one FseEncoder(default) derives from the payload
        match AdaptiveParallelEncoder::new() {
            Ok(e) if !x.is_empty() && e.select_optimal_encoding(x).0 == "fse" => fse_table(c, &FseConfig::default(), x),
            _ => vec![],
        }
    }
    fn encode(&mut self, x: &[u8]) -> Result<Vec<u8>, String> {
        let mut e = AdaptiveParallelEncoder::new().map_err(estr)?;
        self.how = e.select_optimal_encoding(x);
        self.x = x.to_vec();
        e.encode_adaptive(x).map_err(estr)
    }
    fn decode(&mut self, blob: &[u8], n: usize) -> Result<Vec<u8>, String> {
        let uni = [1u32; 256];
        match self.how {
            ("huffman", "x2") => par_huff_dec::<ParallelX2Variant>(&self.x, blob, n),
            ("huffman", "x4") => par_huff_dec::<ParallelX4Variant>(&self.x, blob, n),
            ("huffman", _) => par_huff_dec::<ParallelX8Variant>(&self.x, blob, n),
            ("rans", "x2") => rans_dec::<ParallelX2>(&uni, blob, n),
            ("rans", "x4") => rans_dec::<ParallelX4>(&uni, blob, n),
            ("rans", _) => rans_dec::<ParallelX8>(&uni, blob, n),
            _ => FseDecoder::new().decompress(blob).map_err(estr),
        }
    }
}

/// ParallelHuffman with the high_throughput configuration (512 KiB single-stream threshold)
struct ParHuffHt {
    enc: Option<ParallelHuffmanEncoder<ParallelX4Variant>>,
    tree: Option<HuffmanTree>,
    t: Vec<u8>,
}
impl Codec for ParHuffHt {
    fn train(&mut self, t: &[u8]) -> Result<Value, String> {
        self.enc = None;
        self.tree = None;
        let mut e = ParallelHuffmanEncoder::<ParallelX4Variant>::new(ParallelConfig::high_throughput()).map_err(estr)?;
        e.train(t).map_err(estr)?;
        self.tree = Some(HuffmanTree::from_data(t).map_err(estr)?);
        self.enc = Some(e);
        self.t = t.to_vec();
        Ok(json!({}))
    }
    fn mech(&self, c: &str, _seed: u64, _all: bool) -> Vec<Value> {
        self.tree.iter().map(|t| codes_event(c, -1, t, &present(&self.t))).collect()
    }
    fn encode(&mut self, x: &[u8]) -> Result<Vec<u8>, String> {
        self.enc.as_mut().ok_or(NO_MODEL.to_string())?.encode(x).map_err(estr)
    }
    fn decode(&mut self, blob: &[u8], n: usize) -> Result<Vec<u8>, String> {
        let tree = self.tree.as_ref().ok_or(NO_MODEL.to_string())?.clone();
        let mut d = ParallelHuffmanDecoder::<ParallelX4Variant>::new(ParallelConfig::high_throughput());
        d.set_tree(tree).map_err(estr)?;
        d.decode(blob, n).map_err(estr)
    }
}

/// BitOps::encode_variable_length_bmi2 / decode_variable_length_bmi2: a field of `len` bits.  Payload = [len, value as
/// 4 LE bytes] with value < 2^len; blob = [len, field as 8 LE bytes]; decode returns [len, value read back].
struct BitField {
    ops: BitOps,
}
impl Codec for BitField {
    fn trains(&self) -> bool {
        false
    }
    fn takes(&self, klass: &str) -> bool {
        klass == "bitfield"
    }
    fn encode(&mut self, x: &[u8]) -> Result<Vec<u8>, String> {
        if x.len() != 5 {
            return Err("harness: not a field".into());
        }
        let v = u32::from_le_bytes([x[1], x[2], x[3], x[4]]);
        let bits = self.ops.encode_variable_length_bmi2(v, x[0] as u32).map_err(estr)?;
        let mut out = vec![x[0]];
        out.extend_from_slice(&bits.to_le_bytes());
        Ok(out)
    }
    fn decode(&mut self, blob: &[u8], _n: usize) -> Result<Vec<u8>, String> {
        if blob.len() != 9 {
            return Err("harness: not a field blob".into());
        }
        let mut w = [0u8; 8];
        w.copy_from_slice(&blob[1..]);
        let v = self.ops.decode_variable_length_bmi2(u64::from_le_bytes(w), 0, blob[0] as u32).map_err(estr)?;
        let mut out = vec![blob[0]];
        out.extend_from_slice(&v.to_le_bytes());
        Ok(out)
    }
}

/// (subject, family, variant, streams)
const SUBJECTS: &[(&str, &str, &str, u32)] = &[
    ("huff0", "huff", "o0", 1),
    ("ctx_o0", "ctx", "o0", 1),
    ("ctx_o1", "ctx", "o1", 1),
    ("ctx_o2", "ctx", "o2", 1),
    ("ctx1_x1", "ctxil", "x1", 1),
    ("ctx1_x2", "ctxil", "x2", 2),
    ("ctx1_x4", "ctxil", "x4", 4),
    ("ctx1_x8", "ctxil", "x8", 8),
    ("ctx1_il1", "ctxil", "il1", 1),
    ("ctx1_il2", "ctxil", "il2", 2),
    ("ctx1_il4", "ctxil", "il4", 4),
    ("ctx1_il8", "ctxil", "il8", 8),
    ("simd_avx2bmi2", "simd", "avx2bmi2", 1),
    ("simd_avx2", "simd", "avx2", 1),
    ("simd_sse42bmi2", "simd", "sse42bmi2", 1),
    ("simd_sse42", "simd", "sse42", 1),
    ("simd_bmi2", "simd", "bmi2", 1),
    ("simd_scalar", "simd", "scalar", 1),
    ("parhuff_x2", "parhuff", "x2", 2),
    ("parhuff_x4", "parhuff", "x4", 4),
    ("parhuff_x8", "parhuff", "x8", 8),
    ("rans_x1", "rans", "x1", 1),
    ("rans_x2", "rans", "x2", 2),
    ("rans_x4", "rans", "x4", 4),
    ("rans_x8", "rans", "x8", 8),
    ("rans_adaptive", "ransad", "adaptive", 0),
    ("fse_default", "fse", "default", 1),
    ("fse_fast", "fse", "fast", 1),
    ("fse_high", "fse", "high", 1),
    ("fse_realtime", "fse", "realtime", 1),
    ("fse_balanced", "fse", "balanced", 1),
    ("fse_zip", "fse", "zip", 1),
    ("dict", "dict", "lz", 1),
    ("odict", "odict", "lz", 1),
    // twins, lower-level entry points, further configurations
    ("huff0_freq", "huff", "fromfreq", 1),
    ("rans_symenc", "rans", "symenc", 1),
    ("rans_symdec", "rans", "symdec", 1),
    ("fse_fn_default", "fse", "fn_default", 1),
    ("fse_fn_fast", "fse", "fn_fast", 1),
    ("fse_par", "fse", "par", 4),
    ("fse_par1k", "fse", "par1k", 4),
    ("fse_dict", "fse", "dict", 1),
    ("fse_log5", "fse", "log5", 1),
    ("fse_log15", "fse", "log15", 1),
    ("fse_realtime_an", "fse", "realtime", 1),
    ("fse_sym", "fse", "sym", 1),
    ("dict_cfg", "dict", "cfg", 1),
    ("odict_cfg", "odict", "cfg", 1),
    ("par_adaptive", "paradapt", "adaptive", 0),
    ("parhuff_x4_ht", "parhuff", "x4ht", 4),
    ("bitfield", "bitfield", "varlen", 1),
];

fn make(name: &str) -> Box<dyn Codec> {
    let ctx = |order, how| Box::new(Ctx { order, how, enc: None, dec: None, t: vec![] }) as Box<dyn Codec>;
    let simd = |tier| Box::new(Simd { tier, enc: None, t: vec![] }) as Box<dyn Codec>;
    let fse = |cfg| Box::new(Fse { cfg, enc: None, model: None }) as Box<dyn Codec>;
    match name {
        "huff0" => Box::new(Huff0 { enc: None, t: vec![] }),
        "ctx_o0" => ctx(HuffmanOrder::Order0, CtxHow::Plain),
        "ctx_o1" => ctx(HuffmanOrder::Order1, CtxHow::Plain),
        "ctx_o2" => ctx(HuffmanOrder::Order2, CtxHow::Plain),
        "ctx1_x1" => ctx(HuffmanOrder::Order1, CtxHow::Xn(1)),
        "ctx1_x2" => ctx(HuffmanOrder::Order1, CtxHow::Xn(2)),
        "ctx1_x4" => ctx(HuffmanOrder::Order1, CtxHow::Xn(4)),
        "ctx1_x8" => ctx(HuffmanOrder::Order1, CtxHow::Xn(8)),
        "ctx1_il1" => ctx(HuffmanOrder::Order1, CtxHow::Il(1)),
        "ctx1_il2" => ctx(HuffmanOrder::Order1, CtxHow::Il(2)),
        "ctx1_il4" => ctx(HuffmanOrder::Order1, CtxHow::Il(4)),
        "ctx1_il8" => ctx(HuffmanOrder::Order1, CtxHow::Il(8)),
        "simd_avx2bmi2" => simd(HuffmanSimdTier::Avx2Bmi2),
        "simd_avx2" => simd(HuffmanSimdTier::Avx2),
        "simd_sse42bmi2" => simd(HuffmanSimdTier::Sse42Bmi2),
        "simd_sse42" => simd(HuffmanSimdTier::Sse42),
        "simd_bmi2" => simd(HuffmanSimdTier::Bmi2),
        "simd_scalar" => simd(HuffmanSimdTier::Scalar),
        "parhuff_x2" => Box::new(ParHuff::<ParallelX2Variant> { enc: None, tree: None, t: vec![] }),
        "parhuff_x4" => Box::new(ParHuff::<ParallelX4Variant> { enc: None, tree: None, t: vec![] }),
        "parhuff_x8" => Box::new(ParHuff::<ParallelX8Variant> { enc: None, tree: None, t: vec![] }),
        "rans_x1" => Box::new(Rans::<ParallelX1> { enc: None, f: [0; 256], _p: PhantomData }),
        "rans_x2" => Box::new(Rans::<ParallelX2> { enc: None, f: [0; 256], _p: PhantomData }),
        "rans_x4" => Box::new(Rans::<ParallelX4> { enc: None, f: [0; 256], _p: PhantomData }),
        "rans_x8" => Box::new(Rans::<ParallelX8> { enc: None, f: [0; 256], _p: PhantomData }),
        "rans_adaptive" => Box::new(RansAd { a: AdaptiveRans64Encoder::new(), f: [0; 256], v: "x1" }),
        "fse_default" => fse(FseConfig::default()),
        "fse_fast" => fse(FseConfig::fast_compression()),
        "fse_high" => fse(FseConfig::high_compression()),
        "fse_realtime" => fse(FseConfig::realtime()),
        "fse_balanced" => fse(FseConfig::balanced()),
        "fse_zip" => Box::new(FseZip),
        "dict" => Box::new(Dict { c: None }),
        "odict" => Box::new(ODict { c: None }),
        "huff0_freq" => Box::new(Huff0Freq { enc: None, t: vec![] }),
        "rans_symenc" => Box::new(RansSym { sym_enc: true, enc: None, f: [0; 256] }),
        "rans_symdec" => Box::new(RansSym { sym_enc: false, enc: None, f: [0; 256] }),
        "fse_fn_default" => Box::new(FseFn { cfg: None }),
        "fse_fn_fast" => Box::new(FseFn { cfg: Some(FseConfig::fast_compression()) }),
        "fse_par" => Box::new(FseObj { cfg: FseConfig { parallel_blocks: Some(4), block_size: 16 * 1024, ..FseConfig::default() }, dict: None }),
        "fse_par1k" => Box::new(FseObj { cfg: FseConfig { parallel_blocks: Some(4), block_size: 1024, ..FseConfig::default() }, dict: None }),
        "fse_dict" => Box::new(FseObj { cfg: FseConfig::default(), dict: Some(b"the quick brown fox jumps over the lazy dog 0123456789".repeat(4)) }),
        "fse_log5" => Box::new(FseObj { cfg: FseConfig { table_log: 5, ..FseConfig::default() }, dict: None }),
        "fse_log15" => Box::new(FseObj { cfg: FseConfig { table_log: 15, ..FseConfig::default() }, dict: None }),
        "fse_realtime_an" => Box::new(FseAnalyze { cfg: FseConfig::realtime(), enc: None, model: None }),
        "fse_sym" => Box::new(FseSym { t: None, model: vec![] }),
        "dict_cfg" => Box::new(DictCfg { c: None }),
        "odict_cfg" => Box::new(ODictCfg { c: None }),
        "par_adaptive" => Box::new(ParAdaptive { how: ("", ""), x: vec![] }),
        "parhuff_x4_ht" => Box::new(ParHuffHt { enc: None, tree: None, t: vec![] }),
        "bitfield" => Box::new(BitField { ops: BitOps::new() }),
        _ => {
            eprintln!("c01: unknown subject {name}");
            std::process::exit(2)
        }
    }
}

// ---------------------------------------------------------------- input families

struct Session {
    klass: String,
    mode: &'static str, // same | other | superset
    train: Vec<u8>,
    payloads: Vec<Vec<u8>>,
}

fn alphabet(k: usize, r: &mut Rng) -> Vec<u8> {
    // k distinct byte values; always contains 0 and 255 when k >= 2 (edge symbols of the 256-entry tables)
    let mut all: Vec<u8> = (1..255u8).collect();
    r.shuffle(&mut all);
    let mut a: Vec<u8> = match k {
        0 => vec![],
        1 => vec![all[0]],
        256 => (0..=255u8).collect(),
        _ => {
            let mut v = vec![0u8, 255u8];
            v.extend_from_slice(&all[..k.min(256) - 2]);
            v
        }
    };
    a.sort();
    a
}
fn uniform_over(a: &[u8], n: usize, r: &mut Rng) -> Vec<u8> {
    // every symbol of the alphabet at least once when n allows, otherwise uniform
    let mut v: Vec<u8> = (0..n).map(|i| if i < a.len() { a[i] } else { *r.pick(a) }).collect();
    r.shuffle(&mut v);
    v
}
fn geometric_over(a: &[u8], n: usize, r: &mut Rng) -> Vec<u8> {
    // symbol i with probability ~ 2^-(i+1); every symbol at least once when n allows
    let mut v: Vec<u8> = (0..n)
        .map(|i| {
            if i < a.len() {
                a[i]
            } else {
                let z = (r.next() | 1 << 63).trailing_zeros() as usize;
                a[z % a.len()]
            }
        })
        .collect();
    r.shuffle(&mut v);
    v
}
fn fib_counts(k: usize, cap: usize) -> Vec<usize> {
    // 1, 1, 2, 3, 5, ... scaled down from the top when the total would exceed cap (counts stay >= 1)
    let mut f = vec![1usize; k];
    for i in 2..k {
        f[i] = f[i - 1] + f[i - 2];
    }
    let tot: usize = f.iter().sum();
    if tot > cap {
        for x in f.iter_mut() {
            *x = (*x * cap / tot).max(1);
        }
    }
    f
}
fn from_counts(a: &[u8], counts: &[usize], r: &mut Rng, shuffled: bool) -> Vec<u8> {
    let mut v = vec![];
    for (i, &c) in counts.iter().enumerate() {
        v.extend(std::iter::repeat(a[i]).take(c));
    }
    if shuffled {
        r.shuffle(&mut v);
    }
    v
}
fn texty(n: usize, r: &mut Rng) -> Vec<u8> {
    // highly compressible: phrases repeated with small variations and long runs
    let words: [&[u8]; 8] = [b"the quick brown fox ", b"jumps over ", b"the lazy dog. ", b"zipora ", b"entropy coding ", b"0000000000000000", b"abcabcabcabc", b"\n"];
    let mut v = Vec::with_capacity(n + 32);
    while v.len() < n {
        let w = words[r.below(8) as usize];
        v.extend_from_slice(w);
        if r.chance(1, 16) {
            v.push(r.next() as u8);
        }
        if r.chance(1, 64) {
            let b = r.next() as u8;
            let k = r.range(20, 400) as usize;
            v.extend(std::iter::repeat(b).take(k));
        }
    }
    v.truncate(n);
    v
}
fn all_strings(a: &[u8], maxlen: usize) -> Vec<Vec<u8>> {
    let mut out = vec![vec![]];
    let mut cur: Vec<Vec<u8>> = vec![vec![]];
    for _ in 0..maxlen {
        let mut next = vec![];
        for s in &cur {
            for &c in a {
                let mut t = s.clone();
                t.push(c);
                next.push(t);
            }
        }
        out.extend(next.iter().cloned());
        cur = next;
    }
    out
}
fn concat(v: &[Vec<u8>]) -> Vec<u8> {
    v.iter().flat_map(|x| x.iter().copied()).collect()
}

fn sessions(a: &Args, subj_index: usize, heavy: bool) -> Vec<Session> {
    let th = a.thorough();
    let root = Rng::new(a.seed);
    let mut out: Vec<Session> = vec![];
    let mut same = |klass: &str, x: Vec<u8>| out.push(Session { klass: klass.into(), mode: "same", train: x.clone(), payloads: vec![x] });

    // --- exhaustive small scope: all strings over {0x00, 'a', 0xFF} (and its sub-alphabets)
    let a3 = [0u8, b'a', 255u8];
    let small = all_strings(&a3, 6); // 1093 strings, by length
    let n_same = if th { small.len() } else { 121 }; // quick: strings up to length 4 ...
    for (i, s) in small.iter().enumerate() {
        // ... of which every subject takes every string up to length 3 and a rotating third of length 4
        if i < n_same && (th || i < 40 || (i + subj_index + a.seed as usize) % 3 == 0) {
            same("small3", s.clone());
        }
    }
    drop(same);
    // every string up to length 6 under one model trained on a superset / on unrelated data over the same alphabet
    // (subjects that rebuild a 16 MiB decode table per call: every string up to length 4 and a rotating eighth of the rest)
    let mut r = root.derive("small3");
    let keep = |i: usize| th || !heavy || i < 121 || (i + subj_index + a.seed as usize) % 8 == 0;
    let sup: Vec<Vec<u8>> = small.iter().enumerate().filter(|(i, _)| keep(*i)).map(|(_, s)| s.clone()).collect();
    out.push(Session { klass: "small3".into(), mode: "superset", train: concat(&small[..121]), payloads: sup });
    let n_other = if th { 364 } else if heavy { 40 } else { 121 };
    out.push(Session { klass: "small3".into(), mode: "other", train: geometric_over(&a3, 300, &mut r), payloads: small[..n_other].to_vec() });

    // --- lengths: 0..=17 (every residue mod 8, N*streams +- 1), around 24/32/64/100/128/256
    let mut lens: Vec<usize> = (0..=17).collect();
    lens.extend_from_slice(&[23, 24, 25, 31, 32, 33, 63, 64, 65, 99, 100, 101, 127, 128, 129, 255, 256, 257]);
    if th {
        lens.extend_from_slice(&[511, 512, 513, 1023, 1024, 1025, 8191, 8192, 8193]);
    }
    for (ai, k) in [2usize, 16].iter().enumerate() {
        let mut r = root.derive(&format!("lens{k}"));
        let al = alphabet(*k, &mut r);
        let klass = format!("lens_a{k}");
        let mut group = vec![];
        for (li, &n) in lens.iter().enumerate() {
            let x = if ai == 0 { geometric_over(&al, n, &mut r) } else { uniform_over(&al, n, &mut r) };
            if th || n <= 17 || (li + subj_index) % 2 == 0 {
                out.push(Session { klass: klass.clone(), mode: "same", train: x.clone(), payloads: vec![x.clone()] });
            }
            group.push(x);
        }
        // one model for all lengths
        let t_other = uniform_over(&al, 600, &mut r);
        out.push(Session { klass: klass.clone(), mode: "other", train: t_other, payloads: group.clone() });
        let mut t_sup = concat(&group);
        t_sup.extend_from_slice(&alphabet(40, &mut r));
        out.push(Session { klass, mode: "superset", train: t_sup, payloads: group });
    }

    // --- alphabet sizes
    let mut sizes: Vec<usize> = vec![1, 2, 3];
    sizes.extend(13..=20);
    sizes.extend_from_slice(&[64, 65, 66, 67, 128, 255, 256]);
    for &k in &sizes {
        let mut r = root.derive(&format!("alpha{k}"));
        let al = alphabet(k, &mut r);
        let n = if k >= 64 { 3000 } else { 1200 };
        let u = uniform_over(&al, n, &mut r);
        let g = geometric_over(&al, n, &mut r);
        let mut sorted = g.clone();
        sorted.sort();
        let klass = format!("alpha{k}");
        out.push(Session { klass: klass.clone(), mode: "same", train: u.clone(), payloads: vec![u.clone()] });
        out.push(Session { klass: klass.clone(), mode: "same", train: g.clone(), payloads: vec![g.clone()] });
        out.push(Session { klass: klass.clone(), mode: "other", train: u.clone(), payloads: vec![g.clone(), sorted.clone(), g[..g.len() / 3].to_vec()] });
        let mut sup = g.clone();
        sup.extend((0..=255u8).step_by(3));
        out.push(Session { klass, mode: "superset", train: sup, payloads: vec![g, sorted] });
    }

    // --- Fibonacci-skewed counts over 14..=22 symbols (thorough ..=27): textbook Huffman depths 13..
    let kmax = if th { 27 } else { 22 };
    let cap = if th { 1 << 20 } else { 60000 };
    for k in 14..=kmax {
        let mut r = root.derive(&format!("fib{k}"));
        let al = alphabet(k, &mut r);
        let counts = fib_counts(k, cap);
        let x = from_counts(&al, &counts, &mut r, true);
        let klass = format!("fib{k}");
        out.push(Session { klass: klass.clone(), mode: "same", train: x.clone(), payloads: vec![x.clone()] });
        if k % 4 == 2 {
            let rev: Vec<usize> = counts.iter().rev().copied().collect();
            let y = from_counts(&al, &rev, &mut r, false);
            out.push(Session { klass: klass.clone(), mode: "same", train: y.clone(), payloads: vec![y] });
            out.push(Session { klass, mode: "other", train: uniform_over(&al, 500, &mut r), payloads: vec![x] });
        }
    }

    // --- one very rare symbol: (big, 1), (1, big, 1), (big, 1, 1, 1), one-in-n
    let bigs: &[usize] = if th { &[65534, 100_000, 1_000_000] } else { &[9000, 65533] };
    for &n in bigs {
        let mut r = root.derive(&format!("rare{n}"));
        let klass = format!("rare{n}");
        let mk = |dom: u8, rare: &[(u8, usize)]| {
            let mut v = vec![dom; n];
            for &(s, pos) in rare {
                v[pos % n] = s;
            }
            v
        };
        let p = r.below(n as u64) as usize;
        let cases = vec![
            mk(b'a', &[(b'b', p)]),
            mk(b'b', &[(b'a', 0), (b'c', n - 1)]),
            mk(b'a', &[(b'b', p), (b'c', p / 2 + 1), (b'd', p / 3 + 2)]),
            mk(0, &[(255, p)]),
            mk(200, &[(3, 1), (7, p), (9, n - 2), (250, n / 2), (251, n / 2 + 1)]),
        ];
        for x in cases {
            out.push(Session { klass: klass.clone(), mode: "same", train: x.clone(), payloads: vec![x] });
        }
    }

    // --- all-zero, single symbol, length 0 and 1
    for &n in &[1usize, 7, 8, 100, 4096, 65536] {
        out.push(Session { klass: "zero".into(), mode: "same", train: vec![0; n], payloads: vec![vec![0; n]] });
    }
    for &(b, n) in &[(0x41u8, 1usize), (0x41, 9), (0x41, 100), (0x41, 5000), (0xFF, 3), (0xFF, 200), (1, 64)] {
        out.push(Session { klass: "single".into(), mode: "same", train: vec![b; n], payloads: vec![vec![b; n]] });
    }
    out.push(Session { klass: "edge".into(), mode: "same", train: vec![], payloads: vec![vec![]] });
    for &b in &[0u8, 7, 255] {
        out.push(Session { klass: "edge".into(), mode: "same", train: vec![b], payloads: vec![vec![b]] });
    }
    {
        // empty and one-byte payloads under a real model
        let mut r = root.derive("edge");
        let t = texty(400, &mut r);
        out.push(Session { klass: "edge".into(), mode: "superset", train: t.clone(), payloads: vec![vec![], vec![t[0]], vec![t[1], t[1]], t[..3].to_vec()] });
    }

    // --- symbol counts and total lengths across the widths a header or table field could have (8 / 12 / 16 bits),
    //     the dominant symbol next to rarer ones that still own slots of a 4096-slot table
    {
        let mut r = root.derive("widths");
        for &c in &[255usize, 256, 4095, 4096, 65535, 65536] {
            let x = from_counts(&[b'z', b'b', b'c'], &[c, c / 8 + 3, c / 16 + 2], &mut r, true);
            out.push(Session { klass: format!("count{c}"), mode: "same", train: x.clone(), payloads: vec![x.clone()] });
            if c >= 65535 {
                let y = from_counts(&[b'b', b'z'], &[1, c], &mut r, true);
                out.push(Session { klass: format!("count{c}r1"), mode: "same", train: y.clone(), payloads: vec![y] });
                out.push(Session { klass: format!("count{c}"), mode: "other", train: x[..8192].to_vec(), payloads: vec![x] });
            }
        }
        let a16 = alphabet(16, &mut r);
        let stair: Vec<usize> = (0..16).map(|i| 16 - i).collect();
        let mk = |n: usize, r: &mut Rng| {
            let tot: usize = stair.iter().sum();
            let mut counts: Vec<usize> = stair.iter().map(|w| w * n / tot).collect();
            let used: usize = counts.iter().sum();
            counts[0] += n - used;
            from_counts(&a16, &counts, r, true)
        };
        let mut ns = vec![65535usize, 65536, 65537];
        // size-dependent switches: rANS adaptive 73 / 5329, SIMD tiers 64 / 1024 / 8192, single-stream thresholds and
        // block splitting at 32 KiB (ParallelConfig::low_latency, FSE blocks of 16 KiB: parallel above 2 blocks)
        ns.extend_from_slice(&[72, 73, 1023, 1024, 1025, 5328, 5329, 8191, 8192, 8193, 32767, 32768, 32769]);
        if th {
            ns.extend_from_slice(&[131071, 131072, 131073, 262144, 262145, 524287, 524288, 524289]);
        }
        for n in ns {
            let x = mk(n, &mut r);
            out.push(Session { klass: format!("len{n}"), mode: "same", train: x.clone(), payloads: vec![x] });
        }
        let big = if th { 2_000_000 } else { 200_000 };
        let x = from_counts(&[b'p', b'q'], &[big * 7 / 10, big * 3 / 10], &mut r, true);
        out.push(Session { klass: format!("len{big}"), mode: "same", train: x.clone(), payloads: vec![x.clone()] });
        out.push(Session { klass: format!("len{big}"), mode: "superset", train: mk(3000, &mut r).into_iter().chain(x[..50000].iter().copied()).collect(), payloads: vec![x] });
    }

    // --- LZ switches: match lengths around the minimum (10) and the maximum (258), distances around the 32 KiB window
    {
        let mut r = root.derive("lz");
        let mut x = r.bytes(300);
        for &m in &[9usize, 10, 11, 12, 19, 20, 21, 257, 258, 259, 600] {
            let pat = r.bytes(m);
            x.extend_from_slice(&r.bytes(40));
            x.extend_from_slice(&pat);
            x.extend_from_slice(&r.bytes(50));
            x.extend_from_slice(&pat);
        }
        out.push(Session { klass: "lzlen".into(), mode: "same", train: x.clone(), payloads: vec![x.clone()] });
        out.push(Session { klass: "lzlen".into(), mode: "other", train: r.bytes(500), payloads: vec![x] });
        for &d in &[511usize, 512, 513, 32767, 32768, 32769] {
            let pat = r.bytes(24);
            let mut y = pat.clone();
            y.extend_from_slice(&r.bytes(d - 24));
            y.extend_from_slice(&pat);
            y.extend_from_slice(&r.bytes(30));
            out.push(Session { klass: format!("lzdist{d}"), mode: "same", train: y.clone(), payloads: vec![y] });
        }
    }

    // --- LZ windows with MATCHES on both sides of the boundaries.  A 301-byte pseudo-random block repeated: every
    //     position has a maximal match, found fast.  lzrep: total lengths around the 32 KiB window and well beyond it;
    //     lzmark: a unique 40-byte marker twice, at distance d, the second copy beyond position 32 768 (so the window
    //     no longer starts at 0), d on both sides of the window size; lzmarklen: markers of the minimum / maximum match
    //     lengths, both copies beyond position 32 768.  Own model (same) and a model of a short prefix (other).
    {
        let mut r = root.derive("lzrep");
        let block = r.bytes(301);
        let rep = |from: usize, n: usize| -> Vec<u8> { (from..from + n).map(|i| block[i % 301]).collect() };
        let mut push2 = |klass: String, y: Vec<u8>| {
            out.push(Session { klass: klass.clone(), mode: "same", train: y.clone(), payloads: vec![y.clone()] });
            out.push(Session { klass, mode: "other", train: y[..1000].to_vec(), payloads: vec![y] });
        };
        let mut ns = vec![32767usize, 32768, 32769, 40000, 70000];
        if th {
            ns.extend_from_slice(&[65536, 65537, 140000]);
        }
        for n in ns {
            push2(format!("lzrep{n}"), rep(0, n));
        }
        for &d in &[511usize, 512, 513, 32767, 32768, 32769] {
            let marker = r.bytes(40);
            let p0 = if d < 1000 { 33000 } else { 2000 };
            let mut y = rep(0, p0);
            y.extend_from_slice(&marker);
            y.extend(rep(7, d - 40));
            y.extend_from_slice(&marker);
            y.extend(rep(100, 300));
            push2(format!("lzmark{d}"), y);
        }
        let mut y = rep(0, 33000);
        for &m in &[9usize, 10, 11, 12, 19, 20, 21, 257, 258, 259, 300] {
            let marker = r.bytes(m);
            y.extend_from_slice(&marker);
            y.extend(rep(13 + m, 500));
            y.extend_from_slice(&marker);
            y.extend(rep(29 + m, 200));
        }
        push2("lzmarklen".into(), y);
    }

    // --- bit fields of every width for the variable-length field pair of BitOps (value < 2^len)
    {
        let mut r = root.derive("bitfield");
        let mut ps = vec![];
        for len in 0u32..=33 {
            let max = if len >= 32 { u32::MAX } else { (1u32 << len).wrapping_sub(1) };
            let mut vals = vec![0u32, 1 & max, max, max.wrapping_sub(1) & max, max >> 1, (max >> 1).wrapping_add(1) & max];
            for _ in 0..3 {
                vals.push(r.next() as u32 & max);
            }
            for v in vals {
                let mut p = vec![len as u8];
                p.extend_from_slice(&v.to_le_bytes());
                ps.push(p);
            }
        }
        out.push(Session { klass: "bitfield".into(), mode: "same", train: vec![], payloads: ps });
    }

    // --- the recorded witnesses of the known findings (smallest inputs of their shape), for every subject
    {
        let abc = |n: usize| {
            let mut v = vec![b'a'];
            v.extend(std::iter::repeat(b'b').take(n));
            v.push(b'c');
            v
        };
        for x in [abc(8190), abc(5460), abc(5459), b"ab".repeat(50), b"ab".repeat(49)] {
            out.push(Session { klass: "witness".into(), mode: "same", train: x.clone(), payloads: vec![x] });
        }
        out.push(Session { klass: "witness".into(), mode: "other", train: b"0123456789ABCDEF".to_vec(), payloads: vec![b"zzzzzz0123456789".to_vec()] });
    }

    // --- text-like, 64 KiB random, 64 KiB highly compressible (thorough: 1 MiB, 4 MiB)
    {
        let mut r = root.derive("big");
        for &n in &[60usize, 300, 2000] {
            let x = texty(n, &mut r);
            out.push(Session { klass: "text".into(), mode: "same", train: x.clone(), payloads: vec![x] });
        }
        let mut sizes = vec![65536usize];
        if th {
            sizes.extend_from_slice(&[1 << 20, 4 << 20]);
        }
        for &n in &sizes {
            let rnd = r.bytes(n);
            let txt = texty(n, &mut r);
            out.push(Session { klass: format!("random{n}"), mode: "same", train: rnd.clone(), payloads: vec![rnd.clone()] });
            out.push(Session { klass: format!("compressible{n}"), mode: "same", train: txt.clone(), payloads: vec![txt.clone()] });
            if n == 65536 {
                out.push(Session { klass: format!("compressible{n}"), mode: "other", train: texty(20000, &mut r), payloads: vec![txt.clone(), txt[1000..9000].to_vec()] });
                let mut sup = rnd[..20000].to_vec();
                sup.extend_from_slice(&txt[..20000]);
                out.push(Session { klass: format!("mixed{n}"), mode: "superset", train: sup, payloads: vec![rnd[..20000].to_vec(), txt[..20000].to_vec(), txt[5000..5100].to_vec()] });
            }
        }
    }
    out
}

// ---------------------------------------------------------------- one subject (child process)

#[derive(Default)]
struct Stats {
    sessions: u64,
    nontrivial: u64,
    trains_ok: u64,
    trains_refused: u64,
    encodes_ok: u64,
    encodes_refused: u64,
    decodes: u64,
    decode_errors: u64,
    panics: u64,
    skipped_payloads: u64,
    skipped_sessions: u64,
    tables: u64,
    code_tables: u64,
    bytes: u64,
}

fn run_subject(a: &Args, name: &str) {
    quiet_panics();
    let idx = SUBJECTS.iter().position(|s| s.0 == name).unwrap_or_else(|| {
        eprintln!("c01: unknown subject {name}");
        std::process::exit(2)
    });
    let (_, fam, variant, streams) = SUBJECTS[idx];
    let from = a.get_u64("from", 0) as usize;
    let only = a.get("only").and_then(|s| s.parse::<usize>().ok());
    let mut tr = Tracer::new(&a.out, &format!("c01-{name}-f{from}"));
    tr.max_events = 4000;
    let mut st = Stats::default();
    let all_ctx = a.thorough() && a.get("allctx").is_some();
    let progress = a.out.join(format!("progress-{name}.txt"));
    let heavy = fam == "ctxil" || name == "ctx_o2";
    let sess = sessions(a, idx, heavy);
    let mut samples: Vec<Value> = vec![];
    for (si, s) in sess.iter().enumerate() {
        if si < from || only.map_or(false, |k| k != si) {
            continue;
        }
        let mut codec = make(name);
        if !codec.takes(&s.klass) {
            continue;
        }
        // the twins / further configurations of the coverage round share their code with a primary subject: quick gives
        // them a rotating half of the small-scope, length and alphabet sessions (everything else, and thorough: all)
        if idx >= 34 && !a.thorough() && (si + idx + a.seed as usize) % 2 == 1
            && (s.klass == "small3" && s.mode == "same" || s.klass.starts_with("alpha") || (s.klass.starts_with("lens_") && s.mode == "same"))
        {
            continue;
        }
        let trains = codec.trains();
        // the window sessions are cheap even for the quadratic matchers: random bytes (lzdist: no candidate survives the
        // first byte) or a short block repeated (lzrep / lzmark: a maximal match at every position, 258 bytes per step);
        // only DictionaryBuilder::build is slow on repeated data, so those are trained on a short prefix (mode other)
        let base_cap = codec.max_len(a.thorough());
        let train_cap = if s.klass.starts_with("lzdist") { base_cap.max(40_000) } else { base_cap };
        let cap = if s.klass.starts_with("lz") { base_cap.max(80_000) } else { base_cap };
        // a codec without a training step sees every payload on its own: other / superset sessions only repeat "same"
        if !trains && s.mode != "same" && !(s.klass == "small3" && s.mode == "superset") {
            continue;
        }
        let mode = if trains { s.mode } else { "self" };
        if trains && s.train.len() > train_cap {
            st.skipped_sessions += 1;
            continue;
        }
        let _ = std::fs::write(&progress, format!("{si}"));
        tr.reset("codec", name, json!({"fam":fam,"variant":variant,"streams":streams,"mode":mode,"klass":s.klass,"sess":si,"tier":a.tier,"seed":a.seed.to_string()}));
        tr.flush();
        st.sessions += 1;
        let mut alive = true;
        if trains {
            match guard(|| codec.train(&s.train)) {
                Ok(Ok(info)) => {
                    st.trains_ok += 1;
                    tr.ev(json!({"op":"train","c":name,"d":digest(&s.train),"ok":true,"err":"","info":info}));
                    // the contextual coders have up to 1025 trees of 256 codes: quick judges the baseline tree and one
                    // sampled context tree on a rotating half of the sessions, thorough four trees on every session
                    let ctx_like = fam == "ctx" || fam == "ctxil";
                    let want_mech = !ctx_like || a.thorough() || (si + idx) % 2 == 0;
                    let mseed = ((a.seed ^ si as u64) & !(1 << 40)) | if a.thorough() { 1 << 40 } else { 0 };
                    match guard(|| if want_mech { codec.mech(name, mseed, all_ctx) } else { vec![] }) {
                        Ok(evs) => {
                            for e in evs {
                                if e["op"] == "table" || e["op"] == "norm" || e["op"] == "symsteps" {
                                    st.tables += 1
                                } else {
                                    st.code_tables += 1
                                }
                                tr.ev(e);
                            }
                        }
                        Err(msg) => {
                            st.panics += 1;
                            tr.ev(json!({"op":"panic","in":"mech","c":name,"msg":msg}));
                        }
                    }
                }
                Ok(Err(e)) => {
                    st.trains_refused += 1;
                    tr.ev(json!({"op":"train","c":name,"d":digest(&s.train),"ok":false,"err":e,"info":{}}));
                }
                Err(msg) => {
                    st.panics += 1;
                    tr.ev(json!({"op":"panic","in":"train","c":name,"msg":msg}));
                    std::mem::forget(codec);
                    codec = make(name);
                    alive = false;
                }
            }
        }
        let mut blob_id = 0u32;
        let mut roundtrips = 0u64;
        // the exhaustive small-scope sessions (hundreds of tiny payloads under one model) are logged as batch events:
        // one "roundtrips" event = the sequence encode(x_i); decode(blob_i, len x_i) for up to 400 payloads
        let batched = alive && s.payloads.len() > 64;
        if batched {
            for chunk in s.payloads.chunks(400) {
                let mut items = vec![];
                for x in chunk {
                    if x.len() > cap {
                        st.skipped_payloads += 1;
                        continue;
                    }
                    let nothing = digest(&[]);
                    if !trains && (items.len() + si) % 8 == 0 {
                        // self-training codec: the table an encode of x derives, for a rotating eighth of the batch
                        if let Ok(evs) = guard(|| codec.mech_for(name, x)) {
                            for e in evs {
                                st.tables += 1;
                                tr.ev(e);
                            }
                        }
                    }
                    match guard(|| codec.encode(x)) {
                        Ok(Ok(blob)) => {
                            blob_id += 1;
                            st.encodes_ok += 1;
                            st.bytes += x.len() as u64;
                            st.decodes += 1;
                            let (dok, y) = match guard(|| codec.decode(&blob, x.len())) {
                                Ok(Ok(y)) => {
                                    if !x.is_empty() {
                                        roundtrips += 1;
                                    }
                                    (true, digest(&y))
                                }
                                Ok(Err(_)) => {
                                    st.decode_errors += 1;
                                    (false, nothing)
                                }
                                Err(_) => {
                                    st.panics += 1;
                                    (false, nothing)
                                }
                            };
                            items.push(json!({"x":digest(x),"eok":true,"b":blob_id,"n":x.len(),"dok":dok,"y":y}));
                        }
                        Ok(Err(_)) => {
                            st.encodes_refused += 1;
                            items.push(json!({"x":digest(x),"eok":false,"b":0,"n":x.len(),"dok":false,"y":nothing}));
                        }
                        Err(_) => {
                            // a panic inside encode is a refusal; the codec object is not trusted any more
                            st.panics += 1;
                            st.encodes_refused += 1;
                            items.push(json!({"x":digest(x),"eok":false,"b":0,"n":x.len(),"dok":false,"y":nothing}));
                            std::mem::forget(std::mem::replace(&mut codec, make(name)));
                            let _ = guard(|| codec.train(&s.train));
                        }
                    }
                }
                tr.ev(json!({"op":"roundtrips","c":name,"items":items}));
                tr.flush();
            }
            st.nontrivial += roundtrips;
            continue;
        }
        for x in &s.payloads {
            if !alive {
                break;
            }
            if x.len() > cap {
                st.skipped_payloads += 1;
                continue;
            }
            if !trains {
                if let Ok(evs) = guard(|| codec.mech_for(name, x)) {
                    for e in evs {
                        st.tables += 1;
                        tr.ev(e);
                    }
                }
            }
            let alpha = present(x).len();
            let enc = guard(|| codec.encode(x));
            let blob = match enc {
                Ok(Ok(b)) => b,
                Ok(Err(e)) => {
                    st.encodes_refused += 1;
                    tr.ev(json!({"op":"encode","c":name,"x":digest(x),"alpha":alpha,"ok":false,"b":0,"blob":digest(&[]),"err":e}));
                    continue;
                }
                Err(msg) => {
                    st.panics += 1;
                    tr.ev(json!({"op":"panic","in":"encode","c":name,"x":digest(x),"alpha":alpha,"msg":msg}));
                    break;
                }
            };
            if trains {
                // a non-adaptive FSE encoder whose training was refused fixes its table on this call
                if let Ok(evs) = guard(|| codec.mech_for(name, x)) {
                    for e in evs {
                        st.tables += 1;
                        tr.ev(e);
                    }
                }
            }
            blob_id += 1;
            st.encodes_ok += 1;
            st.bytes += x.len() as u64;
            let mut ev = json!({"op":"encode","c":name,"x":digest(x),"alpha":alpha,"ok":true,"b":blob_id,"blob":digest(&blob),"err":""});
            if fam == "fse" || fam == "paradapt" {
                // which byte values the payload contains (the known-finding guard: a symbol WITHOUT a slot occurs in it)
                ev["xs"] = json!(present(x));
            }
            tr.ev(ev);
            tr.flush();
            let dec = guard(|| codec.decode(&blob, x.len()));
            st.decodes += 1;
            match dec {
                Ok(Ok(y)) => {
                    roundtrips += 1;
                    tr.ev(json!({"op":"decode","c":name,"b":blob_id,"n":x.len(),"ok":true,"y":digest(&y),"err":""}));
                }
                Ok(Err(e)) => {
                    st.decode_errors += 1;
                    tr.ev(json!({"op":"decode","c":name,"b":blob_id,"n":x.len(),"ok":false,"y":digest(&[]),"err":e}));
                }
                Err(msg) => {
                    st.panics += 1;
                    tr.ev(json!({"op":"panic","in":"decode","c":name,"b":blob_id,"n":x.len(),"msg":msg}));
                    break;
                }
            }
            if samples.len() < 3 && x.len() >= 8 && x.len() <= 40 {
                samples.push(json!({"subject":name,"klass":s.klass,"mode":mode,"payload":bytes_json(x),"blob_len":blob.len()}));
            }
        }
        if roundtrips > 0 && s.payloads.iter().any(|x| !x.is_empty()) {
            st.nontrivial += roundtrips;
        }
    }
    tr.close();
    let _ = std::fs::remove_file(&progress);
    let files: Vec<String> = tr.files.iter().map(|p| p.display().to_string()).collect();
    let v = json!({"subject":name,"events":tr.total_events,"runs":tr.runs,"files":files,"samples":samples,
        "stats":{"sessions":st.sessions,"roundtrips_nontrivial":st.nontrivial,"trains_ok":st.trains_ok,"trains_refused":st.trains_refused,
                 "encodes_ok":st.encodes_ok,"encodes_refused":st.encodes_refused,"decodes":st.decodes,"decode_errors":st.decode_errors,
                 "panics":st.panics,"skipped_payloads":st.skipped_payloads,"skipped_sessions":st.skipped_sessions,"tables":st.tables,"code_tables":st.code_tables,"payload_bytes":st.bytes}});
    std::fs::write(a.out.join(format!("sub-{name}-f{from}.json")), serde_json::to_vec(&v).unwrap()).expect("write subject summary");
}

// ---------------------------------------------------------------- parent: one child per subject

fn drive(a: &Args) {
    let names: Vec<&str> = SUBJECTS.iter().map(|s| s.0).filter(|s| a.wants(s)).collect();
    let next = std::sync::atomic::AtomicUsize::new(0);
    let nthreads = a.get_u64("threads", 8) as usize;
    let secs = if a.thorough() { 2400 } else { 420 };
    let crashes = std::sync::Mutex::new(Vec::<(String, usize, String)>::new());
    std::thread::scope(|sc| {
        for _ in 0..nthreads {
            sc.spawn(|| loop {
                let i = next.fetch_add(1, std::sync::atomic::Ordering::SeqCst);
                if i >= names.len() {
                    break;
                }
                let name = names[i];
                let mut from = 0usize;
                for _attempt in 0..6 {
                    let mut args: Vec<String> = vec![
                        "--mode".into(), "child".into(), "--subject".into(), name.into(), "--seed".into(), a.seed.to_string(), "--tier".into(),
                        a.tier.clone(), "--out".into(), a.out.display().to_string(), "--from".into(), from.to_string(),
                    ];
                    if let Some(k) = a.get("only") {
                        args.push("--only".into());
                        args.push(k.into());
                    }
                    let out = run_child(&args, secs, 0, true);
                    if matches!(out, ChildOutcome::Exit(0)) {
                        break;
                    }
                    // the child died inside a session: that is data.  Continue behind it.
                    let p = a.out.join(format!("progress-{name}.txt"));
                    let at = std::fs::read_to_string(&p).ok().and_then(|s| s.trim().parse::<usize>().ok()).unwrap_or(from);
                    crashes.lock().unwrap().push((name.to_string(), at, format!("{out:?}")));
                    from = at + 1;
                }
            });
        }
    });
    let crashes = crashes.into_inner().unwrap();
    let mut tr = Tracer::new(&a.out, "c01-zz-crash");
    for (name, at, out) in &crashes {
        let s = SUBJECTS.iter().find(|s| s.0 == name).unwrap();
        tr.reset("codec", name, json!({"fam":s.1,"variant":s.2,"streams":s.3,"mode":"crash","klass":"crash","sess":at,"tier":a.tier,"seed":a.seed.to_string()}));
        tr.ev(json!({"op":"crash","c":name,"sess":at,"outcome":out}));
    }
    tr.close();
    // collect
    let mut per = serde_json::Map::new();
    let (mut events, mut runs) = (tr.total_events, tr.runs);
    let mut files: Vec<String> = tr.files.iter().map(|p| p.display().to_string()).collect();
    let mut samples = vec![];
    if let Ok(rd) = std::fs::read_dir(&a.out) {
        let mut ps: Vec<_> = rd.filter_map(|e| e.ok()).map(|e| e.path()).filter(|p| p.file_name().map_or(false, |n| n.to_string_lossy().starts_with("sub-"))).collect();
        ps.sort();
        for p in ps {
            let v: Value = serde_json::from_slice(&std::fs::read(&p).unwrap_or_default()).unwrap_or(json!({}));
            let name = v["subject"].as_str().unwrap_or("?").to_string();
            events += v["events"].as_u64().unwrap_or(0) as usize;
            runs += v["runs"].as_u64().unwrap_or(0) as usize;
            if let Some(f) = v["files"].as_array() {
                files.extend(f.iter().filter_map(|x| x.as_str().map(String::from)));
            }
            if let Some(s) = v["samples"].as_array() {
                if samples.len() < 6 {
                    samples.extend(s.iter().take(1).cloned());
                }
            }
            // merge the counters of restarted children
            let e = per.entry(name).or_insert(json!({}));
            if let (Some(dst), Some(src)) = (e.as_object_mut(), v["stats"].as_object()) {
                for (k, x) in src {
                    let old = dst.get(k).and_then(|o| o.as_u64()).unwrap_or(0);
                    dst.insert(k.clone(), json!(old + x.as_u64().unwrap_or(0)));
                }
            }
            let _ = std::fs::remove_file(&p);
        }
    }
    let cr: Vec<Value> = crashes.iter().map(|(n, at, o)| json!({"subject":n,"sess":at,"outcome":o})).collect();
    write_summary(&a.out, &json!({"mode":"drive","events":events,"runs":runs,"files":files,"subjects":per,"crashes":cr,"samples":samples}));
}

fn main() {
    let a = Args::parse();
    match a.mode.as_str() {
        "drive" => drive(&a),
        "child" => {
            let name = a.subject.clone().unwrap_or_default();
            run_subject(&a, &name)
        }
        "list" => {
            for s in SUBJECTS {
                println!("{} {} {} {}", s.0, s.1, s.2, s.3);
            }
        }
        m => {
            eprintln!("c01: unknown mode {m}");
            std::process::exit(2)
        }
    }
}
