//! C18 — every submitted task runs exactly once; ordered pipelines keep their order.
//! Runs the real WorkStealingQueue / WorkStealingExecutor / FiberPool / Pipeline and logs what
//! happened; TLC judges the log against spec/Executor.tla and spec/ParallelMap.tla
//! (Trace_Executor.tla).
//!
//! modes
//!   queue   seeded random histories on the public WorkStealingQueue API (push_local / pop_local /
//!           steal / balance / len), single thread: deterministic
//!   exec    real executors (tokio runtime): worker counts 1..4, capacities 1..4 and larger, task
//!           counts around the capacity and beyond 100 (balance() trigger), mixed priorities,
//!           non-stealable tasks; ends when every accepted task finished or nothing happened for the
//!           grace period
//!   par     FiberPool::parallel_map / parallel_for_each / parallel_reduce / spawn_batch,
//!           Pipeline::execute_single / process_batch with failing, panicking and slow stage functions
//!   bulk    more tasks than all queues hold (local queues + the 10 000-entry global queue) behind
//!           blocked workers: refusals at the limit, every accepted task exactly once (one event)
//!   global  init_concurrency / WorkStealingExecutor::init / global(): the process-wide executor;
//!           concurrency::spawn + join_all, parallel_map, parallel_reduce, spawn_blocking
use serde_json::{json, Value};
use std::future::Future;
use std::pin::Pin;
use std::sync::atomic::{AtomicU64, Ordering};
use std::sync::{Arc, Mutex};
use std::time::{Duration, Instant};
use zipora::concurrency::pipeline::{MapStage, PipelineConfig};
use std::sync::atomic::{AtomicU32, AtomicUsize};
use zipora::concurrency::fiber_pool::FiberPoolBuilder;
use zipora::concurrency::work_stealing::ClosureTask;
use zipora::concurrency::{ConcurrencyConfig, FiberPool, FiberPoolConfig, Pipeline, Task, WorkStealingExecutor, WorkStealingQueue};
use zipora::error::{Result as ZResult, ZiporaError};
use zv::*;

type Log = Arc<Mutex<Vec<Value>>>;

type TaskFut = Pin<Box<dyn Future<Output = ZResult<()>> + Send>>;

/// what a task body needs to submit further tasks from inside a task
#[derive(Clone)]
struct Nest {
    ex: Arc<WorkStealingExecutor>,
    accepted: Arc<AtomicUsize>,
}

struct T {
    id: u32,
    prio: u8,
    stealable: bool,
    log: Log,
    last: Arc<AtomicU64>,
    yield_inside: bool,
    children: Vec<u32>, // tasks this task submits when it runs
    nest: Option<Nest>,
    panics: bool,
}
fn now_ms(t0: Instant) -> u64 {
    t0.elapsed().as_millis() as u64
}
static T0: Mutex<Option<Instant>> = Mutex::new(None);
fn t0() -> Instant {
    let mut g = T0.lock().unwrap();
    *g.get_or_insert_with(Instant::now)
}

/// logs `exec_panic` when the task body unwinds
struct PanicNote {
    id: u32,
    log: Log,
    last: Arc<AtomicU64>,
}
impl Drop for PanicNote {
    fn drop(&mut self) {
        if std::thread::panicking() {
            self.log.lock().unwrap_or_else(|e| e.into_inner()).push(json!({"op":"exec_panic","id":self.id}));
            self.last.store(now_ms(t0()), Ordering::SeqCst);
        }
    }
}

/// the body of every task: log the first poll, optionally yield, submit the children, log the end
#[allow(clippy::too_many_arguments)]
fn body(id: u32, log: Log, last: Arc<AtomicU64>, yield_inside: bool, children: Vec<u32>, nest: Option<Nest>, panics: bool) -> TaskFut {
    Box::pin(async move {
        log.lock().unwrap().push(json!({"op":"exec_start","id":id}));
        last.store(now_ms(t0()), Ordering::SeqCst);
        let _note = PanicNote { id, log: log.clone(), last: last.clone() };
        if yield_inside {
            tokio::task::yield_now().await;
        }
        if let Some(n) = &nest {
            for c in children {
                let t = Box::new(T { id: c, prio: (c % 3) as u8, stealable: c % 4 != 0, log: log.clone(), last: last.clone(), yield_inside: false, children: vec![], nest: None, panics: false });
                log.lock().unwrap().push(json!({"op":"offer","id":c,"prio":c % 3,"stealable":c % 4 != 0,"from_task":id}));
                let ok = n.ex.submit(t).is_ok();
                log.lock().unwrap().push(json!({"op":"offer_result","id":c,"ok":ok}));
                if ok {
                    n.accepted.fetch_add(1, Ordering::SeqCst);
                }
                last.store(now_ms(t0()), Ordering::SeqCst);
            }
        }
        if panics {
            panic!("task panic requested by the harness");
        }
        log.lock().unwrap().push(json!({"op":"exec_end","id":id}));
        last.store(now_ms(t0()), Ordering::SeqCst);
        Ok(())
    })
}

impl Task for T {
    fn execute(self: Box<Self>) -> TaskFut {
        body(self.id, self.log, self.last, self.yield_inside, self.children, self.nest, self.panics)
    }
    fn priority(&self) -> u8 {
        self.prio
    }
    fn is_stealable(&self) -> bool {
        self.stealable
    }
}

/// identify a task popped from a queue by running it to completion on the spot (its body only logs)
fn run_now(task: Box<dyn Task>) {
    let fut = task.execute();
    let rt = tokio::runtime::Builder::new_current_thread().build().unwrap();
    let _ = rt.block_on(fut);
}

// ---------------------------------------------------------------- queue histories

fn mode_queue(a: &Args) {
    let mut tr = Tracer::new(&a.out, "exq");
    let rng0 = Rng::new(a.seed).derive("queue");
    let runs = a.get_u64("n", if a.thorough() { 4000 } else { 500 });
    for run in 0..runs {
        let mut rng = rng0.derive(&format!("{run}"));
        let cap = *rng.pick(&[1usize, 2, 3, 4, 5, 7, 8]);
        let q = WorkStealingQueue::new(0, cap);
        tr.reset("executor", "wsq", json!({"fam":"wsq","variant":format!("cap{cap}"),"cap":cap}));
        let log: Log = Arc::new(Mutex::new(vec![]));
        let last = Arc::new(AtomicU64::new(0));
        let mut next_id = 1u32;
        let steps = rng.range(4, 40);
        for _ in 0..steps {
            match rng.below(100) {
                0..=44 => {
                    let id = next_id;
                    next_id += 1;
                    let prio = rng.below(3) as u8;
                    let stealable = rng.chance(3, 4);
                    let t = Box::new(T { id, prio, stealable, log: log.clone(), last: last.clone(), yield_inside: false, children: vec![], nest: None, panics: false });
                    tr.ev(json!({"op":"offer","id":id,"prio":prio,"stealable":stealable}));
                    let ok = q.push_local(t).is_ok();
                    tr.ev(json!({"op":"offer_result","id":id,"ok":ok}));
                }
                45..=64 | 65..=79 => {
                    let via = if rng.chance(1, 2) { "pop_local" } else { "steal" };
                    let r = if via == "pop_local" { q.pop_local() } else { q.steal() };
                    match r {
                        Some(t) => {
                            let before = log.lock().unwrap().len();
                            run_now(t);
                            let evs: Vec<Value> = log.lock().unwrap()[before..].to_vec();
                            let id = evs.first().map(|e| e["id"].clone()).unwrap_or(json!(0));
                            tr.ev(json!({"op":"take","via":via,"id":id}));
                            tr.ev(json!({"op":"exec_end","id":id}));
                        }
                        None => tr.ev(json!({"op":"take_none","via":via})),
                    }
                }
                80..=91 => {
                    q.balance();
                    tr.ev(json!({"op":"shuffle"}));
                }
                _ => tr.ev(json!({"op":"queued","n":q.len()})),
            }
        }
        // drain: everything pushed must come out exactly once (pop_local, then steal)
        loop {
            let r = q.pop_local().map(|t| ("pop_local", t)).or_else(|| q.steal().map(|t| ("steal", t)));
            match r {
                Some((via, t)) => {
                    let before = log.lock().unwrap().len();
                    run_now(t);
                    let id = log.lock().unwrap()[before]["id"].clone();
                    tr.ev(json!({"op":"take","via":via,"id":id}));
                    tr.ev(json!({"op":"exec_end","id":id}));
                }
                None => break,
            }
        }
        tr.ev(json!({"op":"final","queued":q.len(),"idle":q.is_empty(),"executed":log.lock().unwrap().len() / 2,"pending":0,"queue_only":true}));
    }
    tr.close();
    write_summary(&a.out, &json!({"mode":"queue","events":tr.total_events,"runs":tr.runs}));
}

// ---------------------------------------------------------------- real executor

#[derive(Clone, Copy, PartialEq)]
enum Kind {
    Custom,        // a harness type implementing Task
    Closure,       // ClosureTask::new(..).with_priority(..).with_stealable(..).with_estimated_duration(..)
    SubmitClosure, // WorkStealingExecutor::submit_closure (priority 0, stealable)
}

struct ExecCfg {
    workers: usize,
    cap: usize,
    tasks: usize,
    burst: bool,
    yield_inside: bool,
    kind: Kind,
    nested: bool,             // every third task submits two more tasks from inside its body
    panic_at: Option<usize>,  // this task panics in the middle of the batch
}

/// run one batch of tasks on `ex` and return the events.  `executed` in the final event is the number
/// of tasks the executor counted during this batch (the global executor lives across batches).
async fn exec_on(ex: Arc<WorkStealingExecutor>, cfg: &ExecCfg, rng: &mut Rng, grace_ms: u64) -> Vec<Value> {
    let mut events = vec![];
    let log: Log = Arc::new(Mutex::new(vec![]));
    let last = Arc::new(AtomicU64::new(now_ms(t0())));
    let executed_before = ex.stats().total_executed;
    // let the workers spin a little on a fresh executor (total_executed = 0: balance() runs every iteration)
    tokio::time::sleep(Duration::from_millis(2)).await;
    let accepted = Arc::new(AtomicUsize::new(0));
    let nest = Nest { ex: ex.clone(), accepted: accepted.clone() };
    let mut next_child = 10_000u32;
    for i in 0..cfg.tasks {
        let id = i as u32 + 1;
        let (prio, stealable) = if cfg.kind == Kind::SubmitClosure { (0u8, true) } else { (rng.below(3) as u8, rng.chance(3, 4)) };
        let children: Vec<u32> = if cfg.nested && i % 3 == 0 {
            next_child += 2;
            vec![next_child - 2, next_child - 1]
        } else {
            vec![]
        };
        let n = if children.is_empty() { None } else { Some(nest.clone()) };
        let panics = cfg.panic_at == Some(i);
        // the offer is logged before the call: a worker may start the task before submit() returns
        log.lock().unwrap().push(json!({"op":"offer","id":id,"prio":prio,"stealable":stealable}));
        let (l2, la2, yi) = (log.clone(), last.clone(), cfg.yield_inside);
        let ok = match cfg.kind {
            Kind::Custom => ex.submit(Box::new(T { id, prio, stealable, log: l2, last: la2, yield_inside: yi, children, nest: n, panics })).is_ok(),
            Kind::Closure => {
                let dur = rng.below(5);
                let t = ClosureTask::new(move || body(id, l2, la2, yi, children, n, panics))
                    .with_priority(prio)
                    .with_stealable(stealable)
                    .with_estimated_duration(Duration::from_millis(dur));
                events.push(json!({"op":"task_attrs","prio":prio,"stealable":stealable,"dur_ms":dur,
                                   "got_prio":t.priority(),"got_stealable":t.is_stealable(),"got_dur_ms":t.estimated_duration().as_millis() as u64}));
                ex.submit(Box::new(t)).is_ok()
            }
            Kind::SubmitClosure => ex.submit_closure(move || body(id, l2, la2, yi, children, n, panics)).is_ok(),
        };
        log.lock().unwrap().push(json!({"op":"offer_result","id":id,"ok":ok}));
        if ok {
            accepted.fetch_add(1, Ordering::SeqCst);
        }
        last.store(now_ms(t0()), Ordering::SeqCst);
        if !cfg.burst && rng.chance(1, 3) {
            tokio::task::yield_now().await;
        }
    }
    let over = |e: &Value| e["op"] == "exec_end" || e["op"] == "exec_panic";
    // wait until every accepted task finished, or nothing has happened for the grace period
    loop {
        let done = log.lock().unwrap().iter().filter(|e| over(e)).count();
        if done >= accepted.load(Ordering::SeqCst) {
            break;
        }
        if now_ms(t0()).saturating_sub(last.load(Ordering::SeqCst)) > grace_ms {
            break;
        }
        tokio::time::sleep(Duration::from_millis(2)).await;
    }
    let acc = accepted.load(Ordering::SeqCst);
    // settle: the worker bumps its counters right after the task body returned
    for _ in 0..50 {
        if ex.is_idle() && (ex.stats().total_executed - executed_before) as usize >= acc {
            break;
        }
        tokio::time::sleep(Duration::from_millis(2)).await;
    }
    let evs: Vec<Value> = log.lock().unwrap().clone();
    let done = evs.iter().filter(|e| over(e)).count();
    // take = the first poll of the task body
    for e in evs {
        if e["op"] == "exec_start" {
            events.push(json!({"op":"take","via":"worker","id":e["id"]}));
        } else {
            events.push(e);
        }
    }
    events.push(json!({"op":"final","queued":ex.total_queued(),"idle":ex.is_idle(),"executed":ex.stats().total_executed - executed_before,
                       "pending":acc - done.min(acc),"queue_only":false}));
    events
}

async fn exec_one(cfg: &ExecCfg, rng: &mut Rng, grace_ms: u64) -> Vec<Value> {
    let ex = match WorkStealingExecutor::new(cfg.workers, cfg.cap) {
        Ok(e) => e,
        Err(_) => return vec![json!({"op":"note","what":"executor construction refused"})],
    };
    let events = exec_on(ex.clone(), cfg, rng, grace_ms).await;
    let _ = ex.shutdown().await;
    events
}

fn reset_cfg(cfg: &ExecCfg) -> Value {
    json!({"workers":cfg.workers,"cap":cfg.cap,"tasks":cfg.tasks,"burst":cfg.burst,"yield_inside":cfg.yield_inside,"nested":cfg.nested,
           "kind":match cfg.kind { Kind::Custom => "custom", Kind::Closure => "closure_task", Kind::SubmitClosure => "submit_closure" },
           "panic_at":opt(cfg.panic_at.map(|x| x as u64))})
}

fn mode_exec(a: &Args) {
    let mut tr = Tracer::new(&a.out, "exe");
    tr.max_events = 4000;
    let rng0 = Rng::new(a.seed).derive("exec");
    let grace = a.get_u64("grace_ms", 1500);
    let mut cfgs: Vec<ExecCfg> = vec![];
    let reps = if a.thorough() { 6 } else { 2 };
    let kinds = [Kind::Custom, Kind::Closure, Kind::SubmitClosure, Kind::Custom, Kind::Closure];
    let mut k = 0usize;
    for workers in [1usize, 2, 3, 4, 8] {
        for cap in [1usize, 2, 3, 4, 16, 256] {
            // around the capacity of one local queue, around the capacity of all local queues together
            // (beyond it: the global queue), and fixed counts
            let mut counts = vec![1usize, cap, cap + 1, 2 * cap + 1, 7, 40];
            if cap <= 16 {
                counts.extend([workers * cap - 1, workers * cap, workers * cap + 1, 2 * workers * cap + 3]);
            }
            counts.retain(|&c| c >= 1 && c <= 300);
            counts.sort();
            counts.dedup();
            for &tasks in &counts {
                for r in 0..(if workers >= 3 { (reps / 2).max(1) } else { reps }) {
                    k += 1;
                    cfgs.push(ExecCfg { workers, cap, tasks, burst: r % 2 == 0, yield_inside: r % 3 == 1, kind: kinds[k % kinds.len()], nested: k % 4 == 3, panic_at: None });
                }
            }
        }
        // beyond 100 executed tasks: the periodic balance() of a busy executor
        for &tasks in &[130usize, 260] {
            cfgs.push(ExecCfg { workers, cap: 256, tasks, burst: true, yield_inside: false, kind: Kind::Custom, nested: false, panic_at: None });
            cfgs.push(ExecCfg { workers, cap: 8, tasks, burst: false, yield_inside: true, kind: Kind::Closure, nested: tasks == 130, panic_at: None });
        }
    }
    let rt = tokio::runtime::Builder::new_multi_thread().worker_threads(4).enable_all().build().unwrap();
    let mut stuck = 0usize;
    for (i, cfg) in cfgs.iter().enumerate() {
        let mut rng = rng0.derive(&format!("{i}"));
        let events = rt.block_on(exec_one(cfg, &mut rng, grace));
        if events.last().map_or(false, |e| e["pending"].as_u64().unwrap_or(0) > 0) {
            stuck += 1;
        }
        let mut rc = reset_cfg(cfg);
        rc["fam"] = json!("wse");
        rc["variant"] = json!(format!("w{}", cfg.workers));
        tr.reset("executor", "wse", rc);
        for e in events {
            tr.ev(e);
        }
    }
    // a task that panics in the middle of a batch: it is over; every other accepted task still runs
    let mut pcfgs: Vec<ExecCfg> = vec![];
    for workers in [1usize, 2, 3, 8] {
        for (cap, tasks, at) in [(4usize, 3usize, 1usize), (2, 9, 4), (16, 12, 0), (256, 40, 20)] {
            for r in 0..(if a.thorough() { 3 } else { 1 }) {
                pcfgs.push(ExecCfg { workers, cap, tasks, burst: r % 2 == 0, yield_inside: r == 1, kind: kinds[(workers + r) % 3], nested: false, panic_at: Some(at) });
            }
        }
    }
    tr.max_events = 0;
    let mut pstuck = 0usize;
    for (i, cfg) in pcfgs.iter().enumerate() {
        let mut rng = rng0.derive(&format!("p{i}"));
        let events = rt.block_on(exec_one(cfg, &mut rng, grace.min(600)));
        if events.last().map_or(false, |e| e["pending"].as_u64().unwrap_or(0) > 0) {
            pstuck += 1;
        }
        let mut rc = reset_cfg(cfg);
        rc["fam"] = json!("wse");
        rc["variant"] = json!(format!("w{}_panic", cfg.workers));
        tr.reset("executor", "wse@panicking_task", rc);
        tr.max_events = 4000;
        for e in events {
            tr.ev(e);
        }
    }
    tr.close();
    write_summary(&a.out, &json!({"mode":"exec","configs":cfgs.len() + pcfgs.len(),"stuck_configs":stuck,"panic_configs":pcfgs.len(),"panic_configs_stuck":pstuck,
                                  "events":tr.total_events,"runs":tr.runs}));
}

// ---------------------------------------------------------------- more tasks than all queues hold

fn mode_bulk(a: &Args) {
    let mut tr = Tracer::new(&a.out, "exb");
    tr.max_events = 0;
    let rt = tokio::runtime::Builder::new_multi_thread().worker_threads(4).enable_all().build().unwrap();
    let grace = a.get_u64("grace_ms", 1500);
    let mut refused_total = 0usize;
    let mut cfgs = vec![(1usize, 1usize, 10_040usize), (2, 4, 10_060), (3, 2, 600)];
    if a.thorough() {
        cfgs.extend([(8usize, 1usize, 10_100usize), (1, 16, 10_100), (4, 256, 11_200)]);
    }
    for (workers, cap, n) in cfgs {
        tr.reset("executor", "wse@bulk", json!({"fam":"wse","variant":format!("w{workers}_bulk"),"workers":workers,"cap":cap,"tasks":n}));
        let ev = rt.block_on(async {
            let ex = match WorkStealingExecutor::new(workers, cap) {
                Ok(e) => e,
                Err(_) => return json!({"op":"note","what":"executor construction refused"}),
            };
            let before = ex.stats().total_executed;
            // every task waits for the gate: the workers block on the first tasks they take, nothing drains
            let (gate_tx, gate_rx) = tokio::sync::watch::channel(false);
            let counts: Arc<Vec<AtomicU32>> = Arc::new((0..n).map(|_| AtomicU32::new(0)).collect());
            let last = Arc::new(AtomicU64::new(now_ms(t0())));
            let mut accepted = vec![false; n];
            for i in 0..n {
                let (c, mut rx, la) = (counts.clone(), gate_rx.clone(), last.clone());
                let f = move || -> TaskFut {
                    Box::pin(async move {
                        let _ = rx.wait_for(|open| *open).await;
                        c[i].fetch_add(1, Ordering::SeqCst);
                        la.store(now_ms(t0()), Ordering::SeqCst);
                        Ok(())
                    })
                };
                accepted[i] = if i % 2 == 0 {
                    ex.submit_closure(f).is_ok()
                } else {
                    ex.submit(Box::new(ClosureTask::new(f).with_priority((i % 5) as u8).with_stealable(i % 7 != 0))).is_ok()
                };
                if i == workers * cap {
                    // let the workers pick up their first tasks and block
                    tokio::time::sleep(Duration::from_millis(5)).await;
                }
            }
            let queued_before_open = ex.total_queued();
            let nacc = accepted.iter().filter(|x| **x).count();
            let _ = gate_tx.send(true);
            last.store(now_ms(t0()), Ordering::SeqCst);
            loop {
                let ran: usize = counts.iter().filter(|c| c.load(Ordering::SeqCst) > 0).count();
                if ran >= nacc || now_ms(t0()).saturating_sub(last.load(Ordering::SeqCst)) > grace {
                    break;
                }
                tokio::time::sleep(Duration::from_millis(2)).await;
            }
            for _ in 0..100 {
                if ex.is_idle() && (ex.stats().total_executed - before) as usize >= nacc {
                    break;
                }
                tokio::time::sleep(Duration::from_millis(2)).await;
            }
            let execs: Vec<u32> = counts.iter().map(|c| c.load(Ordering::SeqCst)).collect();
            let e = json!({"op":"bulk","n":n,"accepted":accepted,"execs":execs,"queued":ex.total_queued(),"idle":ex.is_idle(),
                           "executed":ex.stats().total_executed - before,"queued_before_open":queued_before_open,"refused":n - nacc});
            let _ = ex.shutdown().await;
            e
        });
        refused_total += ev["refused"].as_u64().unwrap_or(0) as usize;
        tr.ev(ev);
    }
    tr.close();
    write_summary(&a.out, &json!({"mode":"bulk","events":tr.total_events,"runs":tr.runs,"refused":refused_total}));
}

// ---------------------------------------------------------------- the process-wide executor and the module-level helpers

fn mode_global(a: &Args) {
    let mut tr = Tracer::new(&a.out, "exg");
    tr.max_events = 4000;
    let rng0 = Rng::new(a.seed).derive("global");
    let grace = a.get_u64("grace_ms", 1500);
    // ONE runtime for the whole mode: the workers of the global executor live on it
    let rt = tokio::runtime::Builder::new_multi_thread().worker_threads(4).enable_all().build().unwrap();
    let (gw, gcap) = (3usize, 4usize);
    tr.reset("executor", "wse@global", json!({"fam":"wse","variant":"global_init","workers":gw,"cap":gcap}));
    let cfg0 = |mf: usize, qs: usize| ConcurrencyConfig { max_fibers: mf, queue_size: qs, numa_aware: false, stack_size: 64 * 1024 };
    for (mf, qs) in [(0usize, 8usize), (2, 0)] {
        let ok = rt.block_on(zipora::concurrency::init_concurrency(cfg0(mf, qs))).is_ok();
        tr.ev(json!({"op":"init","api":"init_concurrency","max_fibers":mf,"queue_size":qs,"ok":ok}));
    }
    tr.ev(json!({"op":"global","initialised":false,"present":WorkStealingExecutor::global().is_some()}));
    let ok = rt.block_on(zipora::concurrency::init_concurrency(cfg0(gw, gcap))).is_ok();
    tr.ev(json!({"op":"init","api":"init_concurrency","max_fibers":gw,"queue_size":gcap,"ok":ok}));
    // a second initialisation (other sizes) through the other entry point: the executor in place stays
    let ok2 = rt.block_on(WorkStealingExecutor::init(cfg0(1, 1))).is_ok();
    tr.ev(json!({"op":"init","api":"WorkStealingExecutor::init","max_fibers":1,"queue_size":1,"ok":ok2}));
    tr.ev(json!({"op":"global","initialised":ok,"present":WorkStealingExecutor::global().is_some()}));
    let mut runs = 0;
    if let Some(ex) = WorkStealingExecutor::global() {
        let kinds = [Kind::Custom, Kind::Closure, Kind::SubmitClosure];
        let counts: &[usize] = if a.thorough() { &[1, 3, 4, 5, 11, 12, 13, 27, 40, 130, 260] } else { &[1, 4, 12, 13, 27, 130] };
        for (i, &tasks) in counts.iter().enumerate() {
            for r in 0..2usize {
                let cfg = ExecCfg { workers: gw, cap: gcap, tasks, burst: r == 0, yield_inside: (i + r) % 3 == 1, kind: kinds[(i + r) % 3], nested: (i + r) % 2 == 1, panic_at: None };
                let mut rng = rng0.derive(&format!("g{i}/{r}"));
                let events = rt.block_on(exec_on(ex.clone(), &cfg, &mut rng, grace));
                let mut rc = reset_cfg(&cfg);
                rc["fam"] = json!("wse");
                rc["variant"] = json!("global");
                tr.reset("executor", "wse@global", rc);
                for e in events {
                    tr.ev(e);
                }
                runs += 1;
            }
        }
    }
    // concurrency::spawn + join_all, parallel_map, parallel_reduce, spawn_blocking (module level)
    tr.max_events = 0;
    let n_runs = a.get_u64("n", if a.thorough() { 600 } else { 120 });
    let cpus = std::thread::available_parallelism().map(|n| n.get()).unwrap_or(4);
    let _guard = rt.enter();
    for run in 0..n_runs {
        let mut rng = rng0.derive(&format!("m{run}"));
        // lengths around the chunking of parallel_reduce (ceil(n / cpus) items per chunk)
        let n = *rng.pick(&[0usize, 1, 2, 5, cpus - 1, cpus, cpus + 1, 2 * cpus + 1, 40]);
        let input: Vec<u32> = (0..n).map(|_| rng.below(50) as u32).collect();
        let fail: Vec<u32> = if !input.is_empty() && rng.chance(1, 3) { vec![*rng.pick(&input)] } else { vec![] };
        let pan: Vec<u32> = if !input.is_empty() && rng.chance(1, 4) { vec![*rng.pick(&input)] } else { vec![] };
        let bad: Vec<u32> = fail.iter().chain(pan.iter()).copied().collect();
        tr.reset("executor", "par@module", json!({"fam":"par","variant":"module_level","cpus":cpus}));
        tr.max_events = 4000;
        // spawn + join_all: one result per handle, in order; a failing / panicking fiber is the error of the call
        let handles: Vec<_> = input.iter().map(|&x| {
            let (f, p) = (fail.clone(), pan.clone());
            zipora::concurrency::spawn(async move {
                if x % 3 == 0 {
                    tokio::task::yield_now().await;
                }
                if p.contains(&x) {
                    panic!("fiber panic requested by the harness");
                }
                stage(x, &f)
            })
        }).collect();
        let r = rt.block_on(zipora::concurrency::join_all(handles));
        let (ok, out) = res_json(&r);
        tr.ev(json!({"op":"pmap","api":"concurrency::spawn+join_all","in":input,"fail":bad,"panics":pan,"ok":ok,"out":out}));
        let (f, p) = (fail.clone(), pan.clone());
        let r = rt.block_on(zipora::concurrency::parallel_map(input.clone(), move |x| {
            if p.contains(&x) {
                panic!("panic requested by the harness");
            }
            stage(x, &f)
        }));
        let (ok, out) = res_json(&r);
        tr.ev(json!({"op":"pmap","api":"concurrency::parallel_map","in":input,"fail":bad,"panics":pan,"ok":ok,"out":out}));
        let items: Vec<Vec<u32>> = input.iter().map(|x| vec![*x]).collect();
        let r = rt.block_on(zipora::concurrency::parallel_reduce(items, vec![], |mut acc: Vec<u32>, mut x: Vec<u32>| {
            acc.append(&mut x);
            Ok(acc)
        }));
        let (ok, out) = res_json(&r);
        tr.ev(json!({"op":"preduce","api":"concurrency::parallel_reduce","in":input,"ok":ok,"out":out}));
        // spawn_blocking: result i belongs to closure i
        let outs: Vec<Value> = rt.block_on(async {
            let mut futs = vec![];
            for &x in &input {
                let (f, p) = (fail.clone(), pan.clone());
                futs.push(zipora::concurrency::spawn_blocking(move || {
                    if p.contains(&x) {
                        panic!("panic requested by the harness");
                    }
                    stage(x, &f)
                }));
            }
            let mut v = vec![];
            // awaited in reverse: the result must not depend on the order of completion / polling
            let mut slots: Vec<Option<Value>> = vec![None; futs.len()];
            for (i, fut) in futs.into_iter().enumerate().rev() {
                slots[i] = Some(match fut.await {
                    Ok(x) => json!([x]),
                    Err(_) => json!([]),
                });
            }
            for s in slots {
                v.push(s.unwrap());
            }
            v
        });
        tr.ev(json!({"op":"pbatch","api":"concurrency::spawn_blocking","in":input,"fail":bad,"panics":pan,"handles":input.len(),"out":outs}));
        runs += 1;
    }
    tr.close();
    write_summary(&a.out, &json!({"mode":"global","events":tr.total_events,"runs":tr.runs,"batches":runs}));
}

// ---------------------------------------------------------------- parallel map / reduce / pipelines

/// the stage function of every "par" run: x -> 2x+1, failing on the listed inputs (the specification
/// knows the same definition: ParallelMap.tla F(x))
fn stage(x: u32, fail: &[u32]) -> ZResult<u32> {
    if fail.contains(&x) {
        Err(ZiporaError::invalid_data("stage failure requested by the harness"))
    } else {
        Ok(2 * x + 1)
    }
}

fn res_json(r: &ZResult<Vec<u32>>) -> (bool, Value) {
    match r {
        Ok(v) => (true, json!(v)),
        Err(_) => (false, json!([])),
    }
}

fn mode_par(a: &Args) {
    let mut tr = Tracer::new(&a.out, "exp");
    let rng0 = Rng::new(a.seed).derive("par");
    let rt = tokio::runtime::Builder::new_multi_thread().worker_threads(4).enable_all().build().unwrap();
    let runs = a.get_u64("n", if a.thorough() { 1500 } else { 250 });
    let _guard = rt.enter();
    for run in 0..runs {
        let mut rng = rng0.derive(&format!("{run}"));
        let n = *rng.pick(&[0usize, 1, 2, 3, 5, 8, 17, 40]);
        let input: Vec<u32> = (0..n).map(|_| rng.below(50) as u32).collect();
        let nfail = if rng.chance(1, 3) { rng.range(1, 2) as usize } else { 0 };
        let fail: Vec<u32> = (0..nfail).map(|_| if input.is_empty() { 3 } else { *rng.pick(&input) }).collect();
        // the in-flight limit (semaphore) at / below / above the number of items; the chunking of
        // parallel_reduce (max(1, n / max_workers) items per chunk) with n below, at, above and not a
        // multiple of max_workers
        let max_fibers = *rng.pick(&[1usize, 2, 3, 8, n.max(1), n + 1]);
        let max_workers = *rng.pick(&[1usize, 2, 3, 7, 8, n.max(1), n + 1]);
        let via_builder = rng.chance(1, 3);
        tr.reset("executor", "par", json!({"fam":"par","variant":"fiber_pool","max_fibers":max_fibers,"max_workers":max_workers,"builder":via_builder}));
        let made = if via_builder {
            FiberPoolBuilder::new().max_fibers(max_fibers).initial_workers(1).max_workers(max_workers).queue_capacity(64).idle_timeout(Duration::from_secs(1)).build()
        } else {
            FiberPool::new(FiberPoolConfig { max_fibers, initial_workers: 1, max_workers, queue_capacity: 64, idle_timeout: Duration::from_secs(1) })
        };
        let pool = match made {
            Ok(p) => p,
            Err(_) => continue,
        };
        // an item whose function panics in the middle of the batch: an error of the call / of ITS handle
        let pan: Vec<u32> = if !input.is_empty() && rng.chance(1, 4) { vec![*rng.pick(&input)] } else { vec![] };
        let bad: Vec<u32> = fail.iter().chain(pan.iter()).copied().collect();
        let (f, p) = (fail.clone(), pan.clone());
        let r = rt.block_on(pool.parallel_map(input.clone(), move |x| {
            if p.contains(&x) {
                panic!("panic requested by the harness");
            }
            stage(x, &f)
        }));
        let (ok, out) = res_json(&r);
        tr.ev(json!({"op":"pmap","api":"FiberPool::parallel_map","in":input,"fail":bad,"panics":pan,"ok":ok,"out":out}));
        // for_each: every input processed exactly once
        let seen: Arc<Mutex<Vec<u32>>> = Arc::new(Mutex::new(vec![]));
        let (s2, f, p) = (seen.clone(), fail.clone(), pan.clone());
        let r = rt.block_on(pool.parallel_for_each(input.clone(), move |x| {
            s2.lock().unwrap_or_else(|e| e.into_inner()).push(x);
            if p.contains(&x) {
                panic!("panic requested by the harness");
            }
            stage(x, &f).map(|_| ())
        }));
        let mut seen_v = seen.lock().unwrap_or_else(|e| e.into_inner()).clone();
        seen_v.sort();
        tr.ev(json!({"op":"pforeach","in":input,"fail":bad,"panics":pan,"ok":r.is_ok(),"seen_sorted":seen_v}));
        // reduce with a non-commutative, associative operation: concatenation of digit strings
        let items: Vec<Vec<u32>> = input.iter().map(|x| vec![*x]).collect();
        let r = rt.block_on(pool.parallel_reduce(items, vec![], |mut acc: Vec<u32>, mut x: Vec<u32>| {
            acc.append(&mut x);
            Ok(acc)
        }));
        let (ok, out) = res_json(&r);
        tr.ev(json!({"op":"preduce","in":input,"ok":ok,"out":out}));
        // spawn_batch: one handle per future, results by index
        let (f, p) = (fail.clone(), pan.clone());
        let futs: Vec<_> = input.iter().map(|&x| {
            let (f, p) = (f.clone(), p.clone());
            async move {
                if p.contains(&x) {
                    panic!("panic requested by the harness");
                }
                stage(x, &f)
            }
        }).collect();
        let handles = pool.spawn_batch(futs);
        let nh = handles.len();
        let outs: Vec<Value> = rt.block_on(async {
            let mut v = vec![];
            for h in handles {
                v.push(match h.await {
                    Ok(x) => json!([x]),
                    Err(_) => json!([]),
                });
            }
            v
        });
        tr.ev(json!({"op":"pbatch","api":"FiberPool::spawn_batch","in":input,"fail":bad,"panics":pan,"handles":nh,"out":outs}));
        // Pipeline::process_batch / execute_single with a MapStage; slow items exceed the stage timeout
        let slow: Vec<u32> = if rng.chance(1, 4) && !input.is_empty() { vec![*rng.pick(&input)] } else { vec![] };
        let mut pc = PipelineConfig::default();
        pc.stage_timeout = Duration::from_millis(40);
        pc.enable_batching = rng.chance(1, 2);
        pc.max_in_flight = *rng.pick(&[1usize, 2, n.max(1), n + 1, 100]);
        let p = Pipeline::new(pc.clone());
        let (f, s) = (fail.clone(), slow.clone());
        let st = MapStage::new("m".to_string(), move |x: u32| {
            if s.contains(&x) {
                std::thread::sleep(Duration::from_millis(1));
            }
            stage(x, &f)
        });
        let r = rt.block_on(p.process_batch(st, input.clone()));
        let (ok, out) = res_json(&r);
        tr.ev(json!({"op":"pmap","api":"Pipeline::process_batch","in":input,"fail":fail,"ok":ok,"out":out}));
        if let Some(&x) = input.first() {
            let f = fail.clone();
            let st = MapStage::new("s".to_string(), move |x: u32| stage(x, &f));
            let r = rt.block_on(p.execute_single(st, x)).map(|v| vec![v]);
            let (ok, out) = res_json(&r);
            tr.ev(json!({"op":"pmap","api":"Pipeline::execute_single","in":[x],"fail":fail,"ok":ok,"out":out}));
        }
    }
    tr.close();
    write_summary(&a.out, &json!({"mode":"par","events":tr.total_events,"runs":tr.runs}));
}

fn main() {
    let a = Args::parse();
    quiet_panics();
    let _ = t0();
    match a.mode.as_str() {
        "queue" => mode_queue(&a),
        "exec" => mode_exec(&a),
        "par" => mode_par(&a),
        "bulk" => mode_bulk(&a),
        "global" => mode_global(&a),
        m => {
            eprintln!("c18: unknown mode {m}");
            std::process::exit(2)
        }
    }
}
